//! C11 — term / proof encodings preserve observable behaviour.
//!
//! Generated programs in the fragment accepted by the real `program_supports_proofs` are run
//! command by command on three engines (`EGraph::default()`, `new_with_term_encoding()`,
//! `new_with_proofs()`); the predicate evaluated ON THE IMPLEMENTATION is the property text:
//! same Ok/Err per command, same `snapshot_stable_under_proof_encoding` text per command (table
//! sizes through `print-size`, extraction costs), same outcome of a fixed list of ground
//! `(check ..)` facts at the end; plus the reprint variant (`resolve_program` output of the encoded
//! program, printed, fed to a fresh plain engine with `ensure_no_reserved_symbols(false)`).
//! A second suite replays those /repo/tests/*.egg files that upstream runs in `_term_encoding` /
//! `_proofs` modes. A third suite (constructor-only sessions) writes cases for the Gallina model of
//! the encoding (coq/Encoding): class partition of probe terms of the real term-encoding engine vs
//! the encoded Datalog model vs the native Egg model.
//!
//! extra args: --cases N  --files N  --cons N   (overrides)
use egglog::{CommandOutput, EGraph};
use std::collections::{BTreeMap, HashSet};
use std::time::Instant;
use verif_harness::egg::*;
use verif_harness::egg_gen::*;
use verif_harness::util::*;

// ---- watchdog: an encoded engine that does not come back (e.g. a maintenance rule that keeps
// firing) is a property violation ("same success or failure of every command"), reported instead
// of hanging the check
static PROGRESS_MS: std::sync::atomic::AtomicU64 = std::sync::atomic::AtomicU64::new(0);
static CURRENT: std::sync::Mutex<String> = std::sync::Mutex::new(String::new());
static START: std::sync::OnceLock<Instant> = std::sync::OnceLock::new();
/// violations found so far (so that a watchdog exit does not lose them)
static FOUND: std::sync::Mutex<Vec<serde_json::Value>> = std::sync::Mutex::new(Vec::new());

fn progress(what: &str, input: &serde_json::Value) {
    let ms = START.get_or_init(Instant::now).elapsed().as_millis() as u64;
    PROGRESS_MS.store(ms, std::sync::atomic::Ordering::SeqCst);
    if let Ok(mut c) = CURRENT.lock() {
        *c = serde_json::json!({"what": what, "input": input}).to_string();
    }
}

fn start_watchdog(out: std::path::PathBuf, limit_s: u64) {
    START.get_or_init(Instant::now);
    std::thread::spawn(move || loop {
        std::thread::sleep(std::time::Duration::from_millis(500));
        let now = START.get().unwrap().elapsed().as_millis() as u64;
        let last = PROGRESS_MS.load(std::sync::atomic::Ordering::SeqCst);
        if now > last + limit_s * 1000 {
            let cur: serde_json::Value = CURRENT.lock().ok().and_then(|c| serde_json::from_str(&c).ok()).unwrap_or(serde_json::json!({}));
            let mut vs: Vec<serde_json::Value> = FOUND.lock().map(|f| f.clone()).unwrap_or_default();
            vs.push(serde_json::json!({"what": format!("no answer within {limit_s}s while running {} (the plain engine answers immediately)", cur["what"]),
                                "key": "C11-engine-does-not-return", "input": cur["input"]}));
            let rep = serde_json::json!({
                "sub": "modes", "cases": vs.len(), "shards": 0, "distinct_nontrivial": 0,
                "rule": "watchdog: a step did not return within the limit; violations found before that are listed first",
                "samples": [],
                "violations": vs
            });
            let _ = std::fs::write(out.join("impl_report.json"), serde_json::to_string(&rep).unwrap());
            std::process::exit(0);
        }
    });
}

#[derive(Clone, Copy, PartialEq, Eq, Debug)]
enum Mode {
    Plain,
    Term,
    Proofs,
}
const MODES: [Mode; 3] = [Mode::Plain, Mode::Term, Mode::Proofs];
/// sessions end when the plain database exceeds this many tuples
const MAX_TUPLES: usize = 250;

fn mk(m: Mode) -> EGraph {
    match m {
        Mode::Plain => EGraph::default(),
        Mode::Term => EGraph::new_with_term_encoding(),
        Mode::Proofs => EGraph::new_with_proofs(),
    }
}
fn mode_name(m: Mode) -> &'static str {
    match m {
        Mode::Plain => "plain",
        Mode::Term => "term-encoding",
        Mode::Proofs => "proofs",
    }
}

#[derive(Clone, Debug, PartialEq)]
struct StepObs {
    ok: bool,
    panicked: bool,
    snap: String,
    err: String,
}

fn run_step(eg: &mut EGraph, text: &str) -> StepObs {
    let (res, panicked) = step(eg, text);
    match res {
        Ok(outs) => StepObs { ok: true, panicked: false, snap: CommandOutput::snapshot_stable_under_proof_encoding(&outs), err: String::new() },
        Err(e) => StepObs { ok: false, panicked, snap: String::new(), err: e.chars().take(240).collect() },
    }
}

// ------------------------------------------------------------------------------------------------
// generated sessions

struct Session {
    p: Program,          // decls (for probes / Coq printing)
    header: Vec<String>, // declaration commands
    cmds: Vec<String>,   // commands (texts)
    kinds: Vec<&'static str>,
    cons_cmds: Option<Vec<Cmd>>, // constructor-only sessions: the structured commands
    rules: Vec<Rule>,            // rule sessions: the source rules (declared at the end of `header`)
}

fn sort_txt(s: &Sort) -> &'static str {
    if *s == Sort::S {
        "S"
    } else {
        "i64"
    }
}

fn header_cmds(p: &Program, r: &mut Rng, costs: bool) -> Vec<String> {
    let mut h = Vec::new();
    if !costs {
        // the datatype form (one command)
        for l in p.header().lines() {
            h.push(l.to_string());
        }
        return h;
    }
    h.push("(sort S)".to_string());
    for d in &p.decls {
        let args: Vec<&str> = d.args.iter().map(sort_txt).collect();
        match &d.kind {
            Kind::Ctor => {
                let c = if r.chance(1, 2) { format!(" :cost {}", r.range(0, 9)) } else { String::new() };
                h.push(format!("(constructor {} ({}) S{})", d.name, args.join(" "), c));
            }
            Kind::Rel => h.push(format!("(relation {} ({}))", d.name, args.join(" "))),
            Kind::Func(m) => {
                let mm = match m {
                    Merge::Min => {
                        if r.chance(1, 3) {
                            ":merge (min old (min new 100))"
                        } else {
                            ":merge (min old new)"
                        }
                    }
                    _ => ":merge (max old new)",
                };
                h.push(format!("(function {} ({}) i64 {})", d.name, args.join(" "), mm));
            }
        }
    }
    h
}

fn gen_session(r: &mut Rng, with_delete: bool) -> Session {
    let bias = match r.below(10) {
        0..=3 => Bias::C01,
        4..=5 => Bias::C03,
        6..=7 => Bias::C05,
        _ => Bias::C13,
    };
    let ncmds = r.range(4, 13);
    let costs = r.chance(2, 3);
    let mut g = Gen::new(r, bias);
    // `:no-merge` functions are outside the supported fragment: make it a lattice function
    if let Some(nm) = g.nomerge {
        g.p.decls[nm].kind = Kind::Func(Merge::Min);
        g.funcs.push(nm);
        g.nomerge = None;
    }
    let m_ix = g.p.decls.len();
    g.p.decls.push(Decl { name: "M".into(), kind: Kind::Ctor, args: vec![Sort::I, Sort::S] });
    let w_ix = g.p.decls.len();
    g.p.decls.push(Decl { name: "W".into(), kind: Kind::Ctor, args: vec![Sort::S, Sort::I] });
    let mut cmds: Vec<String> = Vec::new();
    let mut kinds: Vec<&'static str> = Vec::new();
    let mut globals: Vec<Vec<String>> = vec![vec![]];
    let mut rulesets: Vec<Vec<String>> = vec![vec![]];
    let mut seen_rules: Vec<HashSet<String>> = vec![HashSet::new()];
    let mut gcount = 0usize;
    let mut rcount = 0usize;
    for _ in 0..ncmds {
        let k = g.r.below(100);
        let d = g.r.range(0, 2);
        // a ground term, possibly a global
        let gterm = |g: &mut Gen, globals: &Vec<Vec<String>>, d: usize| -> String {
            let all: Vec<&String> = globals.iter().flatten().collect();
            if !all.is_empty() && g.r.chance(1, 3) {
                let i = g.r.below(all.len());
                return all[i].clone();
            }
            let t = g.term(d);
            g.p.pat_text(&t)
        };
        let (text, kind): (String, &'static str) = if k < 5 {
            // subsume scenario: insert, subsume, let the marking rules look, observe
            let f = *g.r.pick(&g.unary);
            let t = g.term(d.min(1));
            let ft = g.p.pat_text(&Pat::App(f, vec![t]));
            cmds.push(ft.clone());
            kinds.push("insert");
            cmds.push(format!("(subsume {ft})"));
            kinds.push("subsume");
            cmds.push("(run marks 1)".to_string());
            kinds.push("run");
            ("(print-size Mark)".to_string(), "print-size")
        } else if k < 11 {
            // a subsumed e-node whose eq-sort child is then moved to another leader (older or
            // newer, depending on which of the two terms is inserted first); the constructor mixes
            // a primitive and an eq-sort input or is unary; subsumed explicitly or by a rewrite
            let which = g.r.below(3);
            let n = g.r.below(3);
            let c = g.term(d.min(1));
            let o = g.term(d.min(1));
            let (ct, ot) = (g.p.pat_text(&c), g.p.pat_text(&o));
            let row = match which {
                0 => g.p.pat_text(&Pat::App(m_ix, vec![Pat::Int(n as i64), c.clone()])),
                1 => g.p.pat_text(&Pat::App(w_ix, vec![c.clone(), Pat::Int(n as i64)])),
                _ => g.p.pat_text(&Pat::App(*g.r.pick(&g.unary), vec![c.clone()])),
            };
            let first_row = g.r.chance(1, 2);
            for t in if first_row { [row.clone(), ot.clone()] } else { [ot.clone(), row.clone()] } {
                cmds.push(t);
                kinds.push("insert");
            }
            if which == 0 && g.r.chance(1, 3) {
                cmds.push("(run rws 1)".to_string()); // (rewrite (M i x) (W x i) :subsume)
                kinds.push("run");
            } else {
                cmds.push(format!("(subsume {row})"));
                kinds.push("subsume");
            }
            cmds.push(format!("(union {ot} {ct})"));
            kinds.push("union");
            cmds.push("(run marks 1)".to_string());
            kinds.push("run");
            ("(print-size Mark)".to_string(), "subsume-then-move")
        } else if k < 38 {
            // base generator: inserts, unions, sets, rules, runs, subsume/delete
            let c = g.command();
            let kind = match &c {
                Cmd::Act(Action::Expr(_)) => "insert",
                Cmd::Act(Action::Union(..)) => "union",
                Cmd::Act(Action::Set(..)) => "set",
                Cmd::Act(Action::Subsume(..)) => "subsume",
                Cmd::Act(Action::Delete(..)) => "delete",
                Cmd::Act(Action::Panic) => "panic",
                Cmd::Rule(_) => "rule",
                Cmd::Run(_) => "run",
                Cmd::Raw(_) => "raw",
            };
            // Top-level delete / subsume: see the findings recorded in corpus/C11 (a delete request
            // for an absent or non-canonically addressed row stays pending in the encoded engines;
            // subsume of an absent row creates it on the plain engine only). Random sessions keep
            // to the forms on which the property is expected to hold: the row is inserted first;
            // deletes of eq-sort-keyed rows only with --with-delete.
            let (c, kind) = match c {
                Cmd::Act(Action::Delete(f, args)) if !with_delete => (Cmd::Act(Action::Expr(Pat::App(f, args))), "insert"),
                other => (other, kind),
            };
            if let Cmd::Act(Action::Subsume(f, args)) | Cmd::Act(Action::Delete(f, args)) = &c {
                cmds.push(g.p.pat_text(&Pat::App(*f, args.clone())));
                kinds.push("insert");
            }
            let t = g.p.cmd_text(&c);
            if kind == "rule" {
                if seen_rules.iter().any(|s| s.contains(&t)) {
                    ("(run 1)".to_string(), "run")
                } else {
                    seen_rules.last_mut().unwrap().insert(t.clone());
                    (t, kind)
                }
            } else {
                (t, kind)
            }
        } else if k < 46 {
            let a = gterm(&mut g, &globals, d);
            if g.r.chance(1, 2) {
                (format!("(check {a})"), "check")
            } else {
                let b = gterm(&mut g, &globals, d);
                (format!("(check (= {a} {b}))"), "check")
            }
        } else if k < 52 {
            if g.r.chance(1, 2) {
                ("(print-size)".to_string(), "print-size")
            } else {
                let i = g.r.below(g.p.decls.len());
                (format!("(print-size {})", g.p.decls[i].name), "print-size")
            }
        } else if k < 60 {
            let a = gterm(&mut g, &globals, d);
            (format!("(extract {a})"), "extract")
        } else if k < 65 {
            globals.push(vec![]);
            rulesets.push(vec![]);
            seen_rules.push(HashSet::new());
            ("(push)".to_string(), "push")
        } else if k < 70 {
            if globals.len() > 1 {
                globals.pop();
                rulesets.pop();
                seen_rules.pop();
                ("(pop)".to_string(), "pop")
            } else {
                ("(run 1)".to_string(), "run")
            }
        } else if k < 77 {
            let t = g.term(d);
            let name = format!("$g{gcount}");
            gcount += 1;
            let txt = format!("(let {name} {})", g.p.pat_text(&t));
            globals.last_mut().unwrap().push(name);
            (txt, "let")
        } else if k < 86 {
            // rewrites, optionally subsuming, optionally in a ruleset
            let f = g.p.decls[*g.r.pick(&g.unary)].name.clone();
            let f2 = g.p.decls[*g.r.pick(&g.unary)].name.clone();
            let k0 = g.p.decls[*g.r.pick(&g.nullary)].name.clone();
            let mut forms: Vec<(String, String)> = vec![
                (format!("({f} ({f} x))"), format!("({f2} x)")),
                (format!("({f} x)"), "x".to_string()),
                (format!("({f} ({k0}))"), format!("({k0})")),
                (format!("({f} x)"), format!("({f2} ({f} x))")),
            ];
            if let Some(&h) = g.binary.first() {
                let h = g.p.decls[h].name.clone();
                forms.push((format!("({h} x y)"), format!("({h} y x)")));
                forms.push((format!("({h} x ({k0}))"), "x".to_string()));
                forms.push((format!("({h} ({h} x y) z)"), format!("({h} x ({h} y z))")));
            }
            let all: Vec<String> = globals.iter().flatten().cloned().collect();
            if !all.is_empty() {
                let gl = all[g.r.below(all.len())].clone();
                forms.push((format!("({f} {gl})"), gl.clone()));
            }
            let (l, rr) = forms[g.r.below(forms.len())].clone();
            let bi = g.r.chance(1, 5);
            let sub = !bi && g.r.chance(1, 3) && l != "x";
            let rs: Vec<&String> = rulesets.iter().flatten().collect();
            let in_rs = if !rs.is_empty() && g.r.chance(1, 2) { format!(" :ruleset {}", rs[g.r.below(rs.len())]) } else { String::new() };
            let t = format!("({} {l} {rr}{}{in_rs})", if bi { "birewrite" } else { "rewrite" }, if sub { " :subsume" } else { "" });
            if seen_rules.iter().any(|s| s.contains(&t)) || (bi && rr == "x") {
                ("(run 1)".to_string(), "run")
            } else {
                seen_rules.last_mut().unwrap().insert(t.clone());
                (t, if sub { "rewrite-subsume" } else { "rewrite" })
            }
        } else if k < 90 {
            let name = format!("rs{rcount}");
            rcount += 1;
            rulesets.last_mut().unwrap().push(name.clone());
            (format!("(ruleset {name})"), "ruleset")
        } else if k < 96 {
            let rs: Vec<String> = rulesets.iter().flatten().cloned().collect();
            if rs.is_empty() {
                (format!("(run-schedule (repeat {} (run)))", g.r.range(1, 3)), "schedule")
            } else {
                let a = rs[g.r.below(rs.len())].clone();
                match g.r.below(3) {
                    0 => (format!("(run {a} {})", g.r.range(1, 3)), "run"),
                    1 => (format!("(run-schedule (repeat 2 (seq (run {a}) (run))))"), "schedule"),
                    _ => {
                        let x = gterm(&mut g, &globals, 1);
                        let y = gterm(&mut g, &globals, 1);
                        (format!("(run {a} 3 :until (= {x} {y}))"), "run-until")
                    }
                }
            }
        } else if k < 98 {
            // a relation keyed by a primitive: insert, delete (of a present row), check
            let n = g.r.below(3);
            match g.r.below(3) {
                0 => (format!("(Q {n})"), "set"),
                1 => {
                    cmds.push(format!("(Q {n})"));
                    kinds.push("set");
                    (format!("(delete (Q {n}))"), "delete-prim")
                }
                _ => (format!("(check (Q {n}))"), "check"),
            }
        } else {
            let a = gterm(&mut g, &globals, d);
            let b = gterm(&mut g, &globals, d);
            (format!("(fail (check (= {a} {b}) (!= {a} {b})))"), "fail")
        };
        cmds.push(text);
        kinds.push(kind);
    }
    if g.r.chance(1, 2) {
        cmds.push("(run 2)".into());
        kinds.push("run");
    }
    cmds.push("(run marks 1)".into());
    kinds.push("run");
    cmds.push("(print-size)".into());
    kinds.push("print-size");
    let p = g.p.clone();
    let mut header = header_cmds(&p, g.r, costs);
    header.push("(relation Q (i64))".to_string());
    // observer of subsumption: subsumed rows are invisible to rules
    header.push("(relation Mark (S))".to_string());
    header.push("(ruleset marks)".to_string());
    for &u in &g.unary {
        header.push(format!("(rule ((= x ({} y))) ((Mark x)) :ruleset marks)", p.decls[u].name));
    }
    header.push("(rule ((= x (M i y))) ((Mark x)) :ruleset marks)".to_string());
    header.push("(rule ((= x (W y i))) ((Mark x)) :ruleset marks)".to_string());
    header.push("(ruleset rws)".to_string());
    header.push("(rewrite (M i x) (W x i) :subsume :ruleset rws)".to_string());
    Session { p, header, cmds, kinds, cons_cmds: None, rules: vec![] }
}

/// constructor-only sessions: inserts and unions of ground terms (the fragment of the theorems)
fn gen_cons_session(r: &mut Rng) -> Session {
    let mut decls = Vec::new();
    let nn = r.range(2, 4);
    let mut nullary = vec![];
    let mut unary = vec![];
    let mut binary = vec![];
    for i in 0..nn {
        nullary.push(decls.len());
        decls.push(Decl { name: format!("K{i}"), kind: Kind::Ctor, args: vec![] });
    }
    for i in 0..r.range(1, 2) {
        unary.push(decls.len());
        decls.push(Decl { name: format!("F{i}"), kind: Kind::Ctor, args: vec![Sort::S] });
    }
    if r.chance(2, 3) {
        binary.push(decls.len());
        decls.push(Decl { name: "H".into(), kind: Kind::Ctor, args: vec![Sort::S, Sort::S] });
    }
    let mut num = None;
    if r.chance(1, 3) {
        num = Some(decls.len());
        decls.push(Decl { name: "N".into(), kind: Kind::Ctor, args: vec![Sort::I] });
    }
    // constructors whose inputs mix a primitive and an eq-sort column, in both orders
    let mut mixed: Vec<(usize, bool)> = Vec::new();
    if r.chance(1, 2) {
        mixed.push((decls.len(), true));
        decls.push(Decl { name: "M".into(), kind: Kind::Ctor, args: vec![Sort::I, Sort::S] });
    }
    if r.chance(1, 3) {
        mixed.push((decls.len(), false));
        decls.push(Decl { name: "W".into(), kind: Kind::Ctor, args: vec![Sort::S, Sort::I] });
    }
    let mut g = Gen { r, bias: Bias::C01, p: Program { decls, cmds: vec![], expect: vec![] }, nullary, unary, binary, num, funcs: vec![], rels: vec![], nomerge: None, pending: vec![], batch_mode: false };
    let n = g.r.range(3, 12);
    let mut cs = Vec::new();
    for _ in 0..n {
        let k = g.r.below(100);
        let d = g.r.range(0, 3);
        let c = if k < 30 {
            Cmd::Act(Action::Expr(g.term(d)))
        } else if k < 42 {
            // congruence tower
            let f = *g.r.pick(&g.unary);
            let mut t = Pat::App(*g.r.pick(&g.nullary), vec![]);
            for _ in 0..g.r.range(1, 4) {
                t = Pat::App(f, vec![t]);
            }
            Cmd::Act(Action::Expr(t))
        } else {
            Cmd::Act(Action::Union(g.term(d), g.term(d)))
        };
        // sometimes under a mixed constructor
        let wrap = |g: &mut Gen, t: Pat| -> Pat {
            if mixed.is_empty() || !g.r.chance(1, 3) {
                return t;
            }
            let (m, int_first) = mixed[g.r.below(mixed.len())];
            let z = Pat::Int(g.r.below(3) as i64);
            Pat::App(m, if int_first { vec![z, t] } else { vec![t, z] })
        };
        let c = match c {
            Cmd::Act(Action::Expr(t)) => Cmd::Act(Action::Expr(wrap(&mut g, t))),
            Cmd::Act(Action::Union(a, b)) => {
                let a = wrap(&mut g, a);
                Cmd::Act(Action::Union(a, wrap(&mut g, b)))
            }
            other => other,
        };
        cs.push(c);
    }
    let p = g.p.clone();
    let header: Vec<String> = p.header().lines().map(|s| s.to_string()).collect();
    let cmds: Vec<String> = cs.iter().map(|c| p.cmd_text(c)).collect();
    let kinds = cs.iter().map(|c| if matches!(c, Cmd::Act(Action::Union(..))) { "union" } else { "insert" }).collect();
    Session { p, header, cmds, kinds, cons_cmds: Some(cs), rules: vec![] }
}

/// rule sessions: constructor-only signature, user rules (constructor patterns in the body,
/// insertions and unions in the head), ground inserts / unions and `(run n)`: cases for the encoded
/// user-rule model (coq/Encoding/URules.v)
fn gen_rule_session(r: &mut Rng) -> Session {
    let mut decls = Vec::new();
    let mut nullary = vec![];
    for i in 0..r.range(2, 3) {
        nullary.push(decls.len());
        decls.push(Decl { name: format!("K{i}"), kind: Kind::Ctor, args: vec![] });
    }
    let unary = vec![decls.len()];
    decls.push(Decl { name: "F".into(), kind: Kind::Ctor, args: vec![Sort::S] });
    let binary = vec![decls.len()];
    decls.push(Decl { name: "H".into(), kind: Kind::Ctor, args: vec![Sort::S, Sort::S] });
    let mut num = None;
    if r.chance(1, 3) {
        num = Some(decls.len());
        decls.push(Decl { name: "N".into(), kind: Kind::Ctor, args: vec![Sort::I] });
    }
    let mut mixed = None;
    if r.chance(1, 3) {
        mixed = Some(decls.len());
        decls.push(Decl { name: "M".into(), kind: Kind::Ctor, args: vec![Sort::I, Sort::S] });
    }
    let decls_c = decls.clone();
    // ---- rules ----
    // S variables v0..v3, i64 variables v10, v11
    fn rpat(r: &mut Rng, decls: &[Decl], depth: usize, svars: &mut Vec<usize>, ivars: &mut Vec<usize>) -> Pat {
        let f = r.below(decls.len());
        let args = decls[f]
            .args
            .iter()
            .map(|a| {
                if *a == Sort::I {
                    let v = 10 + r.below(2);
                    if !ivars.contains(&v) {
                        ivars.push(v);
                    }
                    Pat::Var(v)
                } else if depth > 0 && r.chance(1, 3) {
                    rpat(r, decls, depth - 1, svars, ivars)
                } else {
                    let v = r.below(4);
                    if !svars.contains(&v) {
                        svars.push(v);
                    }
                    Pat::Var(v)
                }
            })
            .collect();
        Pat::App(f, args)
    }
    fn hpat(r: &mut Rng, decls: &[Decl], depth: usize, svars: &[usize], ivars: &[usize]) -> Option<Pat> {
        if depth == 0 || r.chance(1, 2) {
            if !svars.is_empty() {
                return Some(Pat::Var(*r.pick(svars)));
            }
        }
        for _ in 0..6 {
            let f = r.below(decls.len());
            if decls[f].args.iter().any(|a| *a == Sort::I) && ivars.is_empty() {
                continue;
            }
            let mut args = Vec::new();
            for a in &decls[f].args {
                if *a == Sort::I {
                    args.push(Pat::Var(*r.pick(ivars)));
                } else {
                    args.push(hpat(r, decls, depth.saturating_sub(1), svars, ivars)?);
                }
            }
            return Some(Pat::App(f, args));
        }
        None
    }
    let mut rules: Vec<Rule> = Vec::new();
    for _ in 0..r.range(1, 3) {
        let mut svars = Vec::new();
        let mut ivars = Vec::new();
        let mut body = Vec::new();
        for _ in 0..r.range(1, 2) {
            let p = rpat(r, &decls_c, 1, &mut svars, &mut ivars);
            if r.chance(3, 4) {
                let x = if r.chance(1, 4) && !svars.is_empty() { *r.pick(&svars) } else { 4 + r.below(2) };
                if !svars.contains(&x) {
                    svars.push(x);
                }
                body.push(Fact::Eq(x, p));
            } else {
                body.push(Fact::Pat(p));
            }
        }
        let mut head = Vec::new();
        for _ in 0..r.range(1, 2) {
            if r.chance(3, 4) {
                if let (Some(a), Some(b)) = (hpat(r, &decls_c, 2, &svars, &ivars), hpat(r, &decls_c, 2, &svars, &ivars)) {
                    head.push(Action::Union(a, b));
                }
            } else if let Some(a) = hpat(r, &decls_c, 2, &svars, &ivars) {
                if matches!(a, Pat::App(..)) {
                    head.push(Action::Expr(a));
                }
            }
        }
        if !head.is_empty() {
            rules.push(Rule { body, head });
        }
    }
    if rules.is_empty() {
        let h = binary[0];
        rules.push(Rule { body: vec![Fact::Eq(4, Pat::App(h, vec![Pat::Var(0), Pat::Var(1)]))], head: vec![Action::Union(Pat::Var(4), Pat::App(h, vec![Pat::Var(1), Pat::Var(0)]))] });
    }
    let mut g = Gen { r, bias: Bias::C01, p: Program { decls, cmds: vec![], expect: vec![] }, nullary, unary, binary, num, funcs: vec![], rels: vec![], nomerge: None, pending: vec![], batch_mode: false };
    let mut cs = Vec::new();
    let n = g.r.range(3, 8);
    let mut ran = false;
    for i in 0..n {
        let k = g.r.below(100);
        let d = g.r.range(0, 2);
        let wrap = |g: &mut Gen, t: Pat| -> Pat {
            match mixed {
                Some(m) if g.r.chance(1, 4) => Pat::App(m, vec![Pat::Int(g.r.below(2) as i64), t]),
                _ => t,
            }
        };
        let c = if (k < 25 && i >= 2) || (i + 1 == n && !ran) {
            ran = true;
            Cmd::Run(g.r.range(1, 2))
        } else if k < 65 {
            let t = g.term(d);
            Cmd::Act(Action::Expr(wrap(&mut g, t)))
        } else {
            let a = g.term(d);
            let b = g.term(d);
            Cmd::Act(Action::Union(wrap(&mut g, a), b))
        };
        cs.push(c);
    }
    let p = g.p.clone();
    let mut header: Vec<String> = p.header().lines().map(|s| s.to_string()).collect();
    for rl in &rules {
        header.push(p.cmd_text(&Cmd::Rule(rl.clone())));
    }
    let cmds: Vec<String> = cs.iter().map(|c| p.cmd_text(c)).collect();
    let kinds = cs
        .iter()
        .map(|c| match c {
            Cmd::Act(Action::Union(..)) => "union",
            Cmd::Run(_) => "run",
            _ => "insert",
        })
        .collect();
    Session { p, header, cmds, kinds, cons_cmds: Some(cs), rules }
}

// ------------------------------------------------------------------------------------------------
// the predicate

struct Viol {
    what: String,
    key: String,
    input: serde_json::Value,
}

fn short(s: &str) -> String {
    s.replace('\n', " ").chars().take(200).collect()
}

/// the fixed list of ground facts checked at the end of a session
fn probe_facts(p: &Program, nprobe: usize) -> (Vec<Pat>, Vec<String>) {
    let probes = enumerate_probes(p, 2, nprobe, &[0, 1, 2]);
    let mut facts = Vec::new();
    for t in &probes {
        facts.push(format!("(check {})", p.pat_text(t)));
    }
    for (i, a) in probes.iter().enumerate() {
        for b in probes.iter().skip(i + 1) {
            facts.push(format!("(check (= {} {}))", p.pat_text(a), p.pat_text(b)));
        }
    }
    for (f, d) in p.decls.iter().enumerate() {
        match d.kind {
            Kind::Rel => {
                for t in probes.iter().filter(|t| pat_size(t) <= 2).take(4) {
                    facts.push(format!("(check {})", p.pat_text(&Pat::App(f, vec![t.clone()]))));
                }
            }
            Kind::Func(_) => {
                for t in probes.iter().filter(|t| pat_size(t) <= 2).take(3) {
                    let a = p.pat_text(&Pat::App(f, vec![t.clone()]));
                    facts.push(format!("(check (<= {a} 1))"));
                    facts.push(format!("(check (>= {a} 2))"));
                }
            }
            Kind::Ctor => {}
        }
    }
    (probes, facts)
}

struct SessionResult {
    viol: Option<Viol>,
    /// outcome of the probe facts on the term-encoding engine (for the Coq cases)
    term_facts: Vec<bool>,
    nontrivial: bool,
    all_ok_cmds: usize,
    failed_cmds: usize,
    times: [f64; 4],
}

fn run_session(s: &Session, facts: &[String], do_reprint: bool, err_hist: &mut BTreeMap<String, usize>) -> SessionResult {
    let input = serde_json::json!({"header": s.header, "cmds": s.cmds});
    let mut times = [0.0f64; 4];
    let mut engines: Vec<EGraph> = MODES.iter().map(|m| mk(*m)).collect();
    let mut viol: Option<Viol> = None;
    let mut ok_cmds: Vec<(String, String)> = Vec::new(); // (text, plain snapshot) of commands that succeeded
    let mut failed = 0usize;
    let mut sizes_changed = false;
    let mut last_size = String::new();
    let mut did_union = false;
    let all: Vec<(String, &str)> = s
        .header
        .iter()
        .map(|h| (h.clone(), "decl"))
        .chain(s.cmds.iter().cloned().zip(s.kinds.iter().cloned()))
        .collect();
    let mut stopped = false;
    'cmds: for (k, (text, kind)) in all.iter().enumerate() {
        let mut obs: Vec<StepObs> = Vec::new();
        let mut too_big = false;
        for (mi, eg) in engines.iter_mut().enumerate() {
            let t0 = Instant::now();
            progress(&format!("command {k} `{}` on the {} engine", short(text), mode_name(MODES[mi])), &input);
            obs.push(run_step(eg, text));
            times[mi] += t0.elapsed().as_secs_f64();
            // explosive rule sets (e.g. associativity + commutativity) make the proofs engine take
            // minutes per iteration; the property says nothing about time, so such a session ends
            // here (deterministically, on the size of the PLAIN database) instead of being timed
            if mi == 0 && eg.num_tuples() > MAX_TUPLES {
                too_big = true;
                break;
            }
        }
        if too_big {
            stopped = true;
            break;
        }
        // a command the encoder itself declares unsupported puts the session outside the property's
        // fragment ("for every program the encoder declares supported"): stop here, no verdict
        if obs[0].ok && (1..3).any(|mi| !obs[mi].ok && !obs[mi].panicked && obs[mi].err.contains("not supported by the current proof term encoding")) {
            *err_hist.entry("declared-unsupported-by-encoder".into()).or_insert(0) += 1;
            stopped = true;
            break;
        }
        for mi in 1..3 {
            let (a, b) = (&obs[0], &obs[mi]);
            if a.panicked != b.panicked || a.ok != b.ok {
                viol = Some(Viol {
                    what: format!(
                        "command {k} `{}`: plain engine {} but {} engine {} ({})",
                        short(text),
                        if a.ok { "succeeds".to_string() } else { format!("fails [{}]", short(&a.err)) },
                        mode_name(MODES[mi]),
                        if b.ok { "succeeds".to_string() } else { format!("fails [{}]", short(&b.err)) },
                        kind
                    ),
                    key: format!("C11-okerr-{}-{}", mode_name(MODES[mi]), kind),
                    input: input.clone(),
                });
                break 'cmds;
            }
            if a.ok && a.snap != b.snap {
                viol = Some(Viol {
                    what: format!(
                        "command {k} `{}`: output differs: plain [{}] vs {} [{}]",
                        short(text),
                        short(&a.snap),
                        mode_name(MODES[mi]),
                        short(&b.snap)
                    ),
                    key: format!("C11-output-{}-{}", mode_name(MODES[mi]), kind),
                    input: input.clone(),
                });
                break 'cmds;
            }
        }
        if obs[0].ok {
            ok_cmds.push((text.clone(), obs[0].snap.clone()));
            if *kind == "union" {
                did_union = true;
            }
            if *kind == "print-size" && text == "(print-size)" {
                if !last_size.is_empty() && last_size != obs[0].snap {
                    sizes_changed = true;
                }
                last_size = obs[0].snap.clone();
            }
        } else {
            failed += 1;
            let cls = if obs[0].panicked { "PANIC".to_string() } else { classify_error(&obs[0].err) };
            if cls != "check" {
                *err_hist.entry(format!("sample:{cls}: {} => {}", short(text), short(&obs[0].err))).or_insert(0) += 1;
            }
            *err_hist.entry(cls).or_insert(0) += 1;
            // a failed check changes nothing; any other run-time failure may leave a partially
            // applied command behind, whose intermediate state the property does not constrain
            if !(*kind == "check" || *kind == "decl") || obs[0].panicked {
                stopped = true;
                break;
            }
            if *kind == "decl" {
                stopped = true;
                break;
            }
        }
    }
    // ---- the fixed list of ground facts ----
    let mut fact_res: Vec<Vec<bool>> = vec![vec![]; 3];
    if viol.is_none() && !stopped {
        for f in facts {
            for (mi, eg) in engines.iter_mut().enumerate() {
                let t0 = Instant::now();
                progress(&format!("`{f}` on the {} engine", mode_name(MODES[mi])), &input);
                let o = run_step(eg, f);
                times[mi] += t0.elapsed().as_secs_f64();
                fact_res[mi].push(o.ok);
                if o.panicked && viol.is_none() {
                    viol = Some(Viol { what: format!("`{f}` panics on the {} engine: {}", mode_name(MODES[mi]), short(&o.err)), key: "C11-check-panic".into(), input: input.clone() });
                }
            }
            let n = fact_res[0].len() - 1;
            for mi in 1..3 {
                if viol.is_none() && fact_res[0][n] != fact_res[mi][n] {
                    viol = Some(Viol {
                        what: format!(
                            "at the end of the session `{f}` {} on the plain engine but {} on the {} engine",
                            if fact_res[0][n] { "holds" } else { "fails" },
                            if fact_res[mi][n] { "holds" } else { "fails" },
                            mode_name(MODES[mi])
                        ),
                        key: format!("C11-check-{}", mode_name(MODES[mi])),
                        input: input.clone(),
                    });
                }
            }
            if viol.is_some() {
                break;
            }
        }
    }
    // ---- reprint variant: resolve_program of the encoded program, printed, run on a plain engine ----
    if viol.is_none() && do_reprint && !stopped {
        let mut prog = String::new();
        let mut want = String::new();
        for (t, snap) in &ok_cmds {
            prog.push_str(t);
            prog.push('\n');
            want.push_str(snap);
        }
        for (i, f) in facts.iter().enumerate() {
            if fact_res[0].get(i).copied().unwrap_or(false) {
                prog.push_str(f);
            } else {
                prog.push_str(&format!("(fail {f})"));
            }
            prog.push('\n');
        }
        for m in [Mode::Term, Mode::Proofs] {
            let t0 = Instant::now();
            progress(&format!("the reprint variant ({})", mode_name(m)), &input);
            let mut enc = mk(m);
            let res = std::panic::catch_unwind(std::panic::AssertUnwindSafe(|| enc.resolve_program(None, &prog)));
            let text = match res {
                Ok(Ok(cmds)) => cmds.iter().map(|c| c.to_string()).collect::<Vec<_>>().join("\n"),
                Ok(Err(e)) => {
                    viol = Some(Viol { what: format!("resolve_program ({}) rejects a program all of whose commands succeed: {}", mode_name(m), short(&format!("{e}"))), key: format!("C11-reprint-resolve-{}", mode_name(m)), input: input.clone() });
                    break;
                }
                Err(_) => {
                    viol = Some(Viol { what: format!("resolve_program ({}) panics", mode_name(m)), key: format!("C11-reprint-panic-{}", mode_name(m)), input: input.clone() });
                    break;
                }
            };
            let mut plain = EGraph::default();
            plain.ensure_no_reserved_symbols(false);
            let o = run_step(&mut plain, &text);
            times[3] += t0.elapsed().as_secs_f64();
            if !o.ok {
                viol = Some(Viol {
                    what: format!("the {} encoding of the program, printed and fed to a plain engine, fails: {}", mode_name(m), short(&o.err)),
                    key: format!("C11-reprint-fails-{}", mode_name(m)),
                    input: input.clone(),
                });
                break;
            }
            if o.snap != want {
                viol = Some(Viol {
                    what: format!("the {} encoding of the program, printed and fed to a plain engine, prints [{}] but the plain run printed [{}]", mode_name(m), short(&o.snap), short(&want)),
                    key: format!("C11-reprint-output-{}", mode_name(m)),
                    input: input.clone(),
                });
                break;
            }
        }
    }
    SessionResult {
        viol,
        term_facts: if fact_res[1].len() == facts.len() { fact_res[1].clone() } else { vec![] },
        nontrivial: {
            let _ = (did_union, sizes_changed);
            fact_res[0].iter().zip(facts.iter()).any(|(ok, f)| *ok && f.starts_with("(check (= "))
        },
        all_ok_cmds: ok_cmds.len(),
        failed_cmds: failed,
        times,
    }
}

// ------------------------------------------------------------------------------------------------
// upstream test files

const QUICK_FILES: [&str; 14] = [
    "delete.egg",
    "bool.egg",
    "i64.egg",
    "interval.egg",
    "fibonacci-demand.egg",
    "integer_math.egg",
    "intersection.egg",
    "before-proofs.egg",
    "calc.egg",
    "path.egg",
    "path-union.egg",
    "merge-saturates.egg",
    "push-pop.egg",
    "test-combined.egg",
];
const SKIP_FILES: [&str; 20] = [
    // upstream: unsupported / too slow in proof modes, or non-deterministic output
    "math-microbenchmark.egg",
    "rectangle.egg",
    "eggcc-2mm.egg",
    "subsume.egg",
    "subsume-relation.egg",
    "gemma.egg",
    "gemma4_moe.egg",
    "llama.egg",
    "paged_llama.egg",
    "qwen.egg",
    "qwen3_moe.egg",
    "whisper.egg",
    "extract-vec-bench.egg",
    "python_array_optimize.egg",
    "stresstest_large_expr.egg",
    "towers-of-hanoi.egg",
    "taylor51.egg",
    "factoring-multisets.egg",
    "eqsolve.egg",
    "hardboiled_conv1d_128.egg",
];

fn run_file(path: &std::path::Path, budget_s: f64) -> (Option<Viol>, bool, f64) {
    let name = path.file_name().unwrap().to_string_lossy().to_string();
    let src = match std::fs::read_to_string(path) {
        Ok(s) => s,
        Err(_) => return (None, false, 0.0),
    };
    let program = format!("{src}\n(print-size)");
    let fname = path.to_str().map(String::from);
    let t0 = Instant::now();
    let mut snaps: Vec<Result<String, String>> = Vec::new();
    for m in MODES {
        progress(&format!("tests/{name} on the {} engine", mode_name(m)), &serde_json::json!({"file": name}));
        let mut eg = mk(m);
        eg.ensure_no_reserved_symbols(false);
        let fname = fname.clone();
        let res = std::panic::catch_unwind(std::panic::AssertUnwindSafe(|| eg.parse_and_run_program(fname, &program)));
        snaps.push(match res {
            Ok(Ok(outs)) => Ok(CommandOutput::snapshot_stable_under_proof_encoding(&outs)),
            Ok(Err(e)) => Err(format!("{e}").chars().take(200).collect()),
            Err(_) => Err("PANIC".into()),
        });
        if m == Mode::Plain && t0.elapsed().as_secs_f64() > budget_s {
            return (None, false, t0.elapsed().as_secs_f64());
        }
    }
    let input = serde_json::json!({"file": name});
    for mi in 1..3 {
        if snaps[0].is_ok() != snaps[mi].is_ok() {
            return (
                Some(Viol {
                    what: format!("tests/{name}: plain {:?} but {} {:?}", snaps[0].as_ref().map(|_| "ok"), mode_name(MODES[mi]), snaps[mi].as_ref().map(|_| "ok")),
                    key: format!("C11-file-okerr-{name}"),
                    input,
                }),
                true,
                t0.elapsed().as_secs_f64(),
            );
        }
        if let (Ok(a), Ok(b)) = (&snaps[0], &snaps[mi]) {
            if a != b {
                return (
                    Some(Viol { what: format!("tests/{name}: output differs between plain [{}] and {} [{}]", short(a), mode_name(MODES[mi]), short(b)), key: format!("C11-file-output-{name}"), input }),
                    true,
                    t0.elapsed().as_secs_f64(),
                );
            }
        }
    }
    (None, true, t0.elapsed().as_secs_f64())
}

// ------------------------------------------------------------------------------------------------


// ------------------------------------------------------------------------------------------------
// the maintenance rules the real encoder emits, as Gallina `rule` values (checked against the
// templates by coq/Encoding/EncOk.v `enc_rules_ok`)

#[derive(Clone, Debug)]
enum Sx {
    A(String),
    L(Vec<Sx>),
}

fn parse_sx(src: &str) -> Vec<Sx> {
    let cs: Vec<char> = src.chars().collect();
    let mut i = 0usize;
    let mut stack: Vec<Vec<Sx>> = vec![vec![]];
    while i < cs.len() {
        let c = cs[i];
        if c.is_whitespace() {
            i += 1;
        } else if c == '(' {
            stack.push(vec![]);
            i += 1;
        } else if c == ')' {
            let l = stack.pop().unwrap_or_default();
            if let Some(top) = stack.last_mut() {
                top.push(Sx::L(l));
            } else {
                stack.push(vec![Sx::L(l)]);
            }
            i += 1;
        } else if c == '"' {
            let mut t = String::from("\"");
            i += 1;
            while i < cs.len() && cs[i] != '"' {
                if cs[i] == '\\' && i + 1 < cs.len() {
                    t.push(cs[i]);
                    i += 1;
                }
                t.push(cs[i]);
                i += 1;
            }
            t.push('"');
            i += 1;
            stack.last_mut().unwrap().push(Sx::A(t));
        } else {
            let mut t = String::new();
            while i < cs.len() && !cs[i].is_whitespace() && cs[i] != '(' && cs[i] != ')' {
                t.push(cs[i]);
                i += 1;
            }
            stack.last_mut().unwrap().push(Sx::A(t));
        }
    }
    stack.pop().unwrap_or_default()
}

struct RuleConv<'a> {
    tabs: &'a std::collections::HashMap<String, usize>,
    vars: std::collections::HashMap<String, usize>,
    fresh: usize,
}

impl<'a> RuleConv<'a> {
    fn var(&mut self, name: &str) -> usize {
        let n = self.vars.len();
        *self.vars.entry(name.to_string()).or_insert(n)
    }
    fn dummy(&mut self) -> usize {
        self.fresh += 1;
        self.var(&format!("%dummy{}", self.fresh))
    }
    fn expr(&mut self, e: &Sx) -> Option<String> {
        match e {
            Sx::A(v) => Some(format!("EVar {}", self.var(v))),
            Sx::L(l) if l.is_empty() => Some("EUnit".to_string()),
            Sx::L(l) => match &l[0] {
                Sx::A(h) if (h == "ordering-max" || h == "ordering-min") && l.len() == 3 => {
                    let a = self.expr(&l[1])?;
                    let b = self.expr(&l[2])?;
                    Some(format!("{} ({a}) ({b})", if h == "ordering-max" { "EMax" } else { "EMin" }))
                }
                _ => None,
            },
        }
    }
    /// (Tab a b ..) with variables only
    fn call(&mut self, l: &[Sx]) -> Option<(usize, Vec<usize>)> {
        let Sx::A(h) = &l[0] else { return None };
        let t = *self.tabs.get(h)?;
        let mut vs = Vec::new();
        for a in &l[1..] {
            let Sx::A(v) = a else { return None };
            vs.push(self.var(v));
        }
        Some((t, vs))
    }
    fn call_exprs(&mut self, l: &[Sx]) -> Option<(usize, Vec<String>)> {
        let Sx::A(h) = &l[0] else { return None };
        let t = *self.tabs.get(h)?;
        let mut es = Vec::new();
        for a in &l[1..] {
            es.push(format!("({})", self.expr(a)?));
        }
        Some((t, es))
    }
}

/// Some(Gallina list of the six maintenance rulesets) for the declarations in `header`
fn encoded_rules_coq(p: &Program, header: &[String]) -> Option<(String, String)> {
    let mut eg = mk(Mode::Term);
    let cmds = eg.resolve_program(None, &header.join("\n")).ok()?;
    let parsed: Vec<Sx> = cmds.iter().flat_map(|c| parse_sx(&c.to_string())).collect();
    let mut tabs: std::collections::HashMap<String, usize> = std::collections::HashMap::new();
    let mut subs: HashSet<String> = HashSet::new();
    let ctor_ix = |name: &str| p.decls.iter().position(|d| d.name == name);
    let atom = |x: &Sx| -> Option<String> {
        match x {
            Sx::A(a) => Some(a.clone()),
            _ => None,
        }
    };
    for c in &parsed {
        let Sx::L(l) = c else { continue };
        let Some(h) = l.first().and_then(atom) else { continue };
        if h == "sort" {
            if let Some(k) = l.iter().position(|x| atom(x).as_deref() == Some(":internal-uf")) {
                tabs.insert(atom(&l[k + 1])?, 0);
                tabs.insert(atom(&l[k + 2])?, 1);
            }
        } else if h == "function" {
            if let Some(k) = l.iter().position(|x| atom(x).as_deref() == Some(":internal-term-constructor")) {
                let f = ctor_ix(&atom(&l[k + 1])?)?;
                tabs.insert(atom(&l[1])?, 2 + 2 * f);
            }
        } else if h == "constructor" {
            let name = atom(&l[1])?;
            if let Some(k) = name.find("to_delete_") {
                if let Some(f) = ctor_ix(&name[k + "to_delete_".len()..]) {
                    tabs.insert(name.clone(), 3 + 2 * f);
                }
            } else if let Some(k) = name.find("to_subsume_") {
                if let Some(f) = ctor_ix(&name[k + "to_subsume_".len()..]) {
                    tabs.insert(name.clone(), 1000 + f);
                }
                subs.insert(name.clone());
            }
        }
    }
    let mut rulesets: Vec<Vec<String>> = vec![vec![]; 6];
    let mut sub_rules: Vec<String> = Vec::new();
    for c in &parsed {
        let Sx::L(l) = c else { continue };
        if l.first().and_then(atom).as_deref() != Some("rule") {
            continue;
        }
        let text = format!("{c:?}");
        let over_sub = subs.iter().any(|s| text.contains(s.as_str()));
        if over_sub && text.contains("A(\"subsume\")") {
            continue; // __delete_rule_subsume: its (subsume ..) action is not modelled
        }
        let rs_name = l.iter().position(|x| atom(x).as_deref() == Some(":ruleset")).and_then(|k| atom(&l[k + 1])).unwrap_or_default();
        let rs = if rs_name.contains("single_parent") {
            1
        } else if rs_name.contains("uf_function_index") {
            2
        } else if rs_name.contains("rebuilding_cleanup") {
            4
        } else if rs_name.contains("rebuilding") {
            3
        } else if rs_name.contains("delete_subsume") {
            5
        } else if rs_name.ends_with("parent") {
            0
        } else {
            continue;
        };
        let (Sx::L(body), Sx::L(acts)) = (&l[1], &l[2]) else { return None };
        let mut cv = RuleConv { tabs: &tabs, vars: Default::default(), fresh: 0 };
        let mut atoms: Vec<String> = Vec::new();
        let mut guards: Vec<String> = Vec::new();
        for f in body {
            let Sx::L(fl) = f else { return None };
            let h = atom(&fl[0])?;
            if h == "!=" {
                guards.push(format!("GNeq ({}) ({})", cv.expr(&fl[1])?, cv.expr(&fl[2])?));
            } else if h == "guard" {
                let Sx::L(or) = &fl[1] else { return None };
                if atom(&or[0]).as_deref() != Some("or") {
                    return None;
                }
                let mut ps = Vec::new();
                for d in &or[1..] {
                    let Sx::L(dl) = d else { return None };
                    if atom(&dl[0]).as_deref() != Some("bool-!=") {
                        return None;
                    }
                    ps.push(format!("({}, {})", cv.expr(&dl[1])?, cv.expr(&dl[2])?));
                }
                guards.push(format!("GAnyNeq [{}]", ps.join("; ")));
            } else if h == "=" {
                // (= x (Tab args..)) is an atom with its output bound to x; anything else a guard
                let as_call = |x: &Sx| -> bool { matches!(x, Sx::L(cl) if !cl.is_empty() && matches!(&cl[0], Sx::A(t) if tabs.contains_key(t))) };
                if let (Sx::A(x), true) = (&fl[1], as_call(&fl[2])) {
                    let Sx::L(cl) = &fl[2] else { return None };
                    let (t, mut vs) = cv.call(cl)?;
                    vs.push(cv.var(x));
                    atoms.push(format!("mkAtom {t} {}", coq_nat_list(&vs)));
                } else {
                    guards.push(format!("GEq ({}) ({})", cv.expr(&fl[1])?, cv.expr(&fl[2])?));
                }
            } else {
                // (Tab a b): a row of a ()-valued table, its output is not bound
                let (t, mut vs) = cv.call(fl)?;
                vs.push(cv.dummy());
                atoms.push(format!("mkAtom {t} {}", coq_nat_list(&vs)));
            }
        }
        let mut actions: Vec<String> = Vec::new();
        for a in acts {
            let Sx::L(al) = a else { return None };
            let h = atom(&al[0])?;
            if h == "set" {
                let Sx::L(cl) = &al[1] else { return None };
                let (t, es) = cv.call_exprs(cl)?;
                actions.push(format!("ASet {t} [{}] ({})", es.join("; "), cv.expr(&al[2])?));
            } else if h == "delete" {
                let Sx::L(cl) = &al[1] else { return None };
                let (t, es) = cv.call_exprs(cl)?;
                actions.push(format!("ADel {t} [{}]", es.join("; ")));
            } else if tabs.contains_key(&h) {
                // (Tab args..): a row of a constructor table is written
                let (t, es) = cv.call_exprs(al)?;
                actions.push(format!("ASet {t} [{}] (EUnit)", es.join("; ")));
            } else {
                return None;
            }
        }
        let r = format!("mkRule [{}] [{}] [{}]", atoms.join("; "), guards.join("; "), actions.join("; "));
        if over_sub {
            sub_rules.push(r);
        } else {
            rulesets[rs].push(r);
        }
    }
    Some((
        format!("[{}]", rulesets.iter().map(|r| format!("[{}]", r.join("; "))).collect::<Vec<_>>().join("; ")),
        format!("[{}]", sub_rules.join("; ")),
    ))
}

/// The user rules the real encoder emits for the rules declared in `header` (term mode), as Gallina
/// `urule` values (coq/Encoding/URules.v), in declaration order. None = an emitted rule does not
/// have the instrumented shape (view atoms, variable equalities, add_term_and_view triples, union
/// requests) any more.
fn encoded_user_rules_coq(p: &Program, header: &[String]) -> Option<Vec<String>> {
    let mut eg = mk(Mode::Term);
    let cmds = eg.resolve_program(None, &header.join("\n")).ok()?;
    let parsed: Vec<Sx> = cmds.iter().flat_map(|c| parse_sx(&c.to_string())).collect();
    let atom = |x: &Sx| -> Option<String> {
        match x {
            Sx::A(a) => Some(a.clone()),
            _ => None,
        }
    };
    let ctor_ix = |name: &str| p.decls.iter().position(|d| d.name == name);
    let mut views: std::collections::HashMap<String, usize> = std::collections::HashMap::new(); // view table -> ctor
    let mut uf: Option<String> = None;
    for c in &parsed {
        let Sx::L(l) = c else { continue };
        let Some(h) = l.first().and_then(atom) else { continue };
        if h == "sort" {
            if let Some(k) = l.iter().position(|x| atom(x).as_deref() == Some(":internal-uf")) {
                uf = Some(atom(&l[k + 1])?);
            }
        } else if h == "function" {
            if let Some(k) = l.iter().position(|x| atom(x).as_deref() == Some(":internal-term-constructor")) {
                views.insert(atom(&l[1])?, ctor_ix(&atom(&l[k + 1])?)?);
            }
        }
    }
    let uf = uf?;
    let mut out = Vec::new();
    for c in &parsed {
        let Sx::L(l) = c else { continue };
        if l.first().and_then(atom).as_deref() != Some("rule") {
            continue;
        }
        if l.iter().any(|x| atom(x).as_deref() == Some(":ruleset")) {
            continue; // maintenance rules live in their own rulesets; user rules in the default one
        }
        let (Sx::L(body), Sx::L(acts)) = (&l[1], &l[2]) else { return None };
        let mut vars: std::collections::HashMap<String, usize> = std::collections::HashMap::new();
        let mut var = |name: &str| -> Option<usize> {
            // literals are outside the modelled fragment
            if name.parse::<i64>().is_ok() || name.starts_with('"') {
                return None;
            }
            let n = vars.len();
            Some(*vars.entry(name.to_string()).or_insert(n))
        };
        let mut atoms = Vec::new();
        let mut eqs = Vec::new();
        for f in body {
            let Sx::L(fl) = f else { return None };
            if atom(&fl[0]).as_deref() != Some("=") || fl.len() != 3 {
                return None;
            }
            match (&fl[1], &fl[2]) {
                (Sx::A(x), Sx::A(y)) => {
                    let a = var(x)?;
                    let b = var(y)?;
                    eqs.push(format!("({a}, {b})"));
                }
                (Sx::A(d), Sx::L(call)) => {
                    let f = *views.get(&atom(&call[0])?)?;
                    let mut vs = Vec::new();
                    for a in &call[1..] {
                        vs.push(var(&atom(a)?)?);
                    }
                    vs.push(var(d)?);
                    atoms.push(format!("mkAtom {} {}", 2 + 2 * f, coq_nat_list(&vs)));
                }
                _ => return None,
            }
        }
        // (set (UF (ordering-max a b) (ordering-min a b)) ()) -> (a, b)
        let uf_set = |x: &Sx| -> Option<(String, String)> {
            let Sx::L(al) = x else { return None };
            if al.len() != 3 || atom(&al[0]).as_deref() != Some("set") || !matches!(&al[2], Sx::L(u) if u.is_empty()) {
                return None;
            }
            let Sx::L(cl) = &al[1] else { return None };
            if cl.len() != 3 || atom(&cl[0]).as_deref() != Some(uf.as_str()) {
                return None;
            }
            let (Sx::L(mx), Sx::L(mn)) = (&cl[1], &cl[2]) else { return None };
            if mx.len() != 3 || mn.len() != 3 || atom(&mx[0]).as_deref() != Some("ordering-max") || atom(&mn[0]).as_deref() != Some("ordering-min") {
                return None;
            }
            let (a, b, a2, b2) = (atom(&mx[1])?, atom(&mx[2])?, atom(&mn[1])?, atom(&mn[2])?);
            if a != a2 || b != b2 {
                return None;
            }
            Some((a, b))
        };
        let mut actions = Vec::new();
        let mut i = 0;
        while i < acts.len() {
            let Sx::L(al) = &acts[i] else { return None };
            let h = atom(&al[0])?;
            if h == "let" && al.len() == 3 && i + 2 < acts.len() {
                // (let v (f args)) (set (fView args v) ()) (set (UF (max v v) (min v v)) ())
                let v = atom(&al[1])?;
                let Sx::L(call) = &al[2] else { return None };
                let fname = atom(&call[0])?;
                let f = ctor_ix(&fname)?;
                let mut args = Vec::new();
                let mut arg_names = Vec::new();
                for a in &call[1..] {
                    let n = atom(a)?;
                    args.push(var(&n)?);
                    arg_names.push(n);
                }
                let Sx::L(sl) = &acts[i + 1] else { return None };
                if sl.len() != 3 || atom(&sl[0]).as_deref() != Some("set") || !matches!(&sl[2], Sx::L(u) if u.is_empty()) {
                    return None;
                }
                let Sx::L(vc) = &sl[1] else { return None };
                if views.get(&atom(&vc[0])?) != Some(&f) || vc.len() != arg_names.len() + 2 {
                    return None;
                }
                for (k, n) in arg_names.iter().enumerate() {
                    if atom(&vc[1 + k]).as_deref() != Some(n.as_str()) {
                        return None;
                    }
                }
                if atom(&vc[vc.len() - 1]).as_deref() != Some(v.as_str()) {
                    return None;
                }
                let (a, b) = uf_set(&acts[i + 2])?;
                if a != v || b != v {
                    return None;
                }
                let vv = var(&v)?;
                actions.push(format!("UNode {vv} {f} {}", coq_nat_list(&args)));
                i += 3;
            } else if h == "set" {
                let (a, b) = uf_set(&acts[i])?;
                let (x, y) = (var(&a)?, var(&b)?);
                actions.push(format!("UUnion {x} {y}"));
                i += 1;
            } else {
                return None;
            }
        }
        out.push(format!("mkU [{}] [{}] [{}]", atoms.join("; "), eqs.join("; "), actions.join("; ")));
    }
    Some(out)
}

fn record(viols: &mut Vec<Viol>, v: Viol) {
    if let Ok(mut f) = FOUND.lock() {
        f.push(serde_json::json!({"what": v.what, "key": v.key, "input": v.input}));
    }
    viols.push(v);
}

fn class_vector(probes: &[Pat], nfacts_membership: usize, facts: &[bool]) -> Vec<i64> {
    // facts layout (see probe_facts): membership of every probe, then pairwise equalities i<j
    let n = probes.len();
    assert_eq!(nfacts_membership, n);
    let mut cls: Vec<i64> = vec![-1; n];
    let mut k = n;
    let mut eq = vec![vec![false; n]; n];
    for i in 0..n {
        for j in (i + 1)..n {
            eq[i][j] = facts[k];
            eq[j][i] = facts[k];
            k += 1;
        }
    }
    for i in 0..n {
        if !facts[i] {
            continue;
        }
        let mut c = i;
        for j in 0..i {
            if facts[j] && eq[i][j] {
                c = j;
                break;
            }
        }
        cls[i] = c as i64;
    }
    cls
}

fn rule_cmd_coq(c: &Cmd) -> String {
    match c {
        Cmd::Run(n) => format!("URun {n}"),
        other => format!("UC ({})", cons_cmd_coq(other)),
    }
}

fn cons_cmd_coq(c: &Cmd) -> String {
    match c {
        Cmd::Act(Action::Expr(t)) => format!("CAdd ({})", Program::term_coq(t)),
        Cmd::Act(Action::Union(a, b)) => format!("CUnion ({}) ({})", Program::term_coq(a), Program::term_coq(b)),
        _ => panic!("not a constructor-only command"),
    }
}

fn main() {
    let o = verif_harness::parse_opts();
    let mut ncases: Option<usize> = None;
    let mut nfiles: Option<usize> = None;
    let mut ncons: Option<usize> = None;
    let mut nrules: Option<usize> = None;
    let mut with_delete = false;
    let mut i = 0;
    while i < o.extra.len() {
        match o.extra[i].as_str() {
            "--cases" => {
                ncases = Some(o.extra[i + 1].parse().unwrap());
                i += 1;
            }
            "--files" => {
                nfiles = Some(o.extra[i + 1].parse().unwrap());
                i += 1;
            }
            "--with-delete" => with_delete = true,
            "--rules" => {
                nrules = Some(o.extra[i + 1].parse().unwrap());
                i += 1;
            }
            "--cons" => {
                ncons = Some(o.extra[i + 1].parse().unwrap());
                i += 1;
            }
            _ => {}
        }
        i += 1;
    }
    let ncases = ncases.unwrap_or(if o.thorough { 2500 } else { 110 });
    let ncons = ncons.unwrap_or(if o.thorough { 3000 } else { 160 });
    let nrules = nrules.unwrap_or(if o.thorough { 2000 } else { 120 });
    if std::env::var("VERIF_PANIC_MSG").is_err() {
        std::panic::set_hook(Box::new(|_| {}));
    }
    start_watchdog(o.out.clone(), if o.thorough { 600 } else { 180 });
    let repo = std::env::var("VERIF_REPO").unwrap_or_else(|_| "/repo".to_string());

    let header = "From Coq Require Import List ZArith NArith.\nImport ListNotations.\nRequire Import Verif.Base.Cases Verif.Egg.Model Verif.Egg.Rules Verif.Encoding.Datalog Verif.Encoding.Templates Verif.Encoding.EncOk Verif.Encoding.URules.\n";
    let mut w = CaseWriter::new(&o.out, "cases_modes", header, "check_any", 40);
    let mut viols: Vec<Viol> = Vec::new();
    let mut distinct: HashSet<String> = HashSet::new();
    let mut nontrivial = 0usize;
    let mut kind_hist: BTreeMap<String, usize> = BTreeMap::new();
    let mut err_hist: BTreeMap<String, usize> = BTreeMap::new();
    let mut len_hist: BTreeMap<String, usize> = BTreeMap::new();
    let mut samples: Vec<serde_json::Value> = Vec::new();
    let mut times = [0.0f64; 4];
    let mut total_cmds = 0usize;
    let mut total_failed = 0usize;
    let mut sessions = 0usize;
    let mut files_run: Vec<String> = Vec::new();
    let mut files_skipped_slow: Vec<String> = Vec::new();
    let mut cons_nontrivial = 0usize;
    let mut enc_rules_emitted = 0usize;
    let mut corpus_sessions = 0usize;
    let mut user_rules_emitted = 0usize;
    let mut rule_nontrivial = 0usize;

    let mut handle = |s: &Session, tag: String, do_reprint: bool, w: &mut CaseWriter, viols: &mut Vec<Viol>| {
        let (probes, facts) = probe_facts(&s.p, if s.cons_cmds.is_some() { 12 } else { 9 });
        let r = run_session(s, &facts, do_reprint, &mut err_hist);
        for k in &s.kinds {
            *kind_hist.entry(k.to_string()).or_insert(0) += 1;
        }
        *len_hist.entry(format!("cmds_{:02}", s.cmds.len())).or_insert(0) += 1;
        total_cmds += r.all_ok_cmds;
        total_failed += r.failed_cmds;
        sessions += 1;
        for i in 0..4 {
            times[i] += r.times[i];
        }
        let text = format!("{}\n{}", s.header.join("\n"), s.cmds.join("\n"));
        let fresh = distinct.insert(text.clone());
        if fresh && r.nontrivial && s.cons_cmds.is_none() {
            nontrivial += 1;
        }
        if samples.len() < 4 && r.nontrivial {
            samples.push(serde_json::json!({"tag": tag, "program": text}));
        }
        if let Some(cs) = &s.cons_cmds {
            // case for the Gallina model: class vector observed on the real term-encoding engine
            if r.term_facts.len() == facts.len() && r.viol.is_none() {
                let cls = class_vector(&probes, probes.len(), &r.term_facts);
                let merged = cls.iter().enumerate().any(|(i, c)| *c >= 0 && *c != i as i64);
                if merged && fresh && s.rules.is_empty() {
                    cons_nontrivial += 1;
                }
                let arities = coq_list(&s.p.decls, |d| coq_list(&d.args, |a| if *a == Sort::S { "true".to_string() } else { "false".to_string() }));
                if !s.rules.is_empty() {
                    // user-rule case: source rules, the rules the real encoder emitted for them
                    let emitted = match encoded_user_rules_coq(&s.p, &s.header) {
                        Some(rs) => {
                            user_rules_emitted += rs.len();
                            format!("[{}]", rs.join("; "))
                        }
                        // shape not recognised: the length check of check_rcase fails, the link is reported broken
                        None => "[]".to_string(),
                    };
                    if merged && fresh {
                        rule_nontrivial += 1;
                    }
                    w.push(format!(
                        "(CRule (mkRCase {} {} {} {} {} {}))",
                        arities,
                        coq_list(&s.rules, |r| format!("Verif.Egg.Rules.mkRule {} {}", coq_list(&r.body, Program::fact_coq), coq_list(&r.head, Program::action_coq))),
                        emitted,
                        coq_list(cs, rule_cmd_coq),
                        coq_list(&probes, Program::term_coq),
                        coq_list(&cls, |z| coq_z(*z)),
                    ));
                } else {
                let rules = match encoded_rules_coq(&s.p, &s.header) {
                    Some((r, sub)) => {
                        enc_rules_emitted += 1;
                        format!("(Some {sub}) (Some {r})")
                    }
                    // the encoder's output no longer has the expected shape: an empty program never
                    // equals the templates, so the case fails and the link is reported broken
                    None => "None (Some [])".to_string(),
                };
                w.push(format!(
                    "(CModel (mkCase2 (mkCase {} {} {} {}) {}))",
                    arities,
                    coq_list(cs, cons_cmd_coq),
                    coq_list(&probes, Program::term_coq),
                    coq_list(&cls, |z| coq_z(*z)),
                    rules
                ));
                }
            } else {
                w.push("(CModel (mkCase2 (mkCase [] [] [] []) None None))".to_string());
            }
        }
        if let Some(v) = r.viol {
            record(viols, v);
        }
    };

    if let Some(path) = &o.replay {
        let txt = std::fs::read_to_string(path).expect("replay");
        let v: serde_json::Value = serde_json::from_str(&txt).expect("json");
        let viol = if v.get("violation").is_some() { &v["violation"] } else { &v };
        let inp = if viol.get("input").is_some() { &viol["input"] } else { viol };
        if let Some(f) = inp.get("file").and_then(|f| f.as_str()) {
            let (vv, _, _) = run_file(&std::path::Path::new(&repo).join("tests").join(f), 1e9);
            if let Some(v) = vv {
                record(&mut viols, v);
            }
        } else {
            let strs = |k: &str| -> Vec<String> { inp[k].as_array().map(|a| a.iter().map(|s| s.as_str().unwrap_or("").to_string()).collect()).unwrap_or_default() };
            let s = Session { p: Program { decls: vec![], cmds: vec![], expect: vec![] }, header: strs("header"), kinds: strs("cmds").iter().map(|_| "replay").collect(), cmds: strs("cmds"), cons_cmds: None, rules: vec![] };
            let facts: Vec<String> = strs("facts");
            let r = run_session(&s, &facts, true, &mut BTreeMap::new());
            if let Some(v) = r.viol {
                record(&mut viols, v);
            }
        }
    } else {
        // 0. corpus seeds
        let corpus = std::path::Path::new(env!("CARGO_MANIFEST_DIR")).join("../corpus/C11");
        if let Ok(rd) = std::fs::read_dir(&corpus) {
            let mut paths: Vec<_> = rd.flatten().map(|e| e.path()).filter(|p| p.extension().map(|e| e == "json").unwrap_or(false)).collect();
            paths.sort();
            for pth in paths {
                let v: serde_json::Value = serde_json::from_str(&std::fs::read_to_string(&pth).unwrap()).expect("corpus json");
                let strs = |k: &str| -> Vec<String> { v[k].as_array().map(|a| a.iter().map(|s| s.as_str().unwrap_or("").to_string()).collect()).unwrap_or_default() };
                let s = Session { p: Program { decls: vec![], cmds: vec![], expect: vec![] }, header: strs("header"), kinds: strs("cmds").iter().map(|_| "corpus").collect(), cmds: strs("cmds"), cons_cmds: None, rules: vec![] };
                let facts = strs("facts");
                let r = run_session(&s, &facts, true, &mut BTreeMap::new());
                corpus_sessions += 1;
                if let Some(mut vv) = r.viol {
                    if let Some(k) = v.get("key").and_then(|k| k.as_str()) {
                        vv.key = k.to_string();
                    }
                    record(&mut viols, vv);
                }
            }
        }
        // 1. constructor-only sessions (cases for the Gallina model)
        for ci in 0..ncons {
            let mut r = Rng::for_case(o.seed ^ 0xC0115, ci as u64);
            let s = gen_cons_session(&mut r);
            handle(&s, format!("cons seed={} case={}", o.seed, ci), ci % 4 == 0, &mut w, &mut viols);
        }
        // 1b. rule sessions (cases for the encoded user-rule model)
        for ci in 0..nrules {
            let mut r = Rng::for_case(o.seed ^ 0xC011E, ci as u64);
            let s = gen_rule_session(&mut r);
            handle(&s, format!("rules seed={} case={}", o.seed, ci), ci % 4 == 0, &mut w, &mut viols);
        }
        // 2. general sessions in the supported fragment
        for ci in 0..ncases {
            let mut r = Rng::for_case(o.seed, ci as u64);
            let s = gen_session(&mut r, with_delete);
            handle(&s, format!("general seed={} case={}", o.seed, ci), true, &mut w, &mut viols);
        }
        // 3. upstream test files that the repo's own suite runs in _term_encoding/_proofs modes
        let tests = std::path::Path::new(&repo).join("tests");
        let mut names: Vec<String> = Vec::new();
        if o.thorough {
            if let Ok(rd) = std::fs::read_dir(&tests) {
                for e in rd.flatten() {
                    let n = e.file_name().to_string_lossy().to_string();
                    if n.ends_with(".egg") {
                        names.push(n);
                    }
                }
            }
            names.sort();
        } else {
            names = QUICK_FILES.iter().map(|s| s.to_string()).collect();
        }
        if let Some(n) = nfiles {
            names.truncate(n);
        }
        for n in names {
            if SKIP_FILES.contains(&n.as_str()) {
                continue;
            }
            let path = tests.join(&n);
            let src = match std::fs::read_to_string(&path) {
                Ok(s) => s,
                Err(_) => continue,
            };
            if src.contains("(include") || src.contains("(input") {
                continue;
            }
            if !egglog::file_supports_proofs(&path) {
                continue;
            }
            let (v, ran, t) = run_file(&path, if o.thorough { 1.0 } else { 0.5 });
            times[3] += 0.0 * t;
            if ran {
                files_run.push(n.clone());
            } else {
                files_skipped_slow.push(n.clone());
            }
            if let Some(v) = v {
                record(&mut viols, v);
            }
        }
    }
    w.flush();
    let vj: Vec<serde_json::Value> = viols.iter().take(25).map(|v| serde_json::json!({"what": v.what, "key": v.key, "input": v.input})).collect();
    let rep = serde_json::json!({
        "sub": "modes",
        "cases": sessions + corpus_sessions + files_run.len(),
        "shards": w.shards,
        "distinct_nontrivial": nontrivial + cons_nontrivial + rule_nontrivial,
        "rule": "seeded random sessions in the fragment accepted by program_supports_proofs (sort + constructors with costs, lattice-merge functions, a relation; inserts, unions, sets, rules, rewrites with and without :subsume, rulesets and schedules, run :until, let-globals, push/pop, subsume/delete, check, fail, print-size, extract), each run command by command on the plain, term-encoding and proofs engines, plus the reprint variant and upstream tests/*.egg; constructor-only sessions additionally become cases for the Gallina model; a general session is non-trivial iff at its end two distinct probe terms (ground terms up to depth 2) are equal on the plain engine; a constructor-only session iff two probe terms ended in one class; distinct by program text",
        "samples": samples,
        "violations": vj,
        "cmd_hist": kind_hist,
        "err_hist": err_hist,
        "len_hist": len_hist,
        "extra_coverage": {
            "commands_succeeded": total_cmds, "commands_failed_same_in_all_modes": total_failed,
            "seconds_plain_term_proofs_reprint": times, "upstream_files_run": files_run, "upstream_files_skipped_slow": files_skipped_slow,
            "model_cases": w.total, "encoder_rule_sets_compared_with_templates": enc_rules_emitted, "encoder_user_rules_compared_with_templates": user_rules_emitted, "rule_sessions_nontrivial": rule_nontrivial
        }
    });
    std::fs::write(o.out.join("impl_report.json"), serde_json::to_string(&rep).unwrap()).unwrap();
}
