(** C01: the rebuild loop's control, tied to the source.

    [gen/ParFacts.v] is regenerated from egglog-bridge/src/lib.rs ([EGraph::rebuild],
    [run_rules_inner], [flush_updates_inner]) on every run. This file interprets those facts over
    the Egg model: [rebuild_loop x] is the model's loop under exit discipline [x]
    ([ExitWhenNoChange]: iterate until a pass stages no union — [Model.rebuild];
    [ExitAfterCap k]: at most [k] passes, falling out silently), [run_with x] the term-level
    interpreter using it. The C01 theorems are (re)stated for [rebuild_loop_exit_condition], the
    regenerated fact; a capped loop is refuted; the number of passes is bounded. *)
From Coq Require Import List Arith Lia PeanoNat Bool ZArith.
Import ListNotations.
Require Import Verif.Base.Res Verif.gen.UFSeq Verif.gen.MergeArms Verif.UF.Seq Verif.gen.ParFacts.
Require Import Verif.Egg.Model Verif.Egg.CmdOk Verif.Egg.RepFacts Verif.Egg.CCDefs Verif.Egg.Rebuild
  Verif.Egg.CC Verif.Egg.Rules Verif.Egg.RulesProofs.

(* ------------------------------------------------------------------ *)
(** * the loop under an exit discipline *)

(** [for _ in 0..cap { pass; if no change { break } }] — falls out silently when the cap is hit *)
Fixpoint rebuild_capped (cap : nat) (sg : list mergefn) (s : state) : Res (state * bool) :=
  match cap with
  | O => Ok (s, false)
  | S cap =>
      bind (rebuild_pass sg s) (fun '(s', more, e) =>
      if more then bind (rebuild_capped cap sg s') (fun '(s'', e') => Ok (s'', e || e'))
      else Ok (s', e))
  end.

Definition rebuild_loop (x : loop_exit) (fuel : nat) (sg : list mergefn) (s : state) : Res (state * bool) :=
  match x with
  | ExitWhenNoChange => rebuild fuel sg s
  | ExitAfterCap cap => rebuild_capped cap sg s
  end.

Definition exec_with (x : loop_exit) (sg : list mergefn) (s : state) (c : cmd) : Res state :=
  match c with
  | CAdd t => Ok (fst (add_term s t))
  | CUnion t1 t2 =>
      let '(s1, v1) := add_term s t1 in
      let '(s2, v2) := add_term s1 t2 in
      match v1, v2 with
      | VId a, VId b =>
          bind (uf_union (uf s2) a b) (fun p' =>
          let s3 := mkSt p' (tabs s2) (wit s2) in
          bind (rebuild_loop x (rebuild_fuel s3) sg s3) (fun '(s4, _) => Ok s4))
      | _, _ => Ok s2
      end
  end.

Fixpoint run_with (x : loop_exit) (sg : list mergefn) (s : state) (cs : list cmd) : Res state :=
  match cs with
  | [] => Ok s
  | c :: tl => bind (exec_with x sg s c) (fun s' => run_with x sg s' tl)
  end.

Lemma exec_with_nochange sg s c : exec_with ExitWhenNoChange sg s c = exec sg s c.
Proof. destruct c; reflexivity. Qed.

Lemma run_with_nochange sg : forall cs s, run_with ExitWhenNoChange sg s cs = run sg s cs.
Proof.
  induction cs as [|c tl IH]; intros s; cbn [run_with run]; [reflexivity|].
  rewrite exec_with_nochange. destruct (exec sg s c); cbn [bind]; auto.
Qed.

(** THE TIE: the regenerated exit discipline of [EGraph::rebuild] is "until nothing changed" *)
Lemma source_loop_exit : rebuild_loop_exit_condition = ExitWhenNoChange.
Proof. reflexivity. Qed.

Lemma source_rebuild_is_model fuel sg s :
  rebuild_loop rebuild_loop_exit_condition fuel sg s = rebuild fuel sg s.
Proof. rewrite source_loop_exit. reflexivity. Qed.

Lemma source_run_is_model sg cs s : run_with rebuild_loop_exit_condition sg s cs = run sg s cs.
Proof. rewrite source_loop_exit. apply run_with_nochange. Qed.

(** under the source's discipline: the loop terminates within the model's fuel on every
    signature and returns a canonical database (the fixpoint) *)
Theorem source_rebuild_fix sg n s : WFxm s -> length (tabs s) = n ->
  exists s' e, rebuild_loop rebuild_loop_exit_condition (rebuild_fuel s) sg s = Ok (s', e) /\ c04_inv n s'.
Proof.
  intros HM Hn. rewrite source_rebuild_is_model.
  destruct (rebuild_x sg n (rebuild_fuel s) s HM Hn) as (s' & e & Hr & HW).
  { unfold rebuild_fuel. pose proof (nroots_le_len (uf s)). lia. }
  exists s', e. split; [exact Hr|apply WFx_c04; exact HW].
Qed.

Theorem source_run_ok n sg cs : all_unionid sg ->
  exists s, run_with rebuild_loop_exit_condition sg (init n) cs = Ok s.
Proof. intros H. rewrite source_run_is_model. apply c01_run_ok. exact H. Qed.

Theorem source_complete n sg cs s t1 t2 v1 v2 : all_unionid sg -> cmds_okb n cs = true ->
  run_with rebuild_loop_exit_condition sg (init n) cs = Ok s ->
  CC (unions_of cs) t1 t2 -> eval s t1 = Some v1 -> eval s t2 = Some v2 -> v1 = v2.
Proof. intros H1 H2 H3. rewrite source_run_is_model in H3. eapply c01_complete; eauto. Qed.

Theorem source_sound n sg cs s t1 t2 v : all_unionid sg ->
  run_with rebuild_loop_exit_condition sg (init n) cs = Ok s ->
  eval s t1 = Some v -> eval s t2 = Some v -> CC (unions_of cs) t1 t2.
Proof. intros H1 H3. rewrite source_run_is_model in H3. eapply c01_sound; eauto. Qed.

(* ------------------------------------------------------------------ *)
(** * the order of the steps and the break condition *)

Fixpoint index_of (x : rebuild_step) (l : list rebuild_step) : option nat :=
  match l with
  | [] => None
  | y :: tl => if (match x, y with
                   | StepContainers, StepContainers | StepTables, StepTables
                   | StepRefresh, StepRefresh | StepIncTs, StepIncTs => true
                   | _, _ => false end)
               then Some 0 else option_map S (index_of x tl)
  end.

Definition before (a b : rebuild_step) (l : list rebuild_step) : bool :=
  match index_of a l, index_of b l with
  | Some i, Some j => i <? j
  | _, _ => false
  end.

(** containers are rebuilt before the tables (the order the comment in the source insists on),
    rows are refreshed after both, and the timestamp advances once per pass, last *)
Lemma source_loop_order :
  before StepContainers StepTables rebuild_loop_order = true /\
  before StepTables StepRefresh rebuild_loop_order = true /\
  before StepRefresh StepIncTs rebuild_loop_order = true /\
  length rebuild_loop_order = 4.
Proof. vm_compute. repeat split. Qed.

(** does the loop leave, given which of the three change reports are set *)
Definition flag_set (containers tables refreshed : bool) (f : change_flag) : bool :=
  match f with FlagContainers => containers | FlagTables => tables | FlagRefreshed => refreshed end.

Definition loop_breaks (flags : list change_flag) (containers tables refreshed : bool) : bool :=
  forallb (fun f => negb (flag_set containers tables refreshed f)) flags.

(** the loop is left exactly when NOTHING changed: no table row was re-keyed, no row was
    refreshed, no container changed — dropping one of the three from the condition would leave
    with pending work *)
Lemma source_break_iff_nothing_changed : forall c t r,
  loop_breaks rebuild_break_flags c t r = true <-> (c = false /\ t = false /\ r = false).
Proof. intros [|] [|] [|]; vm_compute; split; intros H; try discriminate; try (destruct H as (?&?&?); discriminate); auto. Qed.

(** both call sites run the rebuild exactly when the union-find grew *)
Lemma source_rebuild_guards :
  rebuild_guard_run_rules = RebuildIffUfGrew /\ rebuild_guard_flush = RebuildIffUfGrew.
Proof. split; reflexivity. Qed.

(* ------------------------------------------------------------------ *)
(** * a capped loop misses a congruence *)

(** towers f^k(a), f^k(b) built first, then the leaves united: level i of the tower is merged by
    pass i of ONE rebuild *)
Fixpoint tower (k : nat) (x : term) : term :=
  match k with O => x | S k => T 2 [tower k x] end.

(** [TopA] ~ f^k(a) and [TopB] ~ f^k(b) asserted first, then the leaves a ~ b *)
Definition chain_cs (k : nat) : list cmd :=
  [CUnion (T 3 []) (tower k (T 0 [])); CUnion (T 4 []) (tower k (T 1 [])); CUnion (T 0 []) (T 1 [])].

Lemma CC_tower U a b : CC U a b -> forall k, CC U (tower k a) (tower k b).
Proof.
  intros H. induction k as [|k IH]; cbn [tower]; [exact H|].
  apply cc_cong. constructor; [exact IH|constructor].
Qed.

(** after the history [chain_cs k] run with loop discipline [x]: are [TopA] and [TopB] (which ARE
    in the congruence closure of the three unions) reported different? *)
Definition misses (x : loop_exit) (k : nat) : bool :=
  match run_with x (repeat MUnionId 5) (init 5) (chain_cs k) with
  | Ok s => match eval s (T 3 []), eval s (T 4 []) with
            | Some v1, Some v2 => negb (val_eqb v1 v2)
            | _, _ => false
            end
  | _ => false
  end.

Lemma misses_cap3 : misses (ExitAfterCap 3) 3 = true.
Proof. vm_compute. reflexivity. Qed.

(** for every small cap: a chain of height cap is missed by [cap] passes, not by [cap+1], and
    never by the uncapped loop *)
Lemma misses_small_caps :
  forallb (fun cap => misses (ExitAfterCap cap) cap && negb (misses (ExitAfterCap (S cap)) cap)
                      && negb (misses ExitWhenNoChange cap)) (seq 0 7) = true.
Proof. vm_compute. reflexivity. Qed.

(** the red-team patch "capped at N passes": completeness FAILS for a capped loop (witness: cap 3,
    height 3; [misses_small_caps] shows the same for every cap < 7 with height = cap) *)
Theorem capped_loop_refuted :
  exists cs s t1 t2 v1 v2, cmds_okb 5 cs = true /\
    run_with (ExitAfterCap 3) (repeat MUnionId 5) (init 5) cs = Ok s /\
    CC (unions_of cs) t1 t2 /\ eval s t1 = Some v1 /\ eval s t2 = Some v2 /\ v1 <> v2.
Proof.
  pose proof misses_cap3 as H. unfold misses in H.
  destruct (run_with (ExitAfterCap 3) (repeat MUnionId 5) (init 5) (chain_cs 3)) as [s| |] eqn:E;
    [|discriminate H|discriminate H].
  destruct (eval s (T 3 [])) as [v1|] eqn:E1; [|discriminate H].
  destruct (eval s (T 4 [])) as [v2|] eqn:E2; [|discriminate H].
  exists (chain_cs 3), s, (T 3 []), (T 4 []), v1, v2.
  split; [reflexivity|]. split; [exact E|]. split.
  - apply cc_trans with (tower 3 (T 0 [])); [apply cc_ax; left; reflexivity|].
    apply cc_trans with (tower 3 (T 1 [])).
    + apply CC_tower. apply cc_ax. right. right. left. reflexivity.
    + apply cc_sym. apply cc_ax. right. left. reflexivity.
  - split; [exact E1|]. split; [exact E2|]. intros Hv. clear E E1 E2.
    apply negb_true_iff in H. rewrite Hv in H.
    assert (Ht : val_eqb v2 v2 = true) by (apply CCDefs.val_eqb_eq; reflexivity).
    rewrite Ht in H. discriminate H.
Qed.

(* ------------------------------------------------------------------ *)
(** * the number of passes is bounded by the number of classes + 1 *)

(** the number of passes the loop executes *)
Fixpoint rebuild_passes (fuel : nat) (sg : list mergefn) (s : state) : Res nat :=
  match fuel with
  | O => OutOfFuel
  | S fuel =>
      bind (rebuild_pass sg s) (fun '(s', more, _) =>
      if more then bind (rebuild_passes fuel sg s') (fun k => Ok (S k)) else Ok 1)
  end.

Lemma rebuild_pass_nomore sg s s' e : rebuild_pass sg s = Ok (s', false, e) -> uf s' = uf s.
Proof.
  unfold rebuild_pass. destruct (rebuild_tabs (uf s) sg (tabs s)) as [[ts' us] e0].
  destruct us as [|ab tl].
  - cbn [uf_unions bind]. intros H. injection H as <- _. reflexivity.
  - destruct (uf_unions (uf s) (ab :: tl)); cbn [bind]; intros H; discriminate.
Qed.

(** Every non-final pass merges at least two classes: on ANY signature, from any state with ids in
    range, the loop executes [k] passes with [k + (classes after) <= (classes before) + 1]; [k]
    passes are exactly what is needed (fuel [k] gives the same result, less fuel runs out). *)
Theorem rebuild_pass_bound sg : forall fuel s, WFxm s -> nroots (uf s) < fuel ->
  exists s' e k, rebuild fuel sg s = Ok (s', e) /\ rebuild_passes fuel sg s = Ok k /\
    k + nroots (uf s') <= S (nroots (uf s)) /\
    rebuild k sg s = Ok (s', e) /\ (forall k', k' < k -> rebuild k' sg s = OutOfFuel).
Proof.
  induction fuel as [|fuel IH]; intros s HM Hfuel; [lia|]. cbn [rebuild rebuild_passes].
  destruct (rebuild_pass_x sg s HM) as (s1 & more & e & Hp & HM1 & _ & _ & Hdec & _).
  rewrite Hp. cbn [bind]. destruct more.
  - specialize (Hdec eq_refl).
    destruct (IH s1 HM1) as (s2 & e2 & k & Hr & Hk & Hle & Hex & Hlt); [lia|].
    rewrite Hr, Hk. cbn [bind]. exists s2, (e || e2), (S k). split; [reflexivity|]. split; [reflexivity|].
    split; [lia|]. split.
    + cbn [rebuild]. rewrite Hp. cbn [bind]. rewrite Hex. reflexivity.
    + intros [|k'] Hk'; [reflexivity|]. cbn [rebuild]. rewrite Hp. cbn [bind].
      rewrite (Hlt k') by lia. reflexivity.
  - exists s1, e, 1. split; [reflexivity|]. split; [reflexivity|].
    rewrite (rebuild_pass_nomore sg s s1 e Hp). split; [lia|]. split.
    + cbn [rebuild]. rewrite Hp. reflexivity.
    + intros k' Hk'. assert (k' = 0) by lia. subst. reflexivity.
Qed.

Corollary rebuild_pass_bound_classes sg s : WFxm s ->
  exists s' e k, rebuild (rebuild_fuel s) sg s = Ok (s', e) /\
    rebuild_passes (rebuild_fuel s) sg s = Ok k /\ k <= S (nroots (uf s)) /\ nroots (uf s) <= length (uf s).
Proof.
  intros HM. pose proof (nroots_le_len (uf s)) as Hl.
  destruct (rebuild_pass_bound sg (rebuild_fuel s) s HM) as (s' & e & k & H1 & H2 & H3 & _).
  { unfold rebuild_fuel. lia. }
  exists s', e, k. repeat split; auto. lia.
Qed.

(** the chain of height 3 of [CC.Ex]: 4 passes, 8 classes before, 5 after (4 + 5 <= 8 + 1: the
    bound is attained) *)
Example ex_pass_count :
  bind (run Ex.sg (init 4) (firstn 3 Ex.cs1)) (fun s =>
  bind (uf_union (uf s) 0 4) (fun p' =>
  let s3 := mkSt p' (tabs s) (wit s) in
  bind (rebuild (rebuild_fuel s3) Ex.sg s3) (fun '(s4, _) =>
  bind (rebuild_passes (rebuild_fuel s3) Ex.sg s3) (fun k =>
  Ok (k, nroots (uf s3), nroots (uf s4))))))
  = Ok (4, 8, 5).
Proof. vm_compute. reflexivity. Qed.
