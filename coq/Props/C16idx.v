(** C16 (index part) — the subset-search routines of [SortedOffsetSlice] and the sort that builds
    a column index answer exactly as a plain sorted list would.
    This file only pins statements and prints their assumptions.

    [scan_for_offset] and [binary_search_from] are REGENERATED from
    core-relations/src/offsets/mod.rs on every run (gen/PureFns.v, translator module purefn.rs);
    the standard library's [[T]::binary_search] is the universally quantified [bs], about which
    only its documented contract ([bs_contract]) is assumed. Arithmetic is checked: [= Ok _]
    means no index out of bounds, no [usize] overflow / underflow, and enough fuel. *)
From Coq Require Import List NArith Bool Sorted Permutation.
Import ListNotations.
Require Import Verif.Base.Res Verif.Index.Prelude Verif.gen.PureFns Verif.Index.SearchModel
  Verif.Index.SortFacts Verif.Index.SearchProofs Verif.Index.RadixModel Verif.Index.RadixProofs
  Verif.Index.RadixArray.
Local Open Scope N_scope.

(** For EVERY sorted (non-decreasing) slice, every [start <= len] and every target,
    [scan_for_offset] returns — without panicking, within [2 * len + 2] loop iterations —
    [Ok i] with [i] the FIRST index [>= start] holding the target, or [Err i] with [i] the first
    index [>= start] whose element is greater than the target ([len] if none), the target then
    being absent from [start] on. *)
Theorem c16_scan_for_offset_exact : forall bs, bs_contract bs ->
  forall (l : list N) (start t : N) (fuel : nat),
  Sorted N.le l -> 2 * ulen l <= usize_max -> start <= ulen l -> (2 * length l + 2 <= fuel)%nat ->
  exists r, scan_for_offset bs fuel l start t = Ok r /\
    match r with
    | ROk i => start <= i /\ i < ulen l /\ nthN l i = t /\ (forall j, start <= j -> j < i -> nthN l j < t)
    | RErr i => start <= i /\ i <= ulen l /\ (forall j, start <= j -> j < i -> nthN l j < t) /\
                (forall j, i <= j -> j < ulen l -> t < nthN l j)
    end.
Proof. exact scan_for_offset_correct. Qed.
Print Assumptions c16_scan_for_offset_exact.

(** the answer is determined by the slice alone: it does not depend on WHICH of several equal
    elements the library's binary search reports *)
Theorem c16_scan_for_offset_choice_free : forall bs1 bs2, bs_contract bs1 -> bs_contract bs2 ->
  forall (l : list N) (start t : N),
  Sorted N.le l -> 2 * ulen l <= usize_max -> start <= ulen l ->
  scan_for_offset bs1 (2 * length l + 2) l start t = scan_for_offset bs2 (2 * length l + 2) l start t.
Proof. exact scan_for_offset_choice_free. Qed.
Print Assumptions c16_scan_for_offset_choice_free.

(** [binary_search_from(start, t)] (and [binary_search_by_id(t)], its [start = 0] instance) on a
    sorted slice never panics and returns [r <= len] such that everything from [r] on is [>= t]
    and everything in [start, r) is [< t]; when the target occurs at or after [start] the walk
    back over equal elements makes [r] the first index of the WHOLE slice whose element is
    [>= t]; otherwise [r >= start]. *)
Theorem c16_binary_search_from_exact : forall bs, bs_contract bs ->
  forall (l : list N) (start t : N) (fuel : nat),
  Sorted N.le l -> ulen l <= usize_max -> start <= ulen l -> (length l + 1 <= fuel)%nat ->
  exists r, binary_search_from bs fuel l start t = Ok r /\
    r <= ulen l /\
    (forall j, r <= j -> j < ulen l -> t <= nthN l j) /\
    (forall j, start <= j -> j < r -> nthN l j < t) /\
    ((exists j, start <= j /\ j < ulen l /\ nthN l j = t) -> forall j, j < r -> nthN l j < t) /\
    ((forall j, start <= j -> j < ulen l -> nthN l j <> t) -> start <= r).
Proof. exact binary_search_from_correct. Qed.
Print Assumptions c16_binary_search_from_exact.

(** as used ([binary_search_by_id]; and [binary_search_from(l, end)] after [l] was found for a
    smaller-or-equal id): when everything before [start] is below the target, the result is THE
    lower bound — the first index whose element is [>= t] *)
Theorem c16_binary_search_lower_bound : forall bs, bs_contract bs ->
  forall (l : list N) (start t : N),
  Sorted N.le l -> ulen l <= usize_max -> start <= ulen l ->
  (forall j, j < start -> nthN l j < t) ->
  exists r, binary_search_from bs (length l + 1) l start t = Ok r /\
    start <= r /\ r <= ulen l /\ (forall j, j < r -> nthN l j < t) /\
    (forall j, r <= j -> j < ulen l -> t <= nthN l j).
Proof. exact binary_search_lower_bound. Qed.
Print Assumptions c16_binary_search_lower_bound.

(** the contract assumed of the standard library is satisfiable (two executable instances with
    opposite choices among equal elements; the kernel-evaluated cases run both) *)
Example c16_bs_contract_inhabited : bs_contract bs_first /\ bs_contract bs_last.
Proof. exact (conj bs_first_contract bs_last_contract). Qed.
Print Assumptions c16_bs_contract_inhabited.

(** The sort that orders a column block for an index ([radix_sort_slice_by_value], array level:
    counters, prefix sums, scatter, two ping-pong buffers; pass count = the regenerated
    [radix_passes_for]): for EVERY block of [u32] values arriving in ascending row-id order, with
    a scratch buffer at least as long and whatever it holds, the routine does not panic and leaves
    the block sorted by (value, row id), a permutation of the input — i.e. each value's rows are
    exactly the rows a plain map from value to ascending row ids would hold. *)
Theorem c16_index_block_sorted : forall (data scratch : list vr),
  Forall (fun q => fst q < 2 ^ 32) data -> rowids_ascending data ->
  N.of_nat (length data) <= u32_max -> (length data <= length scratch)%nat ->
  exists out, radix_sort data scratch = Ok out /\ StronglySorted vr_le out /\ Permutation data out.
Proof. exact radix_sort_correct. Qed.
Print Assumptions c16_index_block_sorted.
