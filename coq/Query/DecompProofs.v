(** C02 — proofs about decomposed plans (Query/Decomp.v).
    What is proved here, for every accepted decomposed plan ([dplan_ok q dp = true]):
    * every bag block is an accepted single-bag plan of its block query, so by [plan_ok_sound_out]
      it computes exactly the matches of that block query on EVERY database — in particular for
      every content of the earlier materialisations — and under EVERY run-time stage order;
    * all stages of the result block are barriers of the REGENERATED [sort_barrier], hence the
      result block runs in plan order whatever the order oracle chooses.
    NOT proved (link-only, see lib/propcfg/C02.py): that the composition of the block queries
    through the materialisations equals the matches of the whole query (the Yannakakis gluing
    argument); this is checked per instance by running [run_dplan] in the kernel against the
    engine's rows and the specification matcher. *)
From Coq Require Import List Arith Bool PeanoNat Lia.
Import ListNotations.
Require Import Verif.gen.PlanFacts.
Require Import Verif.Query.Spec Verif.Query.Stages Verif.Query.PlanOk Verif.Query.SpecProofs Verif.Query.Sound Verif.Query.Decomp.

Lemma result_ok_barriers : forall dp rs bnd, result_ok dp bnd rs = true ->
  forallb (fun r => sort_barrier (rstage_kind r)) rs = true.
Proof.
  induction rs as [|r tl IH]; intros bnd H; [reflexivity|].
  cbn [result_ok] in H. cbn [forallb].
  repeat (apply andb_true_iff in H; destruct H as [H ?]).
  apply andb_true_iff; split; [assumption|]. eapply IH; eassumption.
Qed.

Lemma pick_barrier_first : forall c r tl, sort_barrier (rstage_kind r) = true ->
  pick c (map rstage_kind (r :: tl)) = 0.
Proof. intros c r tl H. unfold pick. cbn [map movable_prefix]. rewrite H. reflexivity. Qed.

Lemma barriers_remove_hd : forall (rs : list rstage), remove_nth 0 rs = tl rs.
Proof. destruct rs; reflexivity. Qed.

(** all barriers: the order oracle has no say *)
Lemma run_result_fixed_order : forall dp mats n rs rc rc' e,
  forallb (fun r => sort_barrier (rstage_kind r)) rs = true ->
  run_result rc n dp mats rs e = run_result rc' n dp mats rs e.
Proof.
  induction n as [|n IH]; intros rs rc rc' e H; destruct rs as [|r tl]; try reflexivity.
  cbn [forallb] in H. apply andb_true_iff in H. destruct H as [Hr Ht].
  cbn [run_result]. rewrite !(pick_barrier_first _ r tl Hr). cbn [remove_nth nth].
  induction (rstep dp mats r e) as [|e' es IHes]; [reflexivity|].
  cbn [flat_map]. rewrite IHes. f_equal. apply IH. exact Ht.
Qed.

Lemma dplan_ok_result : forall q dp, dplan_ok q dp = true -> result_ok dp [] (dp_result dp) = true.
Proof.
  intros q dp H. unfold dplan_ok in H.
  repeat (apply andb_true_iff in H; destruct H as [H ?]). assumption.
Qed.

Theorem dplan_result_order : forall q dp, dplan_ok q dp = true ->
  forall (d : db) (ch : chooser) (rc rc' : list nat), run_dplan ch rc dp d = run_dplan ch rc' dp d.
Proof.
  intros q dp H d ch rc rc'. unfold run_dplan.
  destruct (run_blocks ch dp (pad_db (dp_ntabs dp) d) 0 (dp_blocks dp) []); [|reflexivity].
  apply run_result_fixed_order. eapply result_ok_barriers. eapply dplan_ok_result. eassumption.
Qed.

Ltac split_and H := repeat (let X := fresh "C" in apply andb_true_iff in H; destruct H as [H X]).

Lemma dplan_ok_block_all : forall q dp i b, dplan_ok q dp = true -> In (i, b) (iblocks dp) ->
  plan_ok (block_query q dp i b) (block_plan dp i b) = true /\
  forallb (bag_stage_ok dp i) (b_stages b) = true.
Proof.
  intros q dp i b H Hin. unfold dplan_ok in H. split_and H.
  rewrite forallb_forall in C5. specialize (C5 _ Hin). simpl in C5.
  apply andb_true_iff in C5. destruct C5 as [C5 _].
  apply andb_true_iff in C5. destruct C5 as [C5 _].
  apply andb_true_iff in C5. destruct C5 as [P B]. split; assumption.
Qed.

Lemma dplan_ok_block : forall q dp i b, dplan_ok q dp = true -> In (i, b) (iblocks dp) ->
  plan_ok (block_query q dp i b) (block_plan dp i b) = true.
Proof. intros q dp i b H Hin. exact (proj1 (dplan_ok_block_all q dp i b H Hin)). Qed.

(** every bag block computes exactly the matches of its block query, on every database (whatever
    the earlier materialisations contain) and under every run-time stage order *)
Theorem dplan_block_sound : forall q dp, dplan_ok q dp = true ->
  forall i b, In (i, b) (iblocks dp) ->
  forall (d' : db) (ch : chooser),
    sem_eq (needed b) (run_plan ch (block_plan dp i b) d') (matches (block_query q dp i b) d').
Proof.
  intros q dp H i b Hin d' ch.
  exact (plan_ok_sound_out _ _ (dplan_ok_block q dp i b H Hin) d' ch).
Qed.

(** no bag stage of an accepted plan is a barrier (they may be re-sorted freely; the theorem above
    covers every order) and every materialisation read in a bag is read by a KeyOnly prologue *)
Theorem dplan_bag_stages_movable : forall q dp, dplan_ok q dp = true ->
  forall i b st, In (i, b) (iblocks dp) -> In st (b_stages b) -> sort_barrier (dstage_kind st) = false.
Proof.
  intros q dp H i b st Hin Hst.
  destruct (dplan_ok_block_all q dp i b H Hin) as [_ HS].
  rewrite forallb_forall in HS. specialize (HS _ Hst). unfold bag_stage_ok in HS.
  apply andb_true_iff in HS. destruct HS as [HS _]. apply negb_true_iff in HS. exact HS.
Qed.
