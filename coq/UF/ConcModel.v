(** C17 (concurrent half): interleaving semantics of union-find/src/concurrent/uf.rs.
    Executable definitions only.

    Shared state: [parent : nat -> nat] (the atomic array; growth under the Buffer's
    ReadOptimizedLock is NOT modelled - its protocol is C19's RoLock.v; ids are unbounded nat).
    Every thread is a small-step program whose atomic steps are exactly the [load] / [cas] calls
    of [find_impl] (uf.rs:140-156), [merge] (103-138) and [same_set] (72-91); sequentially
    consistent (the code uses Acquire/Release/AcqRel: not modelled). *)
From Coq Require Import List Arith Bool Lia.
Import ListNotations.
Require Import Verif.Base.Res Verif.Base.Cases Verif.gen.UFSeq Verif.UF.Ops.

Definition upd {A} (p : nat -> A) (i : nat) (v : A) : nat -> A :=
  fun x => if Nat.eqb x i then v else p x.

(** find_impl: [F0 cur]: about to [next = load(cur)]; [F1 cur next]: about to [grand = load(next)]
    (and test [next != grand]); [F2 cur next grand]: about to [cas(cur, next, grand)], after which
    [cur = next] *)
Inductive fpc := F0 (cur : nat) | F1 (cur next : nat) | F2 (cur next grand : nat).
Inductive fres := FCont (f : fpc) | FRet (r : nat).

Definition fstep (p : nat -> nat) (f : fpc) : (nat -> nat) * fres :=
  match f with
  | F0 cur => (p, FCont (F1 cur (p cur)))
  | F1 cur next =>
      if Nat.eqb next (p next) then (p, FRet next) else (p, FCont (F2 cur next (p next)))
  | F2 cur next grand =>
      ((if Nat.eqb (p cur) next then upd p cur grand else p), FCont (F0 next))
  end.

Inductive tpc :=
| Idle
| Find (x : nat) (f : fpc)
| MergeL (l0 r0 : nat) (r : nat) (f : fpc)     (* l = find_impl(l) in progress *)
| MergeR (l0 r0 : nat) (l : nat) (f : fpc)     (* r = find_impl(r) in progress *)
| MergeCas (l0 r0 : nat) (l r : nat)           (* l <> r: about to cas(max, max, min) *)
| SameL (l0 r0 : nat) (r : nat) (f : fpc)
| SameR (l0 r0 : nat) (l : nat) (f : fpc)
| SameChk (l0 r0 : nat) (l r : nat).           (* l <> r: about to [next = load(l)] *)

(** responses *)
Inductive res :=
| RFind (x r : nat)
| RMerge (l0 r0 parent child : nat)
| RSame (l0 r0 : nat) (b : bool).

Record out := mkout {
  o_par : nat -> nat; o_pc : tpc;
  o_merged : option (nat * nat);     (* the merge took effect in this step (ghost) *)
  o_res : option res
}.

Definition tstep (p : nat -> nat) (c : tpc) : option out :=
  match c with
  | Idle => None
  | Find x f =>
      match fstep p f with
      | (p', FCont f') => Some (mkout p' (Find x f') None None)
      | (p', FRet r) => Some (mkout p' Idle None (Some (RFind x r)))
      end
  | MergeL l0 r0 r f =>
      match fstep p f with
      | (p', FCont f') => Some (mkout p' (MergeL l0 r0 r f') None None)
      | (p', FRet l) => Some (mkout p' (MergeR l0 r0 l (F0 r)) None None)
      end
  | MergeR l0 r0 l f =>
      match fstep p f with
      | (p', FCont f') => Some (mkout p' (MergeR l0 r0 l f') None None)
      | (p', FRet r) =>
          if Nat.eqb l r then Some (mkout p' Idle (Some (l0, r0)) (Some (RMerge l0 r0 l l)))
          else Some (mkout p' (MergeCas l0 r0 l r) None None)
      end
  | MergeCas l0 r0 l r =>
      let child := Nat.max l r in
      let par := Nat.min l r in
      if Nat.eqb (p child) child
      then Some (mkout (upd p child par) Idle (Some (l0, r0)) (Some (RMerge l0 r0 par child)))
      else Some (mkout p (MergeL l0 r0 r (F0 l)) None None)
  | SameL l0 r0 r f =>
      match fstep p f with
      | (p', FCont f') => Some (mkout p' (SameL l0 r0 r f') None None)
      | (p', FRet l) => Some (mkout p' (SameR l0 r0 l (F0 r)) None None)
      end
  | SameR l0 r0 l f =>
      match fstep p f with
      | (p', FCont f') => Some (mkout p' (SameR l0 r0 l f') None None)
      | (p', FRet r) =>
          if Nat.eqb l r then Some (mkout p' Idle None (Some (RSame l0 r0 true)))
          else Some (mkout p' (SameChk l0 r0 l r) None None)
      end
  | SameChk l0 r0 l r =>
      if Nat.eqb (p l) l then Some (mkout p Idle None (Some (RSame l0 r0 false)))
      else Some (mkout p (SameL l0 r0 r (F0 l)) None None)
  end.

Record st := mk {
  parent : nat -> nat;
  thr : nat -> tpc;
  merged : list (nat * nat);     (* ghost: arguments of the merges that took effect, newest first *)
  hist : list res                (* ghost: responses, newest first *)
}.

Definition init : st := mk (fun x => x) (fun _ => Idle) [] [].

Definition opt_cons {A} (o : option A) (l : list A) : list A :=
  match o with Some a => a :: l | None => l end.

Inductive label :=
| LFind (t x : nat) | LMerge (t l r : nat) | LSame (t l r : nat) | LRun (t : nat).

Definition exec (s : st) (lb : label) : option st :=
  match lb with
  | LFind t x =>
      match thr s t with
      | Idle => Some (mk (parent s) (upd (thr s) t (Find x (F0 x))) (merged s) (hist s))
      | _ => None end
  | LMerge t l r =>
      match thr s t with
      | Idle => Some (mk (parent s) (upd (thr s) t (MergeL l r r (F0 l))) (merged s) (hist s))
      | _ => None end
  | LSame t l r =>
      match thr s t with
      | Idle => Some (mk (parent s) (upd (thr s) t (SameL l r r (F0 l))) (merged s) (hist s))
      | _ => None end
  | LRun t =>
      match tstep (parent s) (thr s t) with
      | Some o => Some (mk (o_par o) (upd (thr s) t (o_pc o))
                          (opt_cons (o_merged o) (merged s)) (opt_cons (o_res o) (hist s)))
      | None => None
      end
  end.

Definition step (s : st) (lb : label) (s' : st) : Prop := exec s lb = Some s'.

Inductive reachable : st -> Prop :=
| reach_init : reachable init
| reach_step s l s' : reachable s -> step s l s' -> reachable s'.

Fixpoint exec_all (s : st) (ls : list label) : option st :=
  match ls with
  | [] => Some s
  | l :: tl => match exec s l with Some s' => exec_all s' tl | None => None end
  end.

(* ------------------------------------------------------------------------------------------ *)
(** * correspondence case for the real concurrent structure (final state at quiescence)

    (unions, n, finals): [unions] = the arguments of every [union] call issued by any thread (any
    order), [finals] = [find i] for i in 0..n-1 after all threads were joined. The expected value
    is computed by the TRANSLATED sequential union-find (gen/UFSeq.v), about which C17.v proves
    "same root iff connected, root = least id"; UF/Conc.v proves the concurrent model reaches the
    same partition with the same (least) representatives at quiescence. *)
Definition check_case (c : list (nat * nat) * nat * list nat) : bool :=
  let '(unions, n, finals) := c in
  match run [] (map (fun ab => OUnion (fst ab) (snd ab)) unions) with
  | Ok p =>
      match naive_all p (seq 0 n) with
      | Ok fin => list_eqb Nat.eqb fin finals
      | _ => false
      end
  | _ => false
  end.
