(** C11: USER RULES under the term encoding. Executable definitions only.

    A source rule (constructor patterns in the body, constructor insertions and unions in the head —
    the type [Verif.Egg.Rules.rule] of the native model) is instrumented by the real encoder
    (src/proofs/proof_encoding.rs [instrument_rule], [instrument_fact], [instrument_action_expr],
    [add_term_and_view], [union]) into a rule over the VIEW tables:

      (rule ((= __d1 (__FView a __o1)) (= __d2 (__HView __o1 b __o2)) (= x __o2))      ; flattened body
            ((let __v (H b a)) (set (__HView b a __v) ()) (set (__UF_S (ordering-max __v __v) ..) ())
             (set (__UF_S (ordering-max x __v) (ordering-min x __v)) ())))

    i.e. nested patterns are flattened bottom-up into one view-table atom per application (children
    first), [(= x p)] becomes an alias/equality between [x] and the atom's leader column, every
    application in the head becomes the triple "term row, view row, self-loop" of
    [add_term_and_view] (here [UNode], the session primitive [enc_add_node]), and [(union a b)] a
    UF row between the two ids (here [UUnion]).

    [urule] is the type of such instrumented rules; [enc_user_rule] is the TEMPLATE (what the
    encoder must emit for a source rule) and [enc_user_rule_ok] compares the rule the REAL encoder
    emitted (translated from the text of [resolve_program] by h_modes) with the template up to the
    names of variables. [enc_rules_iter] is one [(run)] of the encoded program: all matches over
    the frozen view tables, their actions, then the maintenance schedule to fixpoint. *)
From Coq Require Import List Arith ZArith Bool PeanoNat.
Import ListNotations.
Require Import Verif.Base.Res Verif.Base.Cases Verif.Egg.Model Verif.Egg.Rules.
Require Import Verif.Encoding.Datalog Verif.Encoding.Templates Verif.Encoding.EncOk.

(* ---------------------------------------------------------------- instrumented rules *)

Inductive uact :=
| UNode (v f : nat) (args : list nat)     (* (let v (f args)) (set (fView args v) ()) (set (UF v v) ()) *)
| UUnion (a b : nat).                     (* (set (UF (ordering-max a b) (ordering-min a b)) ()) *)

Record urule := mkU {
  ubody : list atom;                      (* atoms over view tables: children.., leader, dummy output *)
  ueqs : list (nat * nat);                (* (= x y) between variables *)
  uacts : list uact
}.

(** [(= x y)]: compares when both sides are bound, otherwise binds the unbound side (an alias) *)
Definition bind_eq (e : env) (xy : nat * nat) : option env :=
  match lookup e (fst xy), lookup e (snd xy) with
  | Some a, Some b => if val_eqb a b then Some e else None
  | None, Some b => Some ((fst xy, b) :: e)
  | Some a, None => Some ((snd xy, a) :: e)
  | None, None => None
  end.

Fixpoint bind_eqs (e : env) (l : list (nat * nat)) : option env :=
  match l with
  | [] => Some e
  | xy :: tl => match bind_eq e xy with Some e' => bind_eqs e' tl | None => None end
  end.

Definition umatches (d : db) (r : urule) : list env :=
  flat_map (fun e => match bind_eqs e (ueqs r) with Some e' => [e'] | None => [] end)
           (match_body d (ubody r) []).

Fixpoint lookups (e : env) (l : list nat) : option (list val) :=
  match l with
  | [] => Some []
  | x :: tl => match lookup e x, lookups e tl with
               | Some v, Some vs => Some (v :: vs) | _, _ => None end
  end.

Definition enc_union (s : estate) (a b : nat) : estate :=
  mkE (dbset (edb s) tUF [VId (Nat.max a b); VId (Nat.min a b)] unitv) (eterms s).

(** dynamic well-formedness checks (a failed check is a [Panic] of the model, never a silent
    success): an id is live when it has a UF row of its own; the arguments of a constructed node
    have the kinds of the constructor's columns *)
Definition dom_okb (d : db) (v : val) : bool :=
  existsb (fun r => match dkey r with a :: _ => val_eqb a v | [] => false end) (gett d tUF).

Definition env_okb (d : db) (e : env) : bool :=
  forallb (fun xv => match snd xv with VId _ => dom_okb d (snd xv) | VInt _ => true end) e.

Fixpoint kinds_okb (ks : list bool) (vs : list val) : bool :=
  match ks, vs with
  | [], [] => true
  | b :: ks', v :: vs' =>
      (match v with VId _ => b | VInt _ => negb b end) && kinds_okb ks' vs'
  | _, _ => false
  end.

(** the actions of one match; [None] = an unbound variable / an ill-sorted node / a union of non-ids *)
Fixpoint run_uacts (sg : sigT) (s : estate) (e : env) (l : list uact) : option estate :=
  match l with
  | [] => Some s
  | UNode v f args :: tl =>
      match lookups e args, nth_error sg f with
      | Some vs, Some kinds =>
          if kinds_okb kinds vs then
            let '(s1, id) := enc_add_node s f vs in run_uacts sg s1 ((v, id) :: e) tl
          else None
      | _, _ => None
      end
  | UUnion a b :: tl =>
      match lookup e a, lookup e b with
      | Some (VId x), Some (VId y) => run_uacts sg (enc_union s x y) e tl
      | _, _ => None
      end
  end.

Fixpoint run_matches (sg : sigT) (s : estate) (l : list (env * list uact)) : option estate :=
  match l with
  | [] => Some s
  | (e, acts) :: tl =>
      if env_okb (edb s) e then
        match run_uacts sg s e acts with Some s1 => run_matches sg s1 tl | None => None end
      else None
  end.

(** all matches of all rules against the FROZEN database of [s] *)
Definition all_matches (d : db) (rs : list urule) : list (env * list uact) :=
  flat_map (fun r => map (fun e => (e, uacts r)) (umatches d r)) rs.

(** one iteration of (run): (seq (run) <maintenance>) *)
Definition enc_rules_iter (fuel : nat) (sg : sigT) (rs : list urule) (s : estate) : Res estate :=
  match run_matches sg s (all_matches (edb s) rs) with
  | Some s1 => enc_maint fuel sg s1
  | None => Panic
  end.

Fixpoint enc_rules_run (fuel : nat) (sg : sigT) (rs : list urule) (n : nat) (s : estate) : Res estate :=
  match n with
  | O => Ok s
  | S n' => bind (enc_rules_iter fuel sg rs s) (enc_rules_run fuel sg rs n')
  end.

(** sessions: ground insertions / unions, and (run n) of the declared rules *)
Inductive ucmd :=
| UC (c : cmd)
| URun (n : nat).

Definition enc_uexec (fuel : nat) (sg : sigT) (rs : list urule) (s : estate) (c : ucmd) : Res estate :=
  match c with
  | UC c => enc_exec fuel sg s c
  | URun n => enc_rules_run fuel sg rs n s
  end.

Fixpoint enc_urun (fuel : nat) (sg : sigT) (rs : list urule) (s : estate) (cs : list ucmd) : Res estate :=
  match cs with
  | [] => Ok s
  | c :: tl => bind (enc_uexec fuel sg rs s c) (fun s' => enc_urun fuel sg rs s' tl)
  end.

(* ---------------------------------------------------------------- the template *)

(** flatten a pattern bottom-up: atoms (children first), the variable holding its value, next fresh *)
Fixpoint flat_pat (p : pat) (n : nat) : option (list atom * nat * nat) :=
  match p with
  | PVar x => Some ([], x, n)
  | PApp f ps =>
      let fix go (ps : list pat) (n : nat) : option (list atom * list nat * nat) :=
        match ps with
        | [] => Some ([], [], n)
        | q :: tl =>
            match flat_pat q n with
            | Some (a1, v, n1) =>
                match go tl n1 with
                | Some (a2, vs, n2) => Some (a1 ++ a2, v :: vs, n2)
                | None => None
                end
            | None => None
            end
        end in
      match go ps n with
      | Some (ats, vs, n1) => Some (ats ++ [mkAtom (tView f) (vs ++ [n1; S n1])], n1, 2 + n1)
      | None => None
      end
  | _ => None
  end.

Fixpoint flat_facts (fs : list fact) (n : nat) : option (list atom * list (nat * nat) * nat) :=
  match fs with
  | [] => Some ([], [], n)
  | FEq x (PApp f ps) :: tl =>
      match flat_pat (PApp f ps) n with
      | Some (a1, o, n1) =>
          match flat_facts tl n1 with
          | Some (a2, eqs, n2) => Some (a1 ++ a2, (x, o) :: eqs, n2)
          | None => None
          end
      | None => None
      end
  | FPat (PApp f ps) :: tl =>
      match flat_pat (PApp f ps) n with
      | Some (a1, _, n1) =>
          match flat_facts tl n1 with
          | Some (a2, eqs, n2) => Some (a1 ++ a2, eqs, n2)
          | None => None
          end
      | None => None
      end
  | _ => None
  end.

(** head patterns: one [UNode] per application, children first *)
Fixpoint flat_apat (p : pat) (n : nat) : option (list uact * nat * nat) :=
  match p with
  | PVar x => Some ([], x, n)
  | PApp f ps =>
      let fix go (ps : list pat) (n : nat) : option (list uact * list nat * nat) :=
        match ps with
        | [] => Some ([], [], n)
        | q :: tl =>
            match flat_apat q n with
            | Some (a1, v, n1) =>
                match go tl n1 with
                | Some (a2, vs, n2) => Some (a1 ++ a2, v :: vs, n2)
                | None => None
                end
            | None => None
            end
        end in
      match go ps n with
      | Some (acts, vs, n1) => Some (acts ++ [UNode n1 f vs], n1, S n1)
      | None => None
      end
  | _ => None
  end.

Fixpoint flat_actions (l : list Rules.action) (n : nat) : option (list uact) :=
  match l with
  | [] => Some []
  | AExpr p :: tl =>
      match flat_apat p n with
      | Some (a1, _, n1) => option_map (app a1) (flat_actions tl n1)
      | None => None
      end
  | AUnion p q :: tl =>
      match flat_apat p n with
      | Some (a1, vp, n1) =>
          match flat_apat q n1 with
          | Some (a2, vq, n2) => option_map (fun r => a1 ++ a2 ++ UUnion vp vq :: r) (flat_actions tl n2)
          | None => None
          end
      | None => None
      end
  | _ => None
  end.

Fixpoint pat_vars_max (p : pat) : nat :=
  match p with
  | PVar x => S x
  | PApp _ ps => fold_right (fun q m => Nat.max (pat_vars_max q) m) 0 ps
  | _ => 0
  end.

Definition rule_vars_max (r : Rules.rule) : nat :=
  Nat.max
    (fold_right (fun f m => Nat.max (match f with
                                     | FEq x p => Nat.max (S x) (pat_vars_max p)
                                     | FPat p => pat_vars_max p
                                     | _ => 0 end) m) 0 (Rules.rbody r))
    (fold_right (fun a m => Nat.max (match a with
                                     | AExpr p => pat_vars_max p
                                     | AUnion p q => Nat.max (pat_vars_max p) (pat_vars_max q)
                                     | _ => 0 end) m) 0 (Rules.rhead r)).

(** what the encoder must emit for a source rule; [None] = outside the modelled rule fragment *)
Definition enc_user_rule (r : Rules.rule) : option urule :=
  match flat_facts (Rules.rbody r) (rule_vars_max r) with
  | Some (ats, eqs, n1) =>
      match flat_actions (Rules.rhead r) n1 with
      | Some acts => Some (mkU ats eqs acts)
      | None => None
      end
  | None => None
  end.

(* ---------------------------------------------------------------- comparison up to variable names *)

Fixpoint ren_eqs (r : ren) (l : list (nat * nat)) : ren * list (nat * nat) :=
  match l with
  | [] => (r, [])
  | (x, y) :: tl => let '(r1, x') := ren_var r x in let '(r2, y') := ren_var r1 y in
                    let '(r3, tl') := ren_eqs r2 tl in (r3, (x', y') :: tl')
  end.

Fixpoint ren_uacts (r : ren) (l : list uact) : ren * list uact :=
  match l with
  | [] => (r, [])
  | UNode v f args :: tl =>
      let '(r1, args') := ren_vars r args in let '(r2, v') := ren_var r1 v in
      let '(r3, tl') := ren_uacts r2 tl in (r3, UNode v' f args' :: tl')
  | UUnion a b :: tl =>
      let '(r1, a') := ren_var r a in let '(r2, b') := ren_var r1 b in
      let '(r3, tl') := ren_uacts r2 tl in (r3, UUnion a' b' :: tl')
  end.

Definition unormalize (r : urule) : urule :=
  let '(r1, b) := ren_atoms [] (ubody r) in
  let '(r2, q) := ren_eqs r1 (ueqs r) in
  let '(_, a) := ren_uacts r2 (uacts r) in
  mkU b q a.

Definition uact_eqb (a b : uact) : bool :=
  match a, b with
  | UNode v f args, UNode v' f' args' => Nat.eqb v v' && Nat.eqb f f' && list_eqb Nat.eqb args args'
  | UUnion x y, UUnion x' y' => Nat.eqb x x' && Nat.eqb y y'
  | _, _ => false
  end.

Definition urule_eqb (a b : urule) : bool :=
  list_eqb atom_eqb (ubody a) (ubody b) &&
  list_eqb (fun p q => Nat.eqb (fst p) (fst q) && Nat.eqb (snd p) (snd q)) (ueqs a) (ueqs b) &&
  list_eqb uact_eqb (uacts a) (uacts b).

(** the emitted rule is the template instance of the source rule, up to variable names *)
Definition enc_user_rule_ok (src : Rules.rule) (emitted : urule) : bool :=
  match enc_user_rule src with
  | Some t => urule_eqb (unormalize emitted) (unormalize t)
  | None => false
  end.

(* ---------------------------------------------------------------- well-formed instrumented rules *)

(** static discipline the theorems need (decidable, checked on every case): body atoms are view
    atoms of the right width whose leader/dummy positions make sense, every variable an action uses
    is bound before, [UNode] targets and union operands are eq-sort variables *)
Fixpoint kinds_vars (ks : list bool) (vs : list nat) : option (list (nat * bool)) :=
  match ks, vs with
  | [], [] => Some []
  | b :: ks', v :: vs' => option_map (cons (v, b)) (kinds_vars ks' vs')
  | _, _ => None
  end.

Fixpoint ty_find (l : list (nat * bool)) (x : nat) : option bool :=
  match l with
  | [] => None
  | (y, b) :: tl => if Nat.eqb y x then Some b else ty_find tl x
  end.

(** add typings, failing on a kind clash *)
Fixpoint ty_adds (ty : list (nat * bool)) (l : list (nat * bool)) : option (list (nat * bool)) :=
  match l with
  | [] => Some ty
  | (x, b) :: tl =>
      match ty_find ty x with
      | Some b' => if Bool.eqb b b' then ty_adds ty tl else None
      | None => ty_adds ((x, b) :: ty) tl
      end
  end.

Definition view_of (t : nat) : option nat :=
  if (2 <=? t) && Nat.even t then Some ((t - 2) / 2) else None.

Fixpoint body_ty (sg : sigT) (ty : list (nat * bool)) (l : list atom) : option (list (nat * bool)) :=
  match l with
  | [] => Some ty
  | a :: tl =>
      match view_of (atab a) with
      | Some f =>
          match nth_error sg f with
          | Some kinds =>
              let n := length kinds in
              if Nat.eqb (length (avars a)) (n + 2) then
                match kinds_vars (kinds ++ [true]) (firstn (S n) (avars a)) with
                | Some kv => match ty_adds ty kv with
                             | Some ty' => body_ty sg ty' tl
                             | None => None
                             end
                | None => None
                end
              else None
          | None => None
          end
      | None => None
      end
  end.

Fixpoint eqs_ty (ty : list (nat * bool)) (l : list (nat * nat)) : option (list (nat * bool)) :=
  match l with
  | [] => Some ty
  | (x, y) :: tl =>
      match ty_find ty x, ty_find ty y with
      | Some a, Some b => if Bool.eqb a b then eqs_ty ty tl else None
      | None, Some b => eqs_ty ((x, b) :: ty) tl
      | Some a, None => eqs_ty ((y, a) :: ty) tl
      | None, None => None
      end
  end.

Fixpoint args_kinds_ok (ty : list (nat * bool)) (ks : list bool) (vs : list nat) : bool :=
  match ks, vs with
  | [], [] => true
  | b :: ks', v :: vs' => match ty_find ty v with Some b' => Bool.eqb b b' | None => false end
                          && args_kinds_ok ty ks' vs'
  | _, _ => false
  end.

Fixpoint acts_ty (sg : sigT) (ty : list (nat * bool)) (l : list uact) : bool :=
  match l with
  | [] => true
  | UNode v f args :: tl =>
      match nth_error sg f, ty_find ty v with
      | Some kinds, None => args_kinds_ok ty kinds args && acts_ty sg ((v, true) :: ty) tl
      | _, _ => false
      end
  | UUnion a b :: tl =>
      match ty_find ty a, ty_find ty b with
      | Some true, Some true => acts_ty sg ty tl
      | _, _ => false
      end
  end.

(** the dummy (output) variable of every atom occurs nowhere else: checked by counting *)
Definition urule_wf (sg : sigT) (r : urule) : bool :=
  match body_ty sg [] (ubody r) with
  | Some ty => match eqs_ty ty (ueqs r) with
               | Some ty' => acts_ty sg ty' (uacts r)
               | None => false
               end
  | None => false
  end.

(* ---------------------------------------------------------------- cases written by h_modes *)

Fixpoint pat_of_term (t : term) : pat :=
  match t with
  | TI z => PInt z
  | T f ts => PApp f (map pat_of_term ts)
  end.

Definition native_cmd (c : ucmd) : command :=
  match c with
  | UC (CAdd t) => KAct (AExpr (pat_of_term t))
  | UC (CUnion a b) => KAct (AUnion (pat_of_term a) (pat_of_term b))
  | URun n => KRun n
  end.

Fixpoint native_final (sg : list mergefn) (ps : pstate) (ks : list command) : option pstate :=
  match ks with
  | [] => Some ps
  | k :: tl => match pexec sg ps k with
               | (ps', None) => native_final sg ps' tl
               | _ => None
               end
  end.

Record rcase := mkRCase {
  r_sig : sigT;
  r_rules : list Rules.rule;        (* the source rules *)
  r_emitted : list urule;           (* what the real encoder emitted for them, in order *)
  r_cmds : list ucmd;
  r_probes : list term;
  r_classes : list Z                (* observed on the real term-encoding engine *)
}.

Definition rcase_fuel (c : rcase) : nat := 96 + 16 * length (r_cmds c).

Definition enc_rclasses (c : rcase) : option (list Z) :=
  match enc_urun (rcase_fuel c) (r_sig c) (r_emitted c) (einit (length (r_sig c))) (r_cmds c) with
  | Ok s => Some (classes (map (enc_eval (edb s)) (r_probes c)))
  | _ => None
  end.

Definition native_rclasses (c : rcase) : option (list Z) :=
  let n := length (r_sig c) in
  match native_final (repeat MUnionId n) (init n, []) (map KRule (r_rules c) ++ map native_cmd (r_cmds c)) with
  | Some ps => Some (classes (map (eval (fst ps)) (r_probes c)))
  | None => None
  end.

Definition ucmd_ty (sg : sigT) (c : ucmd) : bool :=
  match c with UC c => cmd_ty sg c | URun _ => true end.

(** (1) every emitted rule is the template instance of its source rule and is well-formed;
    (2) the class vector of the ENCODED model running the EMITTED rules + maintenance, and the one
    of the NATIVE rule interpreter (Egg/Rules.v) running the source rules, both equal the class
    vector observed on the real term-encoding engine *)
Definition check_rcase (c : rcase) : bool :=
  Nat.eqb (length (r_rules c)) (length (r_emitted c)) &&
  forallb (fun p => enc_user_rule_ok (fst p) (snd p)) (combine (r_rules c) (r_emitted c)) &&
  forallb (urule_wf (r_sig c)) (r_emitted c) &&
  forallb (ucmd_ty (r_sig c)) (r_cmds c) &&
  match enc_rclasses c, native_rclasses c with
  | Some a, Some b => list_eqb Z.eqb a (r_classes c) && list_eqb Z.eqb b (r_classes c)
  | _, _ => false
  end.

(** all cases of h_modes in one type *)
Inductive anycase :=
| CModel (c : mcase2)
| CRule (c : rcase).

Definition check_any (c : anycase) : bool :=
  match c with
  | CModel c => check_case2 c
  | CRule c => check_rcase c
  end.

(* ---------------------------------------------------------------- sanity *)

(** commutativity of H (constructor 1 of [[]; [true; true]]): (rule ((= x (H a b))) ((union x (H b a)))) *)
Definition ex_comm : Rules.rule :=
  Rules.mkRule [FEq 0 (PApp 1 [PVar 1; PVar 2])] [AUnion (PVar 0) (PApp 1 [PVar 2; PVar 1])].

Example ex_comm_template :
  enc_user_rule ex_comm =
  Some (mkU [mkAtom (tView 1) [1; 2; 3; 4]] [(0, 3)] [UNode 5 1 [2; 1]; UUnion 0 5]).
Proof. vm_compute. reflexivity. Qed.

Example enc_user_rule_ok_detects :
  enc_user_rule_ok ex_comm (mkU [mkAtom (tView 1) [10; 11; 12; 13]] [(7, 12)] [UNode 20 1 [11; 10]; UUnion 7 20]) = true /\
  (* the union request dropped *)
  enc_user_rule_ok ex_comm (mkU [mkAtom (tView 1) [10; 11; 12; 13]] [(7, 12)] [UNode 20 1 [11; 10]]) = false /\
  (* the body reads the leader column as a child *)
  enc_user_rule_ok ex_comm (mkU [mkAtom (tView 1) [10; 12; 11; 13]] [(7, 12)] [UNode 20 1 [11; 10]; UUnion 7 20]) = false.
Proof. vm_compute. repeat split; reflexivity. Qed.
