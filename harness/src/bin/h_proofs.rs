//! C12: `(prove facts)` / the in-tree proof checker.
//!
//! For generated programs inside the fragment accepted by the real `program_supports_proofs`, and
//! facts over their ground terms (true and false ones):
//!  (i)   `(prove facts)` on a proofs-enabled e-graph succeeds iff the facts, used as a rule body,
//!        match on a plain e-graph running the same program (and, when the program never subsumes
//!        or deletes, iff `(check facts)` succeeds there); it never panics;
//!  (ii)  the returned proof (and the pre-simplification root node, which is still in the store with
//!        its sub-proofs simplified in place; the proof before simplification is checked in-tree by
//!        prove itself and a failure there is a panic, observed under (i)) is
//!        accepted by the in-tree checker against the e-graph's own checking program (hook H3),
//!        and proves the fact that was asked;
//!  (iii) every single-point alteration (a rule / top-level action removed from the checking
//!        program; one proof node mutated) that leaves a step unjustified is rejected by the
//!        in-tree checker. "Unjustified" is decided by an independent checker in this file (`twin`,
//!        written from the proof format's documentation) and, through the emitted cases, by the
//!        Gallina checker that `c12_checker_sound` is about;
//!  (iv)  cases for the Gallina model: checking program + proof store (walked through the public
//!        `egglog::proof` API) + the in-tree verdict for every (edit, mutation).
//!
//! replay file: {"program": "...", "facts": ["(= a b)", ...], "mseed": n}
use egglog::ast::Literal;
use egglog::proof::{Justification, ProofId, ProofStore, VerifProgramEdit, VerifProofMutation};
use egglog::{CommandOutput, EGraph, Term, TermId};
use egglog_numeric_id::NumericId;
use std::collections::{BTreeMap, BTreeSet, HashMap, HashSet};
use verif_harness::egg::{self, Action, Cmd, Fact, Kind, Pat, Program};
use verif_harness::egg_gen::{Bias, Gen};
use verif_harness::util::*;

// ------------------------------------------------------------------------------------------
// s-expressions (the hook prints the checking program as egglog text)

#[derive(Clone, Debug, PartialEq)]
enum Sx {
    Atom(String),
    Str(String),
    List(Vec<Sx>),
}

fn parse_sexps(src: &str) -> Result<Vec<Sx>, String> {
    let cs: Vec<char> = src.chars().collect();
    let mut i = 0usize;
    let mut stack: Vec<Vec<Sx>> = vec![vec![]];
    while i < cs.len() {
        let c = cs[i];
        if c.is_whitespace() {
            i += 1;
        } else if c == ';' {
            while i < cs.len() && cs[i] != '\n' {
                i += 1;
            }
        } else if c == '(' {
            stack.push(vec![]);
            i += 1;
        } else if c == ')' {
            let l = stack.pop().ok_or("unbalanced")?;
            stack.last_mut().ok_or("unbalanced")?.push(Sx::List(l));
            i += 1;
        } else if c == '"' {
            let mut s = String::new();
            i += 1;
            while i < cs.len() && cs[i] != '"' {
                if cs[i] == '\\' && i + 1 < cs.len() {
                    i += 1;
                }
                s.push(cs[i]);
                i += 1;
            }
            i += 1;
            stack.last_mut().unwrap().push(Sx::Str(s));
        } else {
            let mut s = String::new();
            while i < cs.len() && !cs[i].is_whitespace() && cs[i] != '(' && cs[i] != ')' && cs[i] != '"' {
                s.push(cs[i]);
                i += 1;
            }
            stack.last_mut().unwrap().push(Sx::Atom(s));
        }
    }
    if stack.len() != 1 {
        return Err("unbalanced".into());
    }
    Ok(stack.pop().unwrap())
}

// ------------------------------------------------------------------------------------------
// the checking program as the twin / the Gallina model see it

#[derive(Clone, Debug, PartialEq, Eq, Hash, PartialOrd, Ord)]
enum Tm {
    App(String, Vec<Tm>),
    Int(i64),
    /// a literal or term kind outside the modelled fragment (printed form)
    Other(String),
}

impl Tm {
    fn subterms(&self, out: &mut Vec<Tm>) {
        out.push(self.clone());
        if let Tm::App(_, cs) = self {
            for c in cs {
                c.subterms(out);
            }
        }
    }
    fn modelled(&self) -> bool {
        match self {
            Tm::App(_, cs) => cs.iter().all(|c| c.modelled()),
            Tm::Int(_) => true,
            Tm::Other(_) => false,
        }
    }
    fn text(&self) -> String {
        match self {
            Tm::App(f, cs) => {
                let mut s = format!("({f}");
                for c in cs {
                    s.push(' ');
                    s.push_str(&c.text());
                }
                s.push(')');
                s
            }
            Tm::Int(z) => z.to_string(),
            Tm::Other(s) => s.clone(),
        }
    }
}

#[derive(Clone, Debug)]
enum P {
    Var(String),
    App(String, Vec<P>),
    Int(i64),
    /// custom function call, primitive call or non-integer literal: outside the fragment
    Unk,
}

#[derive(Clone, Debug)]
enum F {
    Eq(P, P),
    Pat(P),
}

#[derive(Clone, Debug)]
enum A {
    Let(String, P),
    Union(P, P),
    Expr(P),
    Nop,
    Unk,
}

#[derive(Clone, Debug)]
struct R {
    name: String,
    body: Vec<F>,
    head: Vec<A>,
}

#[derive(Clone, Debug)]
enum C {
    Act(A),
    Rule(R),
    Other,
}

struct CheckProg {
    cmds: Vec<C>,
    ctors: HashSet<String>,
    /// every construct is inside the modelled fragment
    modelled: bool,
    n_actions: usize,
    rule_names: Vec<String>,
    last_prove_rule: Option<String>,
}

fn p_modelled(p: &P) -> bool {
    match p {
        P::Var(_) | P::Int(_) => true,
        P::App(_, a) => a.iter().all(p_modelled),
        P::Unk => false,
    }
}

fn parse_pat(s: &Sx, ctors: &HashSet<String>) -> P {
    match s {
        Sx::Atom(a) => {
            if let Ok(z) = a.parse::<i64>() {
                P::Int(z)
            } else if a == "true" || a == "false" || a.parse::<f64>().is_ok() {
                P::Unk
            } else {
                P::Var(a.clone())
            }
        }
        Sx::Str(_) => P::Unk,
        Sx::List(l) => match l.first() {
            Some(Sx::Atom(h)) if ctors.contains(h) => P::App(h.clone(), l[1..].iter().map(|x| parse_pat(x, ctors)).collect()),
            _ => P::Unk,
        },
    }
}

fn parse_action(s: &Sx, ctors: &HashSet<String>) -> A {
    if let Sx::List(l) = s {
        if let Some(Sx::Atom(h)) = l.first() {
            match h.as_str() {
                "let" if l.len() == 3 => {
                    if let Sx::Atom(x) = &l[1] {
                        return A::Let(x.clone(), parse_pat(&l[2], ctors));
                    }
                    return A::Unk;
                }
                "union" if l.len() == 3 => return A::Union(parse_pat(&l[1], ctors), parse_pat(&l[2], ctors)),
                "subsume" | "delete" | "panic" => return A::Nop,
                "set" => return A::Unk,
                _ => {}
            }
        }
    }
    match parse_pat(s, ctors) {
        P::Unk => A::Unk,
        p => A::Expr(p),
    }
}

fn a_modelled(a: &A) -> bool {
    match a {
        A::Let(_, p) | A::Expr(p) => p_modelled(p),
        A::Union(p, q) => p_modelled(p) && p_modelled(q),
        A::Nop => true,
        A::Unk => false,
    }
}

fn parse_check_program(entries: &[(String, String)]) -> Result<CheckProg, String> {
    let mut ctors = HashSet::new();
    for (k, t) in entries {
        if let Some(n) = k.strip_prefix("function:") {
            if t.trim_start().starts_with("(constructor") {
                ctors.insert(n.to_string());
            }
        }
    }
    let mut cp = CheckProg { cmds: vec![], ctors: ctors.clone(), modelled: true, n_actions: 0, rule_names: vec![], last_prove_rule: None };
    for (k, t) in entries {
        if k == "action" {
            let sx = parse_sexps(t)?;
            if sx.len() != 1 {
                return Err(format!("action text does not parse to one s-expression: {t}"));
            }
            let a = parse_action(&sx[0], &ctors);
            cp.modelled &= a_modelled(&a);
            cp.n_actions += 1;
            cp.cmds.push(C::Act(a));
        } else if let Some(name) = k.strip_prefix("rule:") {
            let sx = parse_sexps(t)?;
            let l = match sx.first() {
                Some(Sx::List(l)) if l.len() >= 3 && l[0] == Sx::Atom("rule".into()) => l.clone(),
                _ => return Err(format!("rule text does not parse: {t}")),
            };
            let (Sx::List(body), Sx::List(head)) = (&l[1], &l[2]) else {
                return Err(format!("rule text does not parse: {t}"));
            };
            let mut fs = Vec::new();
            for f in body {
                let ff = match f {
                    Sx::List(e) if e.len() == 3 && e[0] == Sx::Atom("=".into()) => F::Eq(parse_pat(&e[1], &ctors), parse_pat(&e[2], &ctors)),
                    other => F::Pat(parse_pat(other, &ctors)),
                };
                cp.modelled &= match &ff {
                    F::Eq(a, b) => p_modelled(a) && p_modelled(b),
                    F::Pat(a) => p_modelled(a),
                };
                fs.push(ff);
            }
            let hs: Vec<A> = head.iter().map(|a| parse_action(a, &ctors)).collect();
            cp.modelled &= hs.iter().all(a_modelled);
            cp.rule_names.push(name.to_string());
            if name.starts_with("@prove_exists_rule") {
                cp.last_prove_rule = Some(name.to_string());
            }
            cp.cmds.push(C::Rule(R { name: name.to_string(), body: fs, head: hs }));
        } else {
            cp.cmds.push(C::Other);
        }
    }
    Ok(cp)
}

// ------------------------------------------------------------------------------------------
// the proof store, walked through the public API

#[derive(Clone, Debug)]
enum J {
    Fiat,
    Rule { name: String, prems: Vec<usize>, sub: Vec<(String, Tm)> },
    Trans(usize, usize),
    Sym(usize),
    Congr(usize, usize, usize),
    /// MergeFn / ContainerNormalize: link-only
    Unmodelled(&'static str, Vec<usize>, String),
    Eval,
}

#[derive(Clone, Debug)]
struct Node {
    l: Tm,
    r: Tm,
    j: J,
    pid: ProofId,
}

fn tm_of(store: &ProofStore, t: TermId, memo: &mut HashMap<TermId, Tm>) -> Tm {
    if let Some(x) = memo.get(&t) {
        return x.clone();
    }
    let dag = store.term_dag();
    let r = match dag.get(t) {
        Term::App(h, cs) => Tm::App(h.clone(), cs.iter().map(|c| tm_of(store, *c, memo)).collect()),
        Term::Lit(Literal::Int(z)) => Tm::Int(*z),
        other => Tm::Other(format!("{other:?}")),
    };
    memo.insert(t, r.clone());
    r
}

fn children_of(j: &Justification) -> Vec<ProofId> {
    match j {
        Justification::Fiat | Justification::Eval => vec![],
        Justification::Rule { premise_proofs, .. } => premise_proofs.clone(),
        Justification::MergeFn { old_proof, new_proof, .. } => vec![*old_proof, *new_proof],
        Justification::Trans(a, b) => vec![*a, *b],
        Justification::Sym(a) => vec![*a],
        Justification::Congr { proof, child_proof, .. } => vec![*proof, *child_proof],
        Justification::ContainerNormalize { proof } => vec![*proof],
    }
}

/// nodes reachable from `root`, children before parents; index of the root is the last one
fn walk(store: &ProofStore, root: ProofId) -> (Vec<Node>, HashMap<usize, usize>) {
    let mut order: Vec<ProofId> = Vec::new();
    let mut ix: HashMap<usize, usize> = HashMap::new();
    let mut onstack: HashSet<usize> = HashSet::new();
    // iterative post-order
    let mut stack: Vec<(ProofId, usize)> = vec![(root, 0)];
    onstack.insert(root.index());
    while let Some((p, k)) = stack.pop() {
        let ch = children_of(store.get(p).justification());
        if k < ch.len() {
            stack.push((p, k + 1));
            let c = ch[k];
            if !ix.contains_key(&c.index()) && !onstack.contains(&c.index()) {
                onstack.insert(c.index());
                stack.push((c, 0));
            }
        } else {
            ix.insert(p.index(), order.len());
            order.push(p);
        }
    }
    let mut memo = HashMap::new();
    let nodes = order
        .iter()
        .map(|p| {
            let pr = store.get(*p);
            let m = |c: &ProofId| ix[&c.index()];
            let j = match pr.justification() {
                Justification::Fiat => J::Fiat,
                Justification::Eval => J::Eval,
                Justification::Rule { name, premise_proofs, substitution } => {
                    let mut sub: Vec<(String, Tm)> = substitution.iter().map(|(k, v)| (k.clone(), tm_of(store, *v, &mut memo))).collect();
                    sub.sort();
                    J::Rule { name: name.clone(), prems: premise_proofs.iter().map(m).collect(), sub }
                }
                Justification::Trans(a, b) => J::Trans(m(a), m(b)),
                Justification::Sym(a) => J::Sym(m(a)),
                Justification::Congr { proof, child_index, child_proof } => J::Congr(m(proof), *child_index, m(child_proof)),
                Justification::MergeFn { old_proof, new_proof, function } => J::Unmodelled("MergeFn", vec![m(old_proof), m(new_proof)], function.clone()),
                Justification::ContainerNormalize { proof } => J::Unmodelled("ContainerNormalize", vec![m(proof)], String::new()),
            };
            Node { l: tm_of(store, pr.lhs(), &mut memo), r: tm_of(store, pr.rhs(), &mut memo), j, pid: *p }
        })
        .collect();
    (nodes, ix)
}

// ------------------------------------------------------------------------------------------
// the twin: an independent checker for the modelled fragment

#[derive(Clone, Copy, Debug, PartialEq)]
enum Tw {
    Accept,
    Reject,
    /// the proof or the program leaves the modelled fragment on the path the checker takes
    Unknown,
}

type Env = Vec<(String, Tm)>;

fn env_get<'a>(w: &'a Env, x: &str) -> Option<&'a Tm> {
    w.iter().find(|(k, _)| k == x).map(|(_, v)| v)
}

/// Err(()) = unmodelled, Ok(None) = evaluation error (unbound variable)
fn tw_eval(w: &Env, p: &P) -> Result<Option<Tm>, ()> {
    match p {
        P::Var(x) => Ok(env_get(w, x).cloned()),
        P::Int(z) => Ok(Some(Tm::Int(*z))),
        P::Unk => Err(()),
        P::App(f, args) => {
            let mut ts = Vec::new();
            for a in args {
                match tw_eval(w, a)? {
                    Some(t) => ts.push(t),
                    None => return Ok(None),
                }
            }
            Ok(Some(Tm::App(f.clone(), ts)))
        }
    }
}

fn refl_into(t: &Tm, props: &mut HashSet<(Tm, Tm)>) {
    let mut v = Vec::new();
    t.subterms(&mut v);
    for s in v {
        props.insert((s.clone(), s));
    }
}

fn tw_actions(mut w: Env, acts: &[&A]) -> Result<Option<(Env, HashSet<(Tm, Tm)>)>, ()> {
    let mut props = HashSet::new();
    for a in acts {
        match a {
            A::Unk => return Err(()),
            A::Nop => {}
            A::Let(x, e) => match tw_eval(&w, e)? {
                Some(t) => {
                    refl_into(&t, &mut props);
                    w.insert(0, (x.clone(), t));
                }
                None => return Ok(None),
            },
            A::Expr(e) => match tw_eval(&w, e)? {
                Some(t) => refl_into(&t, &mut props),
                None => return Ok(None),
            },
            A::Union(a, b) => match (tw_eval(&w, a)?, tw_eval(&w, b)?) {
                (Some(ta), Some(tb)) => {
                    refl_into(&ta, &mut props);
                    refl_into(&tb, &mut props);
                    props.insert((ta.clone(), tb.clone()));
                    props.insert((tb, ta));
                }
                _ => return Ok(None),
            },
        }
    }
    Ok(Some((w, props)))
}

struct Twin<'a> {
    cmds: Vec<&'a C>,
    nodes: &'a [Node],
    genv: Env,
    geqs: HashSet<(Tm, Tm)>,
    memo: HashMap<usize, Result<Option<(Tm, Tm)>, ()>>,
}

impl<'a> Twin<'a> {
    /// Ok(None): the context itself is rejected (duplicate rule names, failing global action)
    fn new(cmds: Vec<&'a C>, nodes: &'a [Node]) -> Result<Option<Self>, ()> {
        let mut seen = HashSet::new();
        for c in &cmds {
            if let C::Rule(r) = c {
                if !seen.insert(r.name.clone()) {
                    return Ok(None);
                }
            }
        }
        let acts: Vec<&A> = cmds.iter().filter_map(|c| if let C::Act(a) = c { Some(a) } else { None }).collect();
        match tw_actions(vec![], &acts)? {
            Some((genv, geqs)) => Ok(Some(Twin { cmds, nodes, genv, geqs, memo: HashMap::new() })),
            None => Ok(None),
        }
    }

    fn check(&mut self, i: usize, depth: usize) -> Result<Option<(Tm, Tm)>, ()> {
        if let Some(r) = self.memo.get(&i) {
            return r.clone();
        }
        let r = self.check_inner(i, depth);
        self.memo.insert(i, r.clone());
        r
    }

    fn check_inner(&mut self, i: usize, depth: usize) -> Result<Option<(Tm, Tm)>, ()> {
        if depth > self.nodes.len() + 1 {
            return Err(());
        }
        let n = self.nodes[i].clone();
        let claimed = (n.l.clone(), n.r.clone());
        match &n.j {
            J::Eval => Ok(None),
            J::Unmodelled(..) => Err(()),
            J::Fiat => {
                if !n.l.modelled() || !n.r.modelled() {
                    return Err(());
                }
                let lit = matches!(n.l, Tm::Int(_)) && n.l == n.r;
                Ok(if lit || self.geqs.contains(&claimed) { Some(claimed) } else { None })
            }
            J::Rule { name, prems, sub } => {
                let Some(rule) = self.cmds.iter().find_map(|c| match c {
                    C::Rule(r) if &r.name == name => Some(r.clone()),
                    _ => None,
                }) else {
                    return Ok(None);
                };
                if rule.body.len() != prems.len() {
                    return Ok(None);
                }
                let mut w: Env = sub.clone();
                w.extend(self.genv.iter().cloned());
                for (f, q) in rule.body.iter().zip(prems.iter()) {
                    let Some((pl, pr)) = self.check(*q, depth + 1)? else {
                        return Ok(None);
                    };
                    let ok = match f {
                        F::Eq(a, b) => match (tw_eval(&w, a)?, tw_eval(&w, b)?) {
                            (Some(ta), Some(tb)) => ta == pl && tb == pr,
                            _ => false,
                        },
                        F::Pat(e) => match tw_eval(&w, e)? {
                            Some(t) => t == pr,
                            None => false,
                        },
                    };
                    if !ok {
                        return Ok(None);
                    }
                }
                let acts: Vec<&A> = rule.head.iter().collect();
                match tw_actions(w, &acts)? {
                    Some((_, props)) => Ok(if props.contains(&claimed) { Some(claimed) } else { None }),
                    None => Ok(None),
                }
            }
            J::Trans(a, b) => {
                let (Some((al, ar)), Some((bl, br))) = (self.check(*a, depth + 1)?, self.check(*b, depth + 1)?) else {
                    return Ok(None);
                };
                Ok(if ar == bl && n.l == al && n.r == br { Some(claimed) } else { None })
            }
            J::Sym(a) => {
                let Some((al, ar)) = self.check(*a, depth + 1)? else {
                    return Ok(None);
                };
                Ok(if n.l == ar && n.r == al { Some(claimed) } else { None })
            }
            J::Congr(a, k, c) => {
                let (Some((bl, br)), Some((cl, cr))) = (self.check(*a, depth + 1)?, self.check(*c, depth + 1)?) else {
                    return Ok(None);
                };
                let Tm::App(f, cs) = br else {
                    return Ok(None);
                };
                if *k >= cs.len() || cs[*k] != cl {
                    return Ok(None);
                }
                let mut cs2 = cs.clone();
                cs2[*k] = cr;
                Ok(if n.r == Tm::App(f, cs2) && n.l == bl { Some(claimed) } else { None })
            }
        }
    }
}

fn twin_verdict(cp: &CheckProg, nodes: &[Node], root: usize, edit: &Edit) -> Tw {
    if matches!(edit, Edit::RemoveFunction(_)) {
        return Tw::Unknown;
    }
    let mut cmds: Vec<&C> = Vec::new();
    let mut ai = 0usize;
    for c in &cp.cmds {
        let drop = match (c, edit) {
            (C::Rule(r), Edit::RemoveRule(n)) => &r.name == n,
            (C::Act(_), Edit::RemoveAction(i)) => {
                ai += 1;
                ai - 1 == *i
            }
            _ => false,
        };
        if !drop {
            cmds.push(c);
        }
    }
    match Twin::new(cmds, nodes) {
        Err(()) => Tw::Unknown,
        Ok(None) => Tw::Reject,
        Ok(Some(mut tw)) => match tw.check(root, 0) {
            Err(()) => Tw::Unknown,
            Ok(Some(_)) => Tw::Accept,
            Ok(None) => Tw::Reject,
        },
    }
}

// ------------------------------------------------------------------------------------------
// edits and mutations (on the harness's own copy of the nodes; the hook applies its own)

#[derive(Clone, Debug, PartialEq)]
enum Edit {
    None,
    RemoveRule(String),
    RemoveAction(usize),
    /// the declaration of a function whose merge a MergeFn step evaluates (link-only)
    RemoveFunction(String),
}

#[derive(Clone, Debug)]
enum Mut {
    None,
    SwapTrans(usize),
    CongrIdx(usize, usize),
    SetLhs(usize, Tm, TermId),
    SetRhs(usize, Tm, TermId),
    SetSubst(usize, String, Tm, TermId),
    DropPrem(usize, usize),
    SetChild(usize, usize, usize),
}

impl Mut {
    fn kind(&self) -> &'static str {
        match self {
            Mut::None => "none",
            Mut::SwapTrans(_) => "swap-trans",
            Mut::CongrIdx(..) => "congr-index",
            Mut::SetLhs(..) => "set-lhs",
            Mut::SetRhs(..) => "set-rhs",
            Mut::SetSubst(..) => "set-subst",
            Mut::DropPrem(..) => "drop-premise",
            Mut::SetChild(..) => "set-child",
        }
    }
}

fn apply_mut(nodes: &[Node], m: &Mut) -> Vec<Node> {
    let mut ns = nodes.to_vec();
    match m {
        Mut::None => {}
        Mut::SwapTrans(i) => {
            if let J::Trans(a, b) = ns[*i].j.clone() {
                ns[*i].j = J::Trans(b, a);
            }
        }
        Mut::CongrIdx(i, k) => {
            if let J::Congr(a, _, c) = ns[*i].j.clone() {
                ns[*i].j = J::Congr(a, *k, c);
            }
        }
        Mut::SetLhs(i, t, _) => ns[*i].l = t.clone(),
        Mut::SetRhs(i, t, _) => ns[*i].r = t.clone(),
        Mut::SetSubst(i, x, t, _) => {
            if let J::Rule { sub, .. } = &mut ns[*i].j {
                sub.retain(|(k, _)| k != x);
                sub.insert(0, (x.clone(), t.clone()));
            }
        }
        Mut::DropPrem(i, k) => {
            if let J::Rule { prems, .. } = &mut ns[*i].j {
                prems.remove(*k);
            }
        }
        Mut::SetChild(i, k, c) => match &mut ns[*i].j {
            J::Rule { prems, .. } => prems[*k] = *c,
            J::Trans(a, b) => *(if *k == 0 { a } else { b }) = *c,
            J::Sym(a) => *a = *c,
            J::Congr(a, _, d) => *(if *k == 0 { a } else { d }) = *c,
            J::Unmodelled(_, ch, _) => ch[*k] = *c,
            _ => {}
        },
    }
    ns
}

fn hook_edit(e: &Edit) -> VerifProgramEdit {
    match e {
        Edit::None => VerifProgramEdit::Unchanged,
        Edit::RemoveRule(n) => VerifProgramEdit::RemoveRule(n.clone()),
        Edit::RemoveAction(i) => VerifProgramEdit::RemoveGlobalAction(*i),
        Edit::RemoveFunction(n) => VerifProgramEdit::RemoveFunction(n.clone()),
    }
}

fn hook_mut(nodes: &[Node], m: &Mut) -> VerifProofMutation {
    let pid = |i: &usize| nodes[*i].pid;
    match m {
        Mut::None => VerifProofMutation::Unchanged,
        Mut::SwapTrans(i) => VerifProofMutation::SwapTrans(pid(i)),
        Mut::CongrIdx(i, k) => VerifProofMutation::SetCongrIndex(pid(i), *k),
        Mut::SetLhs(i, _, t) => VerifProofMutation::SetLhs(pid(i), *t),
        Mut::SetRhs(i, _, t) => VerifProofMutation::SetRhs(pid(i), *t),
        Mut::SetSubst(i, x, _, t) => VerifProofMutation::SetSubst(pid(i), x.clone(), *t),
        Mut::DropPrem(i, k) => VerifProofMutation::DropPremise(pid(i), *k),
        Mut::SetChild(i, k, c) => VerifProofMutation::SetChild(pid(i), *k, pid(c)),
    }
}

/// alterations that leave a step unjustified whatever the unmodelled steps do: a used rule or the
/// function of a used MergeFn step is gone; a Rule step lost a premise; a Congr index is out of range
/// A MergeFn step merges two values of ONE row: its two premises must be reflexive views
/// f(k.., old) and f(k.., new) of the same function under the same key (proof_format.rs, doc of
/// Justification::MergeFn). False = the step is unjustified whatever the merge function computes.
fn mergefn_premises_fit(nodes: &[Node], i: usize) -> bool {
    let J::Unmodelled("MergeFn", ch, _) = &nodes[i].j else {
        return true;
    };
    let (a, b) = (&nodes[ch[0]], &nodes[ch[1]]);
    if a.l != a.r || b.l != b.r {
        return false;
    }
    match (&a.r, &b.r) {
        (Tm::App(f, x), Tm::App(g, y)) => f == g && !x.is_empty() && x.len() == y.len() && x[..x.len() - 1] == y[..y.len() - 1],
        _ => false,
    }
}

fn certainly_unjustified(e: &Edit, m: &Mut, nodes: &[Node], mutated: &[Node]) -> bool {
    match (e, m) {
        (Edit::None, Mut::SetChild(i, _, _)) => !mergefn_premises_fit(mutated, *i),
        (Edit::RemoveRule(n), Mut::None) => nodes.iter().any(|x| matches!(&x.j, J::Rule { name, .. } if name == n)),
        (Edit::RemoveFunction(f), Mut::None) => nodes.iter().any(|x| matches!(&x.j, J::Unmodelled("MergeFn", _, g) if g == f)),
        (Edit::None, Mut::DropPrem(..)) => true,
        (Edit::None, Mut::CongrIdx(i, k)) => matches!(&nodes[*i].r, Tm::App(_, cs) if *k >= cs.len()),
        _ => false,
    }
}

fn reaches(nodes: &[Node], from: usize, to: usize) -> bool {
    if from == to {
        return true;
    }
    let ch: Vec<usize> = match &nodes[from].j {
        J::Rule { prems, .. } => prems.clone(),
        J::Trans(a, b) => vec![*a, *b],
        J::Sym(a) => vec![*a],
        J::Congr(a, _, c) => vec![*a, *c],
        J::Unmodelled(_, c, _) => c.clone(),
        _ => vec![],
    };
    ch.iter().any(|c| reaches(nodes, *c, to))
}

// ------------------------------------------------------------------------------------------
// Gallina printing

#[derive(Default)]
struct Names {
    f: HashMap<String, usize>,
    v: HashMap<String, usize>,
    r: HashMap<String, usize>,
}
fn intern(m: &mut HashMap<String, usize>, s: &str) -> usize {
    let n = m.len();
    *m.entry(s.to_string()).or_insert(n)
}
impl Names {
    fn tm(&mut self, t: &Tm) -> String {
        match t {
            Tm::Int(z) => format!("TI {}", coq_z(*z)),
            Tm::App(f, cs) => {
                let fi = intern(&mut self.f, f);
                let parts: Vec<String> = cs.iter().map(|c| self.tm(c)).collect();
                format!("T {fi} [{}]", parts.join("; "))
            }
            Tm::Other(_) => panic!("unmodelled term"),
        }
    }
    fn pat(&mut self, p: &P) -> String {
        match p {
            P::Var(x) => format!("PV {}", intern(&mut self.v, x)),
            P::Int(z) => format!("PL {}", coq_z(*z)),
            P::App(f, a) => {
                let fi = intern(&mut self.f, f);
                let parts: Vec<String> = a.iter().map(|c| self.pat(c)).collect();
                format!("PA {fi} [{}]", parts.join("; "))
            }
            P::Unk => panic!("unmodelled pattern"),
        }
    }
    fn action(&mut self, a: &A) -> String {
        match a {
            A::Let(x, e) => format!("ALet {} ({})", intern(&mut self.v, x), self.pat(e)),
            A::Union(a, b) => format!("AUnion ({}) ({})", self.pat(a), self.pat(b)),
            A::Expr(e) => format!("AExpr ({})", self.pat(e)),
            A::Nop => "ANop".into(),
            A::Unk => panic!("unmodelled action"),
        }
    }
    fn cmd(&mut self, c: &C) -> Option<String> {
        match c {
            C::Other => None,
            C::Act(a) => Some(format!("CAct ({})", self.action(a))),
            C::Rule(r) => {
                let body: Vec<String> = r
                    .body
                    .iter()
                    .map(|f| match f {
                        F::Eq(a, b) => format!("FEq ({}) ({})", self.pat(a), self.pat(b)),
                        F::Pat(e) => format!("FPat ({})", self.pat(e)),
                    })
                    .collect();
                let head: Vec<String> = r.head.iter().map(|a| self.action(a)).collect();
                Some(format!("CRule (mkRule {} [{}] [{}])", intern(&mut self.r, &r.name), body.join("; "), head.join("; ")))
            }
        }
    }
    fn node(&mut self, n: &Node) -> String {
        let (l, r) = (self.tm(&n.l), self.tm(&n.r));
        match &n.j {
            J::Fiat => format!("NFiat ({l}) ({r})"),
            J::Eval => "NEval".into(),
            J::Rule { name, prems, sub } => {
                let s: Vec<String> = sub.iter().map(|(x, t)| format!("({}, {})", intern(&mut self.v, x), self.tm(t))).collect();
                format!("NRule ({l}) ({r}) {} {} [{}]", intern(&mut self.r, name), coq_nat_list(prems), s.join("; "))
            }
            J::Trans(a, b) => format!("NTrans ({l}) ({r}) {a} {b}"),
            J::Sym(a) => format!("NSym ({l}) ({r}) {a}"),
            J::Congr(a, k, c) => format!("NCongr ({l}) ({r}) {a} {k} {c}"),
            J::Unmodelled(..) => panic!("unmodelled node"),
        }
    }
    fn edit(&mut self, e: &Edit) -> String {
        match e {
            Edit::None => "ENone".into(),
            Edit::RemoveRule(n) => format!("ERemoveRule {}", intern(&mut self.r, n)),
            Edit::RemoveAction(i) => format!("ERemoveAction {i}"),
            Edit::RemoveFunction(_) => panic!("unmodelled edit"),
        }
    }
    fn mutation(&mut self, m: &Mut) -> String {
        match m {
            Mut::None => "MNone".into(),
            Mut::SwapTrans(i) => format!("MSwapTrans {i}"),
            Mut::CongrIdx(i, k) => format!("MCongrIdx {i} {k}"),
            Mut::SetLhs(i, t, _) => format!("MSetLhs {i} ({})", self.tm(t)),
            Mut::SetRhs(i, t, _) => format!("MSetRhs {i} ({})", self.tm(t)),
            Mut::SetSubst(i, x, t, _) => format!("MSetSubst {i} {} ({})", intern(&mut self.v, x), self.tm(t)),
            Mut::DropPrem(i, k) => format!("MDropPrem {i} {k}"),
            Mut::SetChild(i, k, c) => format!("MSetChild {i} {k} {c}"),
        }
    }
}

// ------------------------------------------------------------------------------------------
// one program with its facts

#[derive(Default)]
struct Stats {
    programs: usize,
    unsupported: usize,
    facts: usize,
    proved: usize,
    refuted: usize,
    rechecks: usize,
    rejected: usize,
    accepted_mutants: usize,
    twin_unknown: usize,
    twin_stricter_than_checker: usize,
    coq_cases: usize,
    coq_skipped_unmodelled: usize,
    nontrivial: usize,
    step_hist: BTreeMap<String, usize>,
    mut_hist: BTreeMap<String, usize>,
    reject_hist: BTreeMap<String, usize>,
    fact_hist: BTreeMap<String, usize>,
    size_hist: BTreeMap<String, usize>,
    prog_hist: BTreeMap<String, usize>,
    distinct: BTreeSet<u64>,
    samples: Vec<String>,
}

struct Viol {
    what: String,
    key: String,
    program: String,
    facts: Vec<String>,
    mseed: u64,
}

fn bump(m: &mut BTreeMap<String, usize>, k: &str) {
    *m.entry(k.to_string()).or_insert(0) += 1;
}

fn classify_reject(msg: &str) -> &'static str {
    if msg.starts_with("PANIC") {
        "checker-panic"
    } else if msg.contains("MergeFn error") {
        "mergefn"
    } else if msg.contains("Could not find function") {
        "function-not-found"
    } else if msg.contains("Could not find rule") {
        "rule-not-found"
    } else if msg.contains("Fiat proof claims") {
        "invalid-fiat"
    } else if msg.contains("transitivity requires") {
        "trans-middle"
    } else if msg.contains("congruence error") {
        "congruence"
    } else if msg.contains("rule head doesn't produce") {
        "rule-head"
    } else if msg.contains("premises, but proof has") {
        "premise-count"
    } else if msg.contains("mismatch") || msg.contains("claims to prove") {
        "term-mismatch"
    } else if msg.contains("not found in substitution") {
        "unbound-variable"
    } else if msg.contains("Duplicate rule name") {
        "duplicate-rule"
    } else {
        "other"
    }
}

fn hash64(s: &str) -> u64 {
    let mut h = 0xcbf29ce484222325u64;
    for b in s.bytes() {
        h ^= b as u64;
        h = h.wrapping_mul(0x100000001b3);
    }
    h
}

fn recheck(eg: &EGraph, store: &ProofStore, root: ProofId, e: &VerifProgramEdit, m: &VerifProofMutation) -> Result<(), String> {
    match std::panic::catch_unwind(std::panic::AssertUnwindSafe(|| eg.verif_recheck_proof(store, root, e, m))) {
        Ok(r) => r,
        Err(p) => {
            let msg = p.downcast_ref::<String>().cloned().or_else(|| p.downcast_ref::<&str>().map(|s| s.to_string())).unwrap_or_default();
            Err(format!("PANIC: {msg}"))
        }
    }
}

/// Does the fact hold in the proposition the proof proves?
fn proves_fact(fact: &Sx, ctors: &HashSet<String>, l: &Tm, r: &Tm) -> Option<bool> {
    fn ground(p: &P) -> Option<Tm> {
        match p {
            P::Int(z) => Some(Tm::Int(*z)),
            P::App(f, a) => Some(Tm::App(f.clone(), a.iter().map(ground).collect::<Option<Vec<_>>>()?)),
            _ => None,
        }
    }
    match fact {
        Sx::List(e) if e.len() == 3 && e[0] == Sx::Atom("=".into()) => {
            let (a, b) = (ground(&parse_pat(&e[1], ctors))?, ground(&parse_pat(&e[2], ctors))?);
            Some(&a == l && &b == r)
        }
        other => {
            let t = ground(&parse_pat(other, ctors))?;
            Some(&t == r)
        }
    }
}

#[allow(clippy::too_many_arguments)]
fn run_program(
    text: &str,
    facts: &[Vec<String>],
    mseed: u64,
    max_muts: usize,
    st: &mut Stats,
    viols: &mut Vec<Viol>,
    w: &mut CaseWriter,
    origin: &str,
) {
    st.programs += 1;
    let all_facts: Vec<String> = facts.iter().map(|f| f.join(" ")).collect();
    let mut viol = |what: String, key: &str, viols: &mut Vec<Viol>| {
        viols.push(Viol { what, key: key.to_string(), program: text.to_string(), facts: all_facts.clone(), mseed });
    };
    // stay inside the fragment the engine itself declares supported
    let supported = {
        let mut eg0 = EGraph::default();
        match eg0.resolve_program(None, text) {
            Ok(r) => egglog::program_supports_proofs(&r, eg0.type_info()),
            Err(_) => false,
        }
    };
    if !supported {
        st.unsupported += 1;
        return;
    }
    let uses_subsume = text.contains("(subsume") || text.contains("(delete");
    bump(&mut st.prog_hist, if uses_subsume { "with-subsume-or-delete" } else { "monotone" });
    let mut plain = EGraph::default();
    let (r, _) = egg::step(&mut plain, text);
    if r.is_err() {
        st.unsupported += 1;
        bump(&mut st.prog_hist, "program-fails-on-plain-engine");
        return;
    }
    let mut pe = EGraph::new_with_proofs();
    let (r, panicked) = egg::step(&mut pe, text);
    if let Err(e) = r {
        if panicked {
            viol(format!("running a supported program with proofs enabled panicked: {e}"), "proof-mode-run-panic", viols);
        } else {
            // C11 territory (the encodings preserve behaviour); not this property's predicate
            bump(&mut st.prog_hist, "program-fails-in-proof-mode-only");
        }
        return;
    }
    for (fi, fact) in facts.iter().enumerate() {
        st.facts += 1;
        let ftxt = fact.join(" ");
        // plain engine: the facts as a rule body / as a check
        let probe = format!(
            "(relation VHit{fi} ())\n(ruleset vq{fi})\n(rule ({ftxt}) ((VHit{fi})) :ruleset vq{fi} :name \"vq{fi}\")\n(run vq{fi} 1)"
        );
        let (r, _) = egg::step(&mut plain, &probe);
        if r.is_err() {
            bump(&mut st.fact_hist, "fact-rejected-by-plain-engine");
            continue;
        }
        let matches = egg::step(&mut plain, &format!("(check (VHit{fi}))")).0.is_ok();
        let checks = egg::step(&mut plain, &format!("(check {ftxt})")).0.is_ok();
        // proofs engine
        let (r, panicked) = egg::step(&mut pe, &format!("(prove {ftxt})"));
        if panicked {
            let msg = r.unwrap_err();
            // known finding: terms created by evaluating the arguments of a subsume / delete action
            // exist in the e-graph but the checker's process_actions ignores Change actions, so the
            // checker rejects prove's own proof and prove_exists panics
            let key = if uses_subsume && msg.contains("Existence proof should be valid before simplification") {
                "prove-panic:change-action-args"
            } else if msg.contains("Existence proof should be valid before simplification") && msg.contains("function fact mismatch") {
                // known finding: a function fact reached through a union of its key gets a
                // congruence proof f(k', v) = f(k, v); the checker's function-fact arm demands a
                // reflexive equality and rejects prove's own proof
                "prove-panic:function-fact-congruence"
            } else if msg.contains("Existence proof should be valid before simplification") && msg.contains("MergeFn error") && msg.contains("proof is not reflexive") {
                // known finding (same family): the old/new sub-proofs of a MergeFn step are
                // congruence-transported when the two writes used keys equal through a union
                "prove-panic:mergefn-not-reflexive"
            } else if msg.contains("simplified existence proof should still be valid") && msg.contains("MergeFnResultMismatch") {
                // known finding: map_child_proofs overwrites a MergeFn node's proposition with
                // (old.lhs, new.rhs) when a sub-proof changes under simplification
                "prove-panic:simplify-breaks-mergefn"
            } else {
                "prove-panic"
            };
            viol(format!("(prove {ftxt}) panicked: {msg}"), key, viols);
            // the e-graph may be in any state now
            return;
        }
        let proved = r.is_ok();
        bump(&mut st.fact_hist, match (fact.len() > 1, matches) {
            (false, true) => "single-true",
            (false, false) => "single-false",
            (true, true) => "conj-true",
            (true, false) => "conj-false",
        });
        if proved != matches {
            viol(
                format!("(prove {ftxt}) {} but the facts {} as a rule body on the plain engine", if proved { "succeeded" } else { "failed" }, if matches { "match" } else { "do not match" }),
                if proved { "prove-of-unmatched-fact" } else { "no-proof-of-matching-fact" },
                viols,
            );
        }
        if !uses_subsume && proved != checks {
            viol(
                format!("(prove {ftxt}) {} but (check {ftxt}) {} on the plain engine (no subsume/delete in the program)", if proved { "succeeded" } else { "failed" }, if checks { "succeeds" } else { "fails" }),
                "prove-vs-check",
                viols,
            );
        }
        if matches != checks {
            bump(&mut st.fact_hist, "match-differs-from-check(subsumed-row)");
        }
        let Ok(outs) = r else {
            st.refuted += 1;
            continue;
        };
        st.proved += 1;
        let Some((store, root)) = outs.into_iter().find_map(|o| match o {
            CommandOutput::ProveExists { proof_store, proof_id } => Some((proof_store, proof_id)),
            _ => None,
        }) else {
            viol(format!("(prove {ftxt}) returned no proof"), "prove-no-output", viols);
            continue;
        };
        let entries = pe.verif_proof_check_program();
        let cp = match parse_check_program(&entries) {
            Ok(cp) => cp,
            Err(e) => panic!("harness cannot read the checking program: {e}"),
        };
        // (ii) accepted against the original program, simplified and unsimplified
        let base = recheck(&pe, &store, root, &VerifProgramEdit::Unchanged, &VerifProofMutation::Unchanged);
        st.rechecks += 1;
        if let Err(e) = &base {
            viol(format!("the proof returned by (prove {ftxt}) is rejected by the in-tree checker against the e-graph's own program: {e}"), "returned-proof-rejected", viols);
            continue;
        }
        if let Some(pr) = &cp.last_prove_rule {
            for i in 0..store.verif_len() {
                let id = ProofId::from_usize(i);
                if let Justification::Rule { name, premise_proofs, .. } = store.get(id).justification() {
                    if name == pr {
                        let unsimplified = if premise_proofs.len() == 1 { premise_proofs[0] } else { id };
                        st.rechecks += 1;
                        if let Err(e) = recheck(&pe, &store, unsimplified, &VerifProgramEdit::Unchanged, &VerifProofMutation::Unchanged) {
                            viol(format!("the pre-simplification root node of (prove {ftxt}) is rejected by the in-tree checker: {e}"), "unsimplified-proof-rejected", viols);
                        }
                    }
                }
            }
        }
        let (nodes, _) = walk(&store, root);
        let rooti = nodes.len() - 1;
        for n in &nodes {
            bump(&mut st.step_hist, match &n.j {
                J::Fiat => "Fiat",
                J::Rule { .. } => "Rule",
                J::Trans(..) => "Trans",
                J::Sym(_) => "Sym",
                J::Congr(..) => "Congr",
                J::Unmodelled(k, _, _) => k,
                J::Eval => "Eval",
            });
        }
        bump(&mut st.size_hist, match nodes.len() {
            0..=1 => "1",
            2..=4 => "2-4",
            5..=9 => "5-9",
            10..=19 => "10-19",
            _ => "20+",
        });
        if fact.len() == 1 {
            if let Ok(sx) = parse_sexps(&fact[0]) {
                if let Some(false) = proves_fact(&sx[0], &cp.ctors, &nodes[rooti].l, &nodes[rooti].r) {
                    viol(
                        format!("(prove {ftxt}) returned a proof of {} = {}", nodes[rooti].l.text(), nodes[rooti].r.text()),
                        "proof-of-a-different-fact",
                        viols,
                    );
                }
            }
        }
        let proof_modelled = cp.modelled
            && nodes.iter().all(|n| {
                n.l.modelled()
                    && n.r.modelled()
                    && match &n.j {
                        J::Unmodelled(..) => false,
                        J::Rule { sub, .. } => sub.iter().all(|(_, t)| t.modelled()),
                        _ => true,
                    }
            });
        // the twin must agree on the unmutated proof
        let tw0 = twin_verdict(&cp, &nodes, rooti, &Edit::None);
        if tw0 == Tw::Reject {
            viol(
                format!("the proof returned by (prove {ftxt}) has a step the independent checker cannot justify from the program"),
                "returned-proof-unjustified",
                viols,
            );
        }
        // (iii) alterations
        let mut rng = Rng::for_case(mseed, fi as u64);
        let mut cands: Vec<(Edit, Mut)> = Vec::new();
        for n in &cp.rule_names {
            cands.push((Edit::RemoveRule(n.clone()), Mut::None));
        }
        for i in 0..cp.n_actions {
            cands.push((Edit::RemoveAction(i), Mut::None));
        }
        let merge_fns: BTreeSet<String> = nodes.iter().filter_map(|x| if let J::Unmodelled("MergeFn", _, g) = &x.j { Some(g.clone()) } else { None }).collect();
        for g in merge_fns {
            cands.push((Edit::RemoveFunction(g), Mut::None));
        }
        // terms that occur in the proof, with their ids in the store's dag
        let mut pool: Vec<(Tm, TermId)> = Vec::new();
        {
            let mut memo = HashMap::new();
            let mut seen = HashSet::new();
            for n in &nodes {
                let pr = store.get(n.pid);
                for t in [pr.lhs(), pr.rhs()] {
                    if seen.insert(t) {
                        let tm = tm_of(&store, t, &mut memo);
                        if tm.modelled() {
                            pool.push((tm, t));
                        }
                    }
                    if let Term::App(_, cs) = store.term_dag().get(t) {
                        for c in cs {
                            if seen.insert(*c) {
                                let tm = tm_of(&store, *c, &mut memo);
                                if tm.modelled() {
                                    pool.push((tm, *c));
                                }
                            }
                        }
                    }
                }
            }
            pool.sort();
        }
        let mut node_muts: Vec<Mut> = Vec::new();
        for (i, n) in nodes.iter().enumerate() {
            match &n.j {
                J::Trans(..) => node_muts.push(Mut::SwapTrans(i)),
                J::Congr(_, k, _) => {
                    node_muts.push(Mut::CongrIdx(i, k + 1));
                    if let Tm::App(_, cs) = &n.r {
                        node_muts.push(Mut::CongrIdx(i, cs.len()));
                        if *k > 0 {
                            node_muts.push(Mut::CongrIdx(i, 0));
                        }
                    }
                }
                J::Rule { prems, sub, .. } => {
                    for k in 0..prems.len() {
                        node_muts.push(Mut::DropPrem(i, k));
                    }
                    if !pool.is_empty() {
                        for (x, _) in sub {
                            let (t, id) = rng.pick(&pool).clone();
                            node_muts.push(Mut::SetSubst(i, x.clone(), t, id));
                        }
                    }
                }
                _ => {}
            }
            if !pool.is_empty() {
                let (t, id) = rng.pick(&pool).clone();
                node_muts.push(if rng.chance(1, 2) { Mut::SetLhs(i, t, id) } else { Mut::SetRhs(i, t, id) });
            }
            // re-point one sub-proof at another node of the proof (never creating a cycle)
            let nch = match &n.j {
                J::Rule { prems, .. } => prems.len(),
                J::Trans(..) | J::Congr(..) => 2,
                J::Sym(_) => 1,
                _ => 0,
            };
            if nch > 0 && rng.chance(1, 2) {
                let k = rng.below(nch);
                let c = rng.below(nodes.len());
                if !reaches(&nodes, c, i) {
                    node_muts.push(Mut::SetChild(i, k, c));
                }
            }
        }
        // targeted: a Trans step whose outer terms still fit but whose middle terms do not
        let mut targeted: Vec<Mut> = Vec::new();
        for (i, n) in nodes.iter().enumerate() {
            if let J::Trans(a, b) = &n.j {
                if let Some(c) = (0..nodes.len()).find(|c| nodes[*c].l == nodes[*a].l && nodes[*c].r != nodes[*a].r && !reaches(&nodes, *c, i)) {
                    targeted.push(Mut::SetChild(i, 0, c));
                }
                if let Some(c) = (0..nodes.len()).find(|c| nodes[*c].r == nodes[*b].r && nodes[*c].l != nodes[*b].l && !reaches(&nodes, *c, i)) {
                    targeted.push(Mut::SetChild(i, 1, c));
                }
            }
        }
        // targeted: a MergeFn step whose old / new premise is re-pointed at the proof of ANOTHER row
        // of the same function (kept in full: they are few)
        let mut merge_redirects: Vec<Mut> = Vec::new();
        for (i, n) in nodes.iter().enumerate() {
            if let J::Unmodelled("MergeFn", ch, _) = &n.j {
                let head = match &nodes[ch[0]].r {
                    Tm::App(f, _) => f.clone(),
                    _ => continue,
                };
                for (c, x) in nodes.iter().enumerate() {
                    let same_fn = matches!(&x.r, Tm::App(f, _) if *f == head) && x.l == x.r;
                    if same_fn && !reaches(&nodes, c, i) {
                        for k in 0..2 {
                            if ch[k] != c && merge_redirects.len() < 40 {
                                merge_redirects.push(Mut::SetChild(i, k, c));
                            }
                        }
                    }
                }
            }
        }
        while targeted.len() > 6 {
            let k = rng.below(targeted.len());
            targeted.swap_remove(k);
        }
        // sample the node mutations
        while node_muts.len() > max_muts {
            let k = rng.below(node_muts.len());
            node_muts.swap_remove(k);
        }
        for m in node_muts.into_iter().chain(targeted).chain(merge_redirects) {
            cands.push((Edit::None, m));
        }
        let mut obs: Vec<(Edit, Mut, bool)> = vec![(Edit::None, Mut::None, true)];
        let mut any_reject_of_used = false;
        for (e, m) in cands {
            let verdict = recheck(&pe, &store, root, &hook_edit(&e), &hook_mut(&nodes, &m));
            st.rechecks += 1;
            if let Err(msg) = &verdict {
                if msg.starts_with("verif hook:") {
                    panic!("harness bug: the hook refused {e:?} {m:?}: {msg}");
                }
            }
            let kind = if e != Edit::None {
                match e {
                    Edit::RemoveRule(_) => "remove-rule",
                    Edit::RemoveFunction(_) => "remove-merge-function",
                    _ => "remove-action",
                }
            } else if matches!(&m, Mut::SetChild(i, _, _) if matches!(&nodes[*i].j, J::Unmodelled("MergeFn", ..))) {
                "redirect-merge-premise"
            } else {
                m.kind()
            };
            bump(&mut st.mut_hist, kind);
            let mutated = apply_mut(&nodes, &m);
            let mut tw = twin_verdict(&cp, &mutated, rooti, &e);
            if tw == Tw::Unknown && certainly_unjustified(&e, &m, &nodes, &mutated) {
                // outside the modelled fragment only the alterations whose rejection does not
                // depend on unmodelled steps are judged
                tw = Tw::Reject;
            }
            match (&verdict, tw) {
                (Ok(()), Tw::Reject) => {
                    viol(
                        format!(
                            "the in-tree checker ACCEPTS the proof of (prove {ftxt}) after the alteration {kind} ({}), although a step is no longer justified by the program",
                            match (&e, &m) {
                                (Edit::RemoveRule(n), _) => format!("rule {n} removed"),
                                (Edit::RemoveAction(i), _) => format!("top-level action #{i} removed"),
                                (Edit::RemoveFunction(g), _) => format!("declaration (merge function) of {g} removed"),
                                (_, m) => format!("{m:?}"),
                            }
                        ),
                        &format!("accepted-unjustified:{kind}"),
                        viols,
                    );
                }
                (Err(msg), Tw::Accept) => {
                    // stricter than the documented rules on an altered proof: not a violation of
                    // the property (it only demands rejection of unjustified steps); reported
                    st.twin_stricter_than_checker += 1;
                    bump(&mut st.reject_hist, &format!("rejected-though-justified:{}", classify_reject(msg)));
                }
                _ => {}
            }
            if tw == Tw::Unknown {
                st.twin_unknown += 1;
            }
            match &verdict {
                Ok(()) => st.accepted_mutants += 1,
                Err(msg) => {
                    st.rejected += 1;
                    any_reject_of_used = true;
                    bump(&mut st.reject_hist, classify_reject(msg));
                }
            }
            obs.push((e, m, verdict.is_ok()));
        }
        let key = hash64(&format!("{text}|{ftxt}"));
        if st.distinct.insert(key) && nodes.len() >= 3 && any_reject_of_used {
            st.nontrivial += 1;
        }
        // (iv) the case for the Gallina checker
        if proof_modelled {
            let mut nm = Names::default();
            let prog: Vec<String> = cp.cmds.iter().filter_map(|c| nm.cmd(c)).collect();
            let ns: Vec<String> = nodes.iter().map(|n| nm.node(n)).collect();
            let os: Vec<String> = obs.iter().map(|(e, m, v)| format!("({}, {}, {})", nm.edit(e), nm.mutation(m), coq_bool(*v))).collect();
            w.push(format!("([{}],\n [{}],\n {rooti},\n [{}])", prog.join(";\n  "), ns.join(";\n  "), os.join(";\n  ")));
            st.coq_cases += 1;
        } else {
            st.coq_skipped_unmodelled += 1;
        }
        if st.samples.len() < 4 && nodes.len() >= 4 {
            st.samples.push(format!(
                "{{\"origin\":{},\"fact\":{},\"proof_nodes\":{},\"alterations\":{},\"rejected\":{},\"program\":{}}}",
                json_str(origin),
                json_str(&ftxt),
                nodes.len(),
                obs.len() - 1,
                obs.iter().filter(|o| !o.2).count(),
                json_str(text)
            ));
        }
    }
}

// ------------------------------------------------------------------------------------------
// generation

fn rule_in_modelled_fragment(p: &Program, r: &egg::Rule) -> bool {
    fn pat_ok(p: &Program, x: &Pat) -> bool {
        match x {
            Pat::Var(_) | Pat::Int(_) => true,
            Pat::Add(..) => false,
            Pat::App(f, a) => !matches!(p.decls[*f].kind, Kind::Func(_)) && a.iter().all(|y| pat_ok(p, y)),
        }
    }
    r.body.iter().all(|f| match f {
        Fact::Eq(_, q) | Fact::Pat(q) => pat_ok(p, q),
        _ => false,
    }) && r.head.iter().all(|a| match a {
        Action::Expr(q) => pat_ok(p, q),
        Action::Union(q, s) => pat_ok(p, q) && pat_ok(p, s),
        Action::Set(f, args, _) => p.decls[*f].kind == Kind::Rel && args.iter().all(|q| pat_ok(p, q)),
        Action::Subsume(_, args) => args.iter().all(|q| pat_ok(p, q)),
        _ => false,
    })
}

fn ground_terms_of(p: &Program, out: &mut Vec<Pat>) {
    fn sub(x: &Pat, out: &mut Vec<Pat>) {
        if let Pat::App(_, a) = x {
            if !out.contains(x) {
                out.push(x.clone());
            }
            for y in a {
                sub(y, out);
            }
        }
    }
    for c in &p.cmds {
        if let Cmd::Act(a) = c {
            match a {
                Action::Expr(q) => sub(q, out),
                Action::Union(q, s) => {
                    sub(q, out);
                    sub(s, out);
                }
                Action::Set(_, args, _) | Action::Subsume(_, args) => args.iter().for_each(|q| sub(q, out)),
                _ => {}
            }
        }
    }
}

/// program text + facts for case `index`
fn generate(seed: u64, index: u64) -> (String, Vec<Vec<String>>, &'static str) {
    let mut r = Rng::for_case(seed, index);
    let flavour = r.below(10);
    // 0-6: constructors / relations only (modelled); 7-8: + subsume; 9: lattice functions and
    // primitives as the shared generator produces them (link-only)
    let bias = if flavour == 7 || flavour == 8 { Bias::C13 } else if flavour == 9 { Bias::C05 } else { Bias::C01 };
    let ncmds = r.range(5, 14);
    let mut p = Gen::new(&mut r, bias).program(ncmds);
    let mut rng = Rng::for_case(seed ^ 0x5151, index);
    if flavour < 9 {
        let decls = p.decls.clone();
        let pd = Program { decls, cmds: vec![], expect: vec![] };
        for c in p.cmds.iter_mut() {
            let bad = match c {
                Cmd::Rule(rl) => !rule_in_modelled_fragment(&pd, rl),
                Cmd::Act(Action::Set(f, _, _)) => pd.decls[*f].kind != Kind::Rel,
                Cmd::Act(Action::Delete(..)) => true,
                _ => false,
            };
            if bad {
                *c = Cmd::Run(1);
            }
        }
    }
    // text, with named rules
    // (:no-merge functions are outside what program_supports_proofs accepts)
    let mut text: String = p.header().lines().filter(|l| !l.contains(":no-merge")).map(|l| format!("{l}\n")).collect();
    let mut k = 0;
    let mut glob = 0;
    let mut global_names: Vec<String> = Vec::new();
    for c in &p.cmds {
        match c {
            Cmd::Rule(rl) => {
                text.push_str(&format!(
                    "(rule ({}) ({}) :name \"r{k}\")\n",
                    rl.body.iter().map(|f| p.fact_text(f)).collect::<Vec<_>>().join(" "),
                    rl.head.iter().map(|a| p.action_text(a)).collect::<Vec<_>>().join(" ")
                ));
                k += 1;
            }
            Cmd::Act(Action::Expr(q)) if rng.chance(1, 6) => {
                // a global binding, used by a later union
                text.push_str(&format!("(let gl{glob} {})\n", p.pat_text(q)));
                let mut pool = Vec::new();
                ground_terms_of(&p, &mut pool);
                if let Some(t) = pool.first() {
                    if rng.chance(1, 2) {
                        text.push_str(&format!("(union gl{glob} {})\n", p.pat_text(t)));
                    }
                }
                // a rule and facts that mention the global
                let unary: Vec<&egg::Decl> = p.decls.iter().filter(|d| d.kind == Kind::Ctor && d.args == vec![egg::Sort::S]).collect();
                if !unary.is_empty() && rng.chance(1, 2) {
                    let f = &rng.pick(&unary).name;
                    if rng.chance(1, 2) {
                        text.push_str(&format!("(rule ((= v0 ({f} gl{glob}))) ((union v0 gl{glob})) :name \"rg{glob}\")\n"));
                    } else {
                        text.push_str(&format!("(rule ((= v0 ({f} v1)) (= v1 gl{glob})) (({f} v0)) :name \"rg{glob}\")\n"));
                    }
                    text.push_str(&format!("({f} gl{glob})\n"));
                }
                global_names.push(format!("gl{glob}"));
                glob += 1;
            }
            Cmd::Act(Action::Subsume(f, args)) => {
                // the row exists before it is subsumed (a subsume whose argument terms do not exist
                // yet is the known finding kept in corpus/C12)
                text.push_str(&format!("{}\n", p.pat_text(&Pat::App(*f, args.clone()))));
                text.push_str(&p.cmd_text(c));
                text.push('\n');
            }
            other => {
                text.push_str(&p.cmd_text(other));
                text.push('\n');
            }
        }
    }
    if flavour == 9 {
        // the same key written twice: the stored value is a merge (MergeFn proof step)
        let mut pool = Vec::new();
        ground_terms_of(&p, &mut pool);
        pool.retain(|t| matches!(t, Pat::App(f, _) if p.decls[*f].kind == Kind::Ctor));
        for (f, d) in p.decls.iter().enumerate() {
            if matches!(d.kind, Kind::Func(egg::Merge::Min) | Kind::Func(egg::Merge::Max)) && !pool.is_empty() {
                let t = rng.pick(&pool).clone();
                let (a, b) = (rng.below(5) as i64, rng.below(5) as i64 + 1);
                let key = p.pat_text(&Pat::App(f, vec![t]));
                text.push_str(&format!("(set {key} {a})\n(set {key} {b})\n"));
            }
        }
    }
    let mut extra_facts: Vec<String> = Vec::new();
    if flavour == 9 {
        // a merge function that computes a new value: the row's proof is a MergeFn step
        let mut pool = Vec::new();
        ground_terms_of(&p, &mut pool);
        pool.retain(|t| matches!(t, Pat::App(f, _) if p.decls[*f].kind == Kind::Ctor));
        if !pool.is_empty() {
            let t = p.pat_text(rng.pick(&pool));
            // (a = b is the recorded finding corpus/C12/f_nonidempotent_merge_same_value.json)
            let a = rng.below(5) as i64 + 1;
            let b = a + 1 + rng.below(4) as i64;
            text.push_str(&format!("(function acc (S) i64 :merge (+ old new))\n(set (acc {t}) {a})\n(set (acc {t}) {b})\n"));
            extra_facts.push(format!("(= (acc {t}) {})", a + b));
            extra_facts.push(format!("(= (acc {t}) {a})"));
        }
    }
    if !matches!(p.cmds.last(), Some(Cmd::Run(_))) || flavour == 9 {
        text.push_str("(run 2)\n");
    }
    // facts over the ground terms of the program and a few more
    let mut terms: Vec<Pat> = Vec::new();
    ground_terms_of(&p, &mut terms);
    for t in egg::enumerate_probes(&p, 2, 10, &[0, 1, 2]) {
        if !terms.contains(&t) && terms.len() < 16 {
            terms.push(t);
        }
    }
    let s_terms: Vec<Pat> = terms
        .iter()
        .filter(|t| matches!(t, Pat::App(f, _) if p.decls[*f].kind == Kind::Ctor))
        .cloned()
        .collect();
    let mut facts: Vec<Vec<String>> = Vec::new();
    if !s_terms.is_empty() {
        // decide truth on a plain engine so that true and false facts are both well represented
        let mut plain = EGraph::default();
        let ok = egg::step(&mut plain, &text).0.is_ok();
        let mut truths: Vec<(String, bool)> = Vec::new();
        if ok {
            for i in 0..s_terms.len() {
                for j in i..s_terms.len() {
                    let f = if rng.chance(1, 2) {
                        format!("(= {} {})", p.pat_text(&s_terms[i]), p.pat_text(&s_terms[j]))
                    } else {
                        format!("(= {} {})", p.pat_text(&s_terms[j]), p.pat_text(&s_terms[i]))
                    };
                    let t = egg::step(&mut plain, &format!("(check {f})")).0.is_ok();
                    truths.push((f, t));
                }
            }
            for (f, d) in p.decls.iter().enumerate() {
                if let Kind::Func(_) = d.kind {
                    for t in s_terms.iter().take(5) {
                        for z in -2i64..7 {
                            let ft = format!("(= {} {z})", p.pat_text(&Pat::App(f, vec![t.clone()])));
                            let tr = egg::step(&mut plain, &format!("(check {ft})")).0.is_ok();
                            if tr || z == 0 {
                                truths.push((ft, tr));
                            }
                        }
                    }
                }
            }
            for gname in &global_names {
                for t in s_terms.iter().take(6) {
                    let f = format!("(= {gname} {})", p.pat_text(t));
                    let tr = egg::step(&mut plain, &format!("(check {f})")).0.is_ok();
                    truths.push((f, tr));
                }
            }
            for (f, d) in p.decls.iter().enumerate() {
                if d.kind == Kind::Rel {
                    for t in &s_terms {
                        let ft = p.pat_text(&Pat::App(f, vec![t.clone()]));
                        let tr = egg::step(&mut plain, &format!("(check {ft})")).0.is_ok();
                        truths.push((ft, tr));
                    }
                }
            }
        }
        // identical sides (t = t, true iff t exists) are the easy half: keep at most two of them
        let is_refl = |f: &str| {
            parse_sexps(f).ok().and_then(|v| match v.first() {
                Some(Sx::List(e)) if e.len() == 3 && e[0] == Sx::Atom("=".into()) => Some(e[1] == e[2]),
                _ => Some(false),
            }) == Some(true)
        };
        let mut refl_kept = 0;
        truths.retain(|(f, t)| {
            if *t && is_refl(f) {
                refl_kept += 1;
                refl_kept <= 2
            } else {
                true
            }
        });
        let mut trues: Vec<String> = truths.iter().filter(|x| x.1).map(|x| x.0.clone()).collect();
        let mut falses: Vec<String> = truths.iter().filter(|x| !x.1).map(|x| x.0.clone()).collect();
        let nt = 5;
        let nf = 3;
        for _ in 0..nt {
            if trues.is_empty() {
                break;
            }
            let k = rng.below(trues.len());
            facts.push(vec![trues.swap_remove(k)]);
        }
        for _ in 0..nf {
            if falses.is_empty() {
                break;
            }
            let k = rng.below(falses.len());
            facts.push(vec![falses.swap_remove(k)]);
        }
        // conjunctions
        if facts.len() >= 2 {
            let a = facts[0][0].clone();
            let b = facts[1][0].clone();
            facts.push(vec![a.clone(), b]);
            let c = facts[facts.len() - 2][0].clone();
            if c != a {
                facts.push(vec![a, c]);
            }
        }
    }
    for f in extra_facts {
        facts.push(vec![f]);
    }
    let fl = match flavour {
        0..=6 => "constructors",
        7 | 8 => "subsume",
        _ => "lattice",
    };
    (text, facts, fl)
}

/// a function g : i64 x i64 -> i64 with a merge that computes a new value; some keys are written
/// twice (with different values: the same value twice is recorded finding P5), the other keys of
/// the grid carry values equal to one of those; facts are conjunctions over several keys
fn generate_merge2(seed: u64, index: u64) -> (String, Vec<Vec<String>>) {
    let mut r = Rng::for_case(seed ^ 0x6d32, index);
    let kind = r.below(3);
    let merge = ["(+ (min old new) 10)", "(+ (max old new) 10)", "(+ old new)"][kind];
    let eval = |a: i64, b: i64| match kind {
        0 => a.min(b) + 10,
        1 => a.max(b) + 10,
        _ => a + b,
    };
    let mut text = format!("(datatype S (K0) (K1) (F0 S))\n(function g (i64 i64) i64 :merge {merge})\n");
    if r.chance(1, 2) {
        text.push_str("(union (K0) (K1))\n(F0 (K0))\n");
    }
    let keys: Vec<(i64, i64)> = vec![(1, 2), (1, 3), (2, 2), (2, 3)];
    let lo = 3 + r.below(4) as i64;
    let hi = lo + 1 + r.below(5) as i64;
    let mut val: Vec<i64> = Vec::new();
    let twice = r.below(keys.len());
    let twice2 = if r.chance(1, 2) { Some(r.below(keys.len())) } else { None };
    for (k, (a, b)) in keys.iter().enumerate() {
        if k == twice || Some(k) == twice2 {
            let (x, y) = if r.chance(1, 2) { (lo, hi) } else { (hi, lo) };
            text.push_str(&format!("(set (g {a} {b}) {x})\n(set (g {a} {b}) {y})\n"));
            let mut v = eval(x, y);
            if r.chance(1, 3) {
                // a third write: nested MergeFn steps
                // (a write equal to the value stored at that moment is recorded finding P5: the
                // encoded engine skips it, the plain engine applies the non-idempotent merge)
                let mut z = hi + 1 + r.below(3) as i64;
                while z == v {
                    z += 1;
                }
                text.push_str(&format!("(set (g {a} {b}) {z})\n"));
                v = eval(v, z);
            }
            val.push(v);
        } else {
            let v = *r.pick(&[lo, lo, hi, lo + 20]);
            text.push_str(&format!("(set (g {a} {b}) {v})\n"));
            val.push(v);
        }
    }
    text.push_str("(run 1)\n");
    let fact = |k: usize, v: i64| format!("(= (g {} {}) {v})", keys[k].0, keys[k].1);
    let mut facts: Vec<Vec<String>> = Vec::new();
    // every key alone, the merged key with each other key, everything together, and false ones
    for k in 0..keys.len() {
        facts.push(vec![fact(k, val[k])]);
    }
    for k in 0..keys.len() {
        if k != twice {
            facts.push(vec![fact(twice, val[twice]), fact(k, val[k])]);
        }
    }
    facts.push((0..keys.len()).map(|k| fact(k, val[k])).collect());
    facts.push(vec![fact(twice, lo)]);
    facts.push(vec![fact(twice, val[twice]), fact((twice + 1) % keys.len(), val[(twice + 1) % keys.len()] + 1)]);
    (text, facts)
}

/// primitives in rule bodies and in proved facts whose arguments are constructor / function calls,
/// flat and NESTED (a function lookup inside a constructor inside a primitive): the proof normal
/// form must lift every call into its own fact before instrumentation
fn generate_primshape(seed: u64, index: u64) -> (String, Vec<Vec<String>>) {
    let mut r = Rng::for_case(seed ^ 0x9f1a, index);
    let merge = ["(max old new)", "(min old new)"][r.below(2)];
    let mut text = format!("(datatype M (Num i64) (Wrap M) (Pair M M))\n(function g (i64) i64 :merge {merge})\n(relation R (i64))\n(relation Out (i64))\n");
    let n = r.range(2, 4) as i64;
    let mut gv: Vec<i64> = Vec::new();
    for k in 1..=n {
        let v = r.range(1, 5) as i64;
        gv.push(v);
        text.push_str(&format!("(set (g {k}) {v})\n(R {k})\n(Num {k})\n(Num {v})\n(Wrap (Num {k}))\n(Wrap (Num {v}))\n"));
    }
    text.push_str("(Pair (Num 1) (Num 2))\n");
    let wrap = |t: String, d: usize| {
        let mut t = t;
        for _ in 0..d {
            t = format!("(Wrap {t})");
        }
        t
    };
    let prims = ["!=", "!=", "="];
    let nrules = r.range(2, 4);
    for i in 0..nrules {
        let c = r.range(1, 5) as i64;
        let d = r.below(2);
        let body = match r.below(6) {
            0 => format!("(R x) (!= {} {})", wrap("(Num x)".into(), d), wrap(format!("(Num {c})"), d)),
            1 => format!("(R x) (> (g x) {c})"),
            2 => format!("(R x) (< (g x) {c})"),
            // nested: a function lookup inside a constructor call under a primitive
            3 => format!("(R x) (!= {} {})", wrap("(Num x)".into(), d), wrap("(Num (g x))".into(), d)),
            4 => format!("(R x) (= y (g x)) ({} (Num y) (Num (g {})))", prims[r.below(3)], r.range(1, n as usize)),
            _ => format!("(R x) (!= (Pair (Num x) (Num (g x))) (Pair (Num (g x)) (Num x)))"),
        };
        text.push_str(&format!("(rule ({body}) ((Out (+ x {}))) :name \"ps{i}\")\n", 10 * (i + 1)));
    }
    text.push_str("(run 1)\n");
    let mut facts: Vec<Vec<String>> = Vec::new();
    for k in 1..=n {
        for i in 0..nrules {
            facts.push(vec![format!("(Out {})", k + 10 * (i as i64 + 1))]);
        }
        let v = gv[(k - 1) as usize];
        facts.push(vec![format!("(!= (Num {k}) (Num (g {k})))")]);
        facts.push(vec![format!("(!= (Wrap (Num {k})) (Wrap (Num (g {k}))))")]);
        facts.push(vec![format!("(> (g {k}) {})", v - 1)]);
        facts.push(vec![format!("(= (Num {v}) (Num (g {k})))")]);
        facts.push(vec![format!("(R {k})"), format!("(!= (Num {k}) (Num (g {k})))")]);
    }
    (text, facts)
}

fn main() {
    let o = verif_harness::parse_opts();
    // the engine's own panics are observations; keep the default hook quiet
    std::panic::set_hook(Box::new(|_| {}));
    let header = "From Coq Require Import List ZArith.\nImport ListNotations.\nRequire Import Verif.Base.Cases Verif.Egg.Model Verif.ProofChk.Checker.\n";
    let mut w = CaseWriter::new(&o.out, "cases_proofs", header, "check_case", 80);
    let mut st = Stats::default();
    let mut viols: Vec<Viol> = Vec::new();
    let max_muts = if o.thorough { 40 } else { 24 };
    let run_json = |path: &std::path::Path, st: &mut Stats, viols: &mut Vec<Viol>, w: &mut CaseWriter, origin: &str| {
        let v: serde_json::Value = serde_json::from_str(&std::fs::read_to_string(path).expect("replay file")).expect("json");
        let v = if v.get("program").is_some() { v } else { v["violation"]["input"].clone() };
        let text = v["program"].as_str().expect("program").to_string();
        let facts: Vec<Vec<String>> = v["facts"]
            .as_array()
            .expect("facts")
            .iter()
            .map(|f| {
                let s = f.as_str().unwrap();
                parse_top_level(s)
            })
            .collect();
        let mseed = v["mseed"].as_u64().unwrap_or(1);
        let before = viols.len();
        run_program(&text, &facts, mseed, 200, st, viols, w, origin);
        // a corpus witness of a recorded finding labels the violations it reproduces; generated
        // programs avoid the trigger, so the same symptom elsewhere keeps its generic key
        if let (Some(k), "corpus") = (v["finding_key"].as_str(), origin) {
            for x in viols[before..].iter_mut() {
                if !x.key.starts_with("prove-panic") && !x.key.starts_with("accepted-unjustified") {
                    x.key = k.to_string();
                }
            }
        }
    };
    if let Some(path) = &o.replay {
        run_json(std::path::Path::new(path), &mut st, &mut viols, &mut w, "replay");
    } else {
        let corpus = std::path::Path::new(env!("CARGO_MANIFEST_DIR")).join("../corpus/C12");
        let mut files: Vec<_> = std::fs::read_dir(&corpus).map(|rd| rd.flatten().map(|e| e.path()).collect()).unwrap_or_default();
        files.sort();
        for f in files {
            if f.extension().map(|e| e == "json").unwrap_or(false) {
                run_json(&f, &mut st, &mut viols, &mut w, "corpus");
            }
        }
        // functions of arity 2 with value-creating merges, several keys that differ in one input
        // column and carry equal values: proofs with MergeFn steps (link-only for the Gallina model)
        let nmerge = if o.thorough { 200 } else { 14 };
        for i in 0..nmerge {
            let (text, facts) = generate_merge2(o.seed, i as u64);
            bump(&mut st.prog_hist, "flavour:merge2");
            if o.extra.iter().any(|a| a == "--dump") {
                eprintln!(";; merge2 case {i}\n{text};; facts: {facts:?}");
            }
            run_program(&text, &facts, o.seed.wrapping_mul(7919) ^ i as u64, max_muts, &mut st, &mut viols, &mut w, "generated");
        }
        let nprim = if o.thorough { 150 } else { 10 };
        for i in 0..nprim {
            let (text, facts) = generate_primshape(o.seed, i as u64);
            bump(&mut st.prog_hist, "flavour:primshape");
            if o.extra.iter().any(|a| a == "--dump") {
                eprintln!(";; primshape case {i}\n{text};; facts: {facts:?}");
            }
            run_program(&text, &facts, o.seed.wrapping_mul(104729) ^ i as u64, max_muts, &mut st, &mut viols, &mut w, "generated");
        }
        let nprog = if o.thorough { 1500 } else { 90 };
        for i in 0..nprog {
            let (text, facts, fl) = generate(o.seed, i as u64);
            bump(&mut st.prog_hist, &format!("flavour:{fl}"));
            if o.extra.iter().any(|a| a == "--dump") {
                eprintln!(";; case {i} flavour {fl}\n{text};; facts: {facts:?}");
            }
            run_program(&text, &facts, o.seed.wrapping_mul(1000003) ^ i as u64, max_muts, &mut st, &mut viols, &mut w, "generated");
        }
    }
    w.flush();
    let vjson: Vec<String> = viols
        .iter()
        .take(20)
        .map(|v| {
            format!(
                "{{\"what\":{},\"key\":{},\"input\":{{\"program\":{},\"facts\":[{}],\"mseed\":{}}}}}",
                json_str(&v.what),
                json_str(&v.key),
                json_str(&v.program),
                v.facts.iter().map(|f| json_str(f)).collect::<Vec<_>>().join(","),
                v.mseed
            )
        })
        .collect();
    let hist = |m: &BTreeMap<String, usize>| serde_json::to_string(m).unwrap();
    let report = format!(
        "{{\"sub\":\"proofs\",\"cases\":{},\"shards\":{},\"distinct_nontrivial\":{},\"rule\":{},\"programs\":{},\"unsupported_programs\":{},\"facts\":{},\"proved\":{},\"not_proved\":{},\"rechecks\":{},\"alterations_rejected\":{},\"alterations_accepted_and_justified\":{},\"twin_unknown\":{},\"checker_stricter_than_twin\":{},\"coq_cases\":{},\"coq_skipped_unmodelled\":{},\"step_hist\":{},\"alteration_hist\":{},\"reject_hist\":{},\"fact_hist\":{},\"proofsize_hist\":{},\"program_hist\":{},\"samples\":[{}],\"violations\":[{}]}}\n",
        st.rechecks,
        w.shards,
        st.nontrivial,
        json_str("seeded programs (constructors, relations, unions, global lets, named rules, runs; 2/10 with subsume; 1/10 with lattice functions and primitives = link-only) accepted by the real program_supports_proofs; facts = equalities / relation facts over the program's ground terms chosen with known truth on a plain engine (about 5 true, 3 false, 2 conjunctions); per returned proof every rule and every top-level action is removed in turn and a sample of node mutations (swap Trans, Congr index, claimed lhs/rhs, substitution, dropped premise, re-pointed sub-proof) is applied; a case counts as non-trivial iff the proof has >= 3 nodes and at least one alteration was rejected; distinct by (program, fact)"),
        st.programs,
        st.unsupported,
        st.facts,
        st.proved,
        st.refuted,
        st.rechecks,
        st.rejected,
        st.accepted_mutants,
        st.twin_unknown,
        st.twin_stricter_than_checker,
        st.coq_cases,
        st.coq_skipped_unmodelled,
        hist(&st.step_hist),
        hist(&st.mut_hist),
        hist(&st.reject_hist),
        hist(&st.fact_hist),
        hist(&st.size_hist),
        hist(&st.prog_hist),
        st.samples.join(","),
        vjson.join(",")
    );
    std::fs::write(o.out.join("impl_report.json"), report).unwrap();
}

/// "(= a b) (R c)" -> ["(= a b)", "(R c)"]
fn parse_top_level(s: &str) -> Vec<String> {
    let mut out = Vec::new();
    let mut depth = 0i32;
    let mut cur = String::new();
    for ch in s.chars() {
        if ch == '(' {
            depth += 1;
        }
        if depth > 0 {
            cur.push(ch);
        }
        if ch == ')' {
            depth -= 1;
            if depth == 0 {
                out.push(cur.trim().to_string());
                cur.clear();
            }
        }
    }
    out
}
