(** Executable support for the definitions generated into gen/PureFns.v (translator module
    purefn.rs) and for the hand-written index models: usize / u32 arithmetic over [N], slices as
    [list N], Rust's [Result<usize, usize>].

    Arithmetic is CHECKED: [uadd] / [usub] return [Panic] where the Rust code would overflow /
    underflow a [usize] (a panic in debug builds, wrap-around followed by an out-of-bounds index in
    release builds); the theorems state [= Ok _], so "no overflow" is proved, not assumed. *)
From Coq Require Import List NArith Bool.
Import ListNotations.
Require Import Verif.Base.Res.
Local Open Scope N_scope.

(** [usize::MAX] on the 64-bit targets egglog is built for *)
Definition usize_max : N := 18446744073709551615.

(** Rust's [Result<usize, usize>] (constructors renamed: [Ok] is taken by [Res]) *)
Inductive UResult : Type :=
| ROk (i : N)
| RErr (i : N).

Definition uresult_eqb (a b : UResult) : bool :=
  match a, b with
  | ROk i, ROk j => i =? j
  | RErr i, RErr j => i =? j
  | _, _ => false
  end.

Definition ulen (s : list N) : N := N.of_nat (length s).

(** [s[i]] *)
Definition sl_get (s : list N) (i : N) : Res N :=
  match nth_error s (N.to_nat i) with
  | Some v => Ok v
  | None => Panic
  end.

(** [s[a..b]] : panics unless [a <= b <= len] *)
Definition sl_range (s : list N) (a b : N) : Res (list N) :=
  if (a <=? b) && (b <=? ulen s) then Ok (firstn (N.to_nat (b - a)) (skipn (N.to_nat a) s)) else Panic.

Definition uadd (a b : N) : Res N := if a + b <=? usize_max then Ok (a + b) else Panic.
Definition usub (a b : N) : Res N := if b <=? a then Ok (a - b) else Panic.
(** [a.saturating_mul(b)] *)
Definition usat_mul (a b : N) : N := N.min (a * b) usize_max.

(** (value, row id) pairs of the index builders *)
Definition vr : Type := (N * N)%type.

Definition vr_eqb (a b : vr) : bool := (fst a =? fst b) && (snd a =? snd b).

(** derived [Ord] of the Rust tuple: lexicographic *)
Definition vr_leb (a b : vr) : bool :=
  (fst a <? fst b) || ((fst a =? fst b) && (snd a <=? snd b)).

Definition ulen_vr (s : list vr) : N := N.of_nat (length s).
