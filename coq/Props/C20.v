(** C20 — Single-threaded runs are reproducible bit for bit.
    PARTIAL for this technique (see Det/Inventory.v header and DESIGN.md 8): the theorems are
    kernel-checked facts about the regenerated source inventory; address / hash-seed / clock
    independence of the real binary is decided by the correspondence harness only. *)
From Coq Require Import List String Bool.
Import ListNotations.
Require Import Verif.gen.SourceFacts Verif.Det.Inventory.

(** every hash-container type alias in non-test workspace code uses the fixed (unseeded) hasher *)
Theorem c20_aliases_use_fixed_hasher : forall f n h, In (f, n, h) hash_aliases -> h = HFx.
Proof. exact aliases_fixed_spec. Qed.
Print Assumptions c20_aliases_use_fixed_hasher.

(** the only non-test files that name the randomly seeded std hash containers are allow-listed *)
Theorem c20_std_hash_users_allowlisted : std_users_allowed = true.
Proof. exact std_users_allowed_true. Qed.
Print Assumptions c20_std_hash_users_allowlisted.

(** library hash containers with their default (randomly seeded) hasher are used exactly at the
    allow-listed sites (file, number of uses): a new use anywhere falsifies this *)
Theorem c20_default_hasher_sites_allowlisted : default_sites_allowed = true.
Proof. exact default_sites_allowed_true. Qed.
Print Assumptions c20_default_hasher_sites_allowlisted.

(** the inventory is not vacuous *)
Theorem c20_inventory_nonempty : hash_aliases <> [].
Proof. exact inventory_nonempty. Qed.
Print Assumptions c20_inventory_nonempty.
