(** C17: operation sequences over the translated union-find, and the executable observation
    function used by the correspondence check (no proofs here, so the model still runs when a
    proof breaks). *)
From Coq Require Import List Arith PeanoNat.
Import ListNotations.
Require Import Verif.Base.Res Verif.Base.Cases Verif.gen.UFSeq.

Inductive op := OUnion (a b : nat) | OFind (a : nat) | OReset.

(** fuel is supplied per step by the caller; the theorems say which fuel suffices *)
Definition fuel_for (p : list nat) (o : op) : nat :=
  match o with
  | OUnion a b => Nat.max (length p) (S (Nat.max a b))
  | OFind a => Nat.max (length p) (S a)
  | OReset => 0
  end.

Definition step (p : list nat) (o : op) : Res (list nat) :=
  match o with
  | OUnion a b => bind (union (fuel_for p o) p a b) (fun '(p', _) => Ok p')
  | OFind a => bind (find (fuel_for p o) p a) (fun '(p', _) => Ok p')
  | OReset => Ok (reset p)
  end.

Fixpoint run (p : list nat) (ops : list op) : Res (list nat) :=
  match ops with
  | [] => Ok p
  | o :: rest => bind (step p o) (fun p' => run p' rest)
  end.


(** observations: what the caller of the real structure sees *)
Definition step_obs (p : list nat) (o : op) : Res (list nat * list nat) :=
  match o with
  | OUnion a b => bind (union (fuel_for p o) p a b) (fun '(p', (x, y)) => Ok (p', [x; y]))
  | OFind a => bind (find (fuel_for p o) p a) (fun '(p', r) => Ok (p', [r]))
  | OReset => Ok (reset p, [])
  end.

Fixpoint run_obs (p : list nat) (ops : list op) : Res (list nat * list nat) :=
  match ops with
  | [] => Ok (p, [])
  | o :: rest =>
      bind (step_obs p o) (fun '(p', obs) =>
      bind (run_obs p' rest) (fun '(p'', obs') => Ok (p'', obs ++ obs')))
  end.

Fixpoint naive_all (p : list nat) (ids : list nat) : Res (list nat) :=
  match ids with
  | [] => Ok []
  | i :: tl => bind (find_naive (length p) p i) (fun r => bind (naive_all p tl) (fun rs => Ok (r :: rs)))
  end.

(** a case = (ops, n, expected): expected is the flattened list of results of every op followed by
    find_naive of 0..n-1 in the final state, as produced by the real implementation *)
Definition check_case (c : list op * nat * list nat) : bool :=
  let '(ops, n, expected) := c in
  match run_obs [] ops with
  | Ok (p, obs) =>
      match naive_all p (seq 0 n) with
      | Ok fin => list_eqb Nat.eqb (obs ++ fin) expected
      | _ => false
      end
  | _ => false
  end.
