(** C11: what the maintenance rules of the term encoding (Encoding/Templates.v) do.
    Part 1: the staged operations of every template rule, in both directions (every operation
    comes from rows of the stated form; rows of the stated form make the rule fire). *)
From Coq Require Import List Arith ZArith Bool PeanoNat Lia.
Import ListNotations.
Require Import Verif.Base.Res Verif.Egg.Model Verif.Egg.CCDefs
  Verif.Encoding.Datalog Verif.Encoding.DatalogFacts Verif.Encoding.Templates.

Definition ufE (d : db) (a b : val) : Prop := exists r, In r (gett d tUF) /\ dkey r = [a; b].
Definition uffE (d : db) (a b : val) : Prop := exists r, In r (gett d tUFf) /\ dkey r = [a] /\ dval r = b.
Definition viewE (d : db) (f : nat) (k : list val) : Prop := exists r, In r (gett d (tView f)) /\ dkey r = k.

Lemma val_eqb_refl v : val_eqb v v = true.
Proof. apply val_eqb_eq. reflexivity. Qed.

Lemma val_eqb_neq a b : a <> b -> val_eqb a b = false.
Proof. intros H. destruct (val_eqb a b) eqn:E; [apply val_eqb_eq in E; contradiction|reflexivity]. Qed.

Lemma negb_val_eqb_true a b : negb (val_eqb a b) = true -> a <> b.
Proof. intros H ->. rewrite val_eqb_refl in H. discriminate. Qed.

(* ------------------------------------------------------------------ __uf_update *)

Lemma uf_update_fired d ops o : rule_ops d r_uf_update = Ok ops -> In o ops ->
  (forall r, In r (gett d tUF) -> exists a b, dkey r = [a; b]) ->
  exists a b c, ufE d a b /\ ufE d b c /\ b <> c /\ (o = ODel tUF [a; b] \/ o = OSet tUF [a; c] unitv).
Proof.
  intros Hops Ho Hsh. destruct (rule_fired _ _ _ _ Hops Ho) as (e & os & Hs & Hg & Hi & Hin).
  cbn [r_uf_update rbody rguards racts] in *.
  inversion Hs as [|? ? (r1 & Hr1 & Hm1) Hs']; subst. inversion Hs' as [|? ? (r2 & Hr2 & Hm2) _]; subst.
  cbn [atab avars] in *. destruct (Hsh _ Hr1) as (a & b & Hk1). destruct (Hsh _ Hr2) as (b' & c & Hk2).
  unfold tuple in Hm1, Hm2. rewrite Hk1 in Hm1. rewrite Hk2 in Hm2. cbn [map app] in Hm1, Hm2.
  injection Hm1 as L0 L1 _. injection Hm2 as L1' L2 _. rewrite L1 in L1'. injection L1' as <-.
  cbn [guards_ok guard_ok eval_expr] in Hg. rewrite L1, L2 in Hg.
  cbn [inst_acts inst_act eval_exprs eval_expr] in Hi. rewrite L0, L1, L2 in Hi. injection Hi as <-.
  exists a, b, c. split; [exists r1; auto|]. split; [exists r2; auto|]. split.
  - apply negb_val_eqb_true. destruct (negb (val_eqb b c)); [reflexivity|discriminate].
  - destruct Hin as [<-|[<-|[]]]; auto.
Qed.

Lemma uf_update_fire d ops a b c : rule_ops d r_uf_update = Ok ops ->
  ufE d a b -> ufE d b c -> b <> c ->
  In (ODel tUF [a; b]) ops /\ In (OSet tUF [a; c] unitv) ops.
Proof.
  intros Hops (r1 & Hr1 & Hk1) (r2 & Hr2 & Hk2) Hne.
  set (F := fun x => match x with 0 => Some a | 1 => Some b | 2 => Some c
                               | 10 => Some (dval r1) | 11 => Some (dval r2) | _ => None end).
  assert (H : forall o, In o [ODel tUF [a; b]; OSet tUF [a; c] unitv] -> In o ops).
  { apply (rule_fire d r_uf_update ops F); [exact Hops| |].
    - cbn [r_uf_update rbody]. constructor; [|constructor; [|constructor]].
      + exists r1. split; [exact Hr1|]. unfold tuple. rewrite Hk1. reflexivity.
      + exists r2. split; [exact Hr2|]. unfold tuple. rewrite Hk2. reflexivity.
    - intros e He. cbn [r_uf_update rbody rguards racts body_vars flat_map avars app] in *.
      cbn [guards_ok guard_ok eval_expr inst_acts inst_act eval_exprs].
      rewrite (He 0), (He 1), (He 2) by (simpl; auto 10). cbn [F].
      rewrite (val_eqb_neq _ _ Hne). split; reflexivity. }
  split; apply H; simpl; auto.
Qed.

(* ------------------------------------------------------------------ singleparent__uf_update *)

Lemma single_parent_fired d ops o : rule_ops d r_single_parent = Ok ops -> In o ops ->
  (forall r, In r (gett d tUF) -> exists a b, dkey r = [VId a; VId b]) ->
  exists a b c, ufE d (VId a) (VId b) /\ ufE d (VId a) (VId c) /\ c < b /\
                (o = ODel tUF [VId a; VId b] \/ o = OSet tUF [VId b; VId c] unitv).
Proof.
  intros Hops Ho Hsh. destruct (rule_fired _ _ _ _ Hops Ho) as (e & os & Hs & Hg & Hi & Hin).
  cbn [r_single_parent rbody rguards racts] in *.
  inversion Hs as [|? ? (r1 & Hr1 & Hm1) Hs']; subst. inversion Hs' as [|? ? (r2 & Hr2 & Hm2) _]; subst.
  cbn [atab avars] in *. destruct (Hsh _ Hr1) as (a & b & Hk1). destruct (Hsh _ Hr2) as (a' & c & Hk2).
  unfold tuple in Hm1, Hm2. rewrite Hk1 in Hm1. rewrite Hk2 in Hm2. cbn [map app] in Hm1, Hm2.
  injection Hm1 as L0 L1 _. injection Hm2 as L0' L2 _. rewrite L0 in L0'. injection L0' as <-.
  cbn [guards_ok guard_ok eval_expr] in Hg. rewrite L1, L2 in Hg. cbn [vmax val_eqb] in Hg.
  cbn [inst_acts inst_act eval_exprs eval_expr] in Hi. rewrite L0, L1, L2 in Hi. injection Hi as <-.
  exists a, b, c. split; [exists r1; auto|]. split; [exists r2; auto|]. split.
  - destruct (Nat.eqb b c) eqn:E1; [discriminate|]. cbn [negb andb] in Hg. apply Nat.eqb_neq in E1.
    destruct (Nat.eqb (Nat.max b c) b) eqn:E2; [|discriminate]. apply Nat.eqb_eq in E2. lia.
  - destruct Hin as [<-|[<-|[]]]; auto.
Qed.

Lemma single_parent_fire d ops a b c : rule_ops d r_single_parent = Ok ops ->
  ufE d (VId a) (VId b) -> ufE d (VId a) (VId c) -> c < b ->
  In (ODel tUF [VId a; VId b]) ops /\ In (OSet tUF [VId b; VId c] unitv) ops.
Proof.
  intros Hops (r1 & Hr1 & Hk1) (r2 & Hr2 & Hk2) Hlt.
  set (F := fun x => match x with 0 => Some (VId a) | 1 => Some (VId b) | 2 => Some (VId c)
                               | 10 => Some (dval r1) | 11 => Some (dval r2) | _ => None end).
  assert (H : forall o, In o [ODel tUF [VId a; VId b]; OSet tUF [VId b; VId c] unitv] -> In o ops).
  { apply (rule_fire d r_single_parent ops F); [exact Hops| |].
    - cbn [r_single_parent rbody]. constructor; [|constructor; [|constructor]].
      + exists r1. split; [exact Hr1|]. unfold tuple. rewrite Hk1. reflexivity.
      + exists r2. split; [exact Hr2|]. unfold tuple. rewrite Hk2. reflexivity.
    - intros e He. cbn [r_single_parent rbody rguards racts body_vars flat_map avars app] in *.
      cbn [guards_ok guard_ok eval_expr inst_acts inst_act eval_exprs].
      rewrite (He 0), (He 1), (He 2) by (simpl; auto 10). cbn [F vmax val_eqb].
      replace (Nat.max b c) with b by lia. rewrite Nat.eqb_refl.
      destruct (Nat.eqb_spec b c) as [E|_]; [lia|]. split; reflexivity. }
  split; apply H; simpl; auto.
Qed.

(* ------------------------------------------------------------------ __uf_function_index *)

Lemma uf_index_fired d ops o : rule_ops d r_uf_index = Ok ops -> In o ops ->
  (forall r, In r (gett d tUF) -> exists a b, dkey r = [a; b]) ->
  exists a b, ufE d a b /\ o = OSet tUFf [a] b.
Proof.
  intros Hops Ho Hsh. destruct (rule_fired _ _ _ _ Hops Ho) as (e & os & Hs & Hg & Hi & Hin).
  cbn [r_uf_index rbody rguards racts] in *.
  inversion Hs as [|? ? (r1 & Hr1 & Hm1) _]; subst.
  cbn [atab avars] in *. destruct (Hsh _ Hr1) as (a & b & Hk1).
  unfold tuple in Hm1. rewrite Hk1 in Hm1. cbn [map app] in Hm1. injection Hm1 as L0 L1 _.
  cbn [inst_acts inst_act eval_exprs eval_expr] in Hi. rewrite L0, L1 in Hi. injection Hi as <-.
  exists a, b. split; [exists r1; auto|]. destruct Hin as [<-|[]]. reflexivity.
Qed.

Lemma uf_index_fire d ops a b : rule_ops d r_uf_index = Ok ops -> ufE d a b -> In (OSet tUFf [a] b) ops.
Proof.
  intros Hops (r1 & Hr1 & Hk1).
  set (F := fun x => match x with 0 => Some a | 1 => Some b | 10 => Some (dval r1) | _ => None end).
  apply (rule_fire d r_uf_index ops F [OSet tUFf [a] b]); [exact Hops| | |simpl; auto].
  - cbn [r_uf_index rbody]. constructor; [|constructor].
    exists r1. split; [exact Hr1|]. unfold tuple. rewrite Hk1. reflexivity.
  - intros e He. cbn [r_uf_index rbody rguards racts body_vars flat_map avars app] in *.
    cbn [guards_ok inst_acts inst_act eval_exprs eval_expr].
    rewrite (He 0), (He 1) by (simpl; auto 10). cbn [F]. split; reflexivity.
Qed.

(* ------------------------------------------------------------------ __congruence_rule *)

Lemma view_atom_split e n x y (cs : list val) (o v : val) :
  length cs = n ->
  map (lookup e) (seq 0 n ++ [x; y]) = map Some ((cs ++ [o]) ++ [v]) ->
  map (lookup e) (seq 0 n) = map Some cs /\ lookup e x = Some o /\ lookup e y = Some v.
Proof.
  intros Hl H. rewrite <- app_assoc in H. rewrite !map_app in H.
  apply app_eq_length_inv in H; [|rewrite !map_length, seq_length; auto].
  destruct H as [H1 H2]. cbn [map app] in H2. injection H2 as H2 H3. auto.
Qed.

Lemma congruence_fired d f n ops o : rule_ops d (r_congruence f n) = Ok ops -> In o ops ->
  (forall r, In r (gett d (tView f)) -> exists cs o, dkey r = cs ++ [VId o] /\ length cs = n) ->
  exists cs o1 o2, length cs = n /\ viewE d f (cs ++ [VId o1]) /\ viewE d f (cs ++ [VId o2]) /\ o2 < o1 /\
                   o = OSet tUF [VId o1; VId o2] unitv.
Proof.
  intros Hops Ho Hsh. destruct (rule_fired _ _ _ _ Hops Ho) as (e & os & Hs & Hg & Hi & Hin).
  cbn [r_congruence rbody rguards racts] in *.
  inversion Hs as [|? ? (r1 & Hr1 & Hm1) Hs']; subst. inversion Hs' as [|? ? (r2 & Hr2 & Hm2) _]; subst.
  cbn [atab avars] in *. destruct (Hsh _ Hr1) as (cs1 & o1 & Hk1 & Hl1). destruct (Hsh _ Hr2) as (cs2 & o2 & Hk2 & Hl2).
  unfold tuple in Hm1, Hm2. rewrite Hk1 in Hm1. rewrite Hk2 in Hm2.
  apply view_atom_split in Hm1; [|exact Hl1]. apply view_atom_split in Hm2; [|exact Hl2].
  destruct Hm1 as (Hc1 & Ln & _). destruct Hm2 as (Hc2 & LSn & _).
  rewrite Hc1 in Hc2. apply map_Some_inj in Hc2. subst cs2.
  cbn [guards_ok guard_ok eval_expr] in Hg. rewrite Ln, LSn in Hg. cbn [vmax val_eqb] in Hg.
  cbn [inst_acts inst_act eval_exprs eval_expr] in Hi. rewrite Ln, LSn in Hi. cbn [vmax vmin] in Hi. injection Hi as <-.
  assert (Hlt : o2 < o1).
  { destruct (Nat.eqb o2 o1) eqn:E1; [discriminate|]. cbn [negb andb] in Hg. apply Nat.eqb_neq in E1.
    destruct (Nat.eqb (Nat.max o2 o1) o1) eqn:E2; [|discriminate]. apply Nat.eqb_eq in E2. lia. }
  exists cs1, o1, o2. split; [exact Hl1|]. split; [exists r1; auto|]. split; [exists r2; auto|]. split; [exact Hlt|].
  destruct Hin as [<-|[]]. replace (Nat.max o1 o2) with o1 by lia. replace (Nat.min o1 o2) with o2 by lia. reflexivity.
Qed.

Lemma congruence_fire d f n ops cs o1 o2 : rule_ops d (r_congruence f n) = Ok ops ->
  length cs = n -> viewE d f (cs ++ [VId o1]) -> viewE d f (cs ++ [VId o2]) -> o2 < o1 ->
  In (OSet tUF [VId o1; VId o2] unitv) ops.
Proof.
  intros Hops Hl (r1 & Hr1 & Hk1) (r2 & Hr2 & Hk2) Hlt.
  set (F := fun x => if x <? n then Some (nth x cs unitv) else if x =? n then Some (VId o1)
                     else if x =? S n then Some (VId o2) else if x =? 2 * n + 2 then Some (dval r1)
                     else if x =? 2 * n + 3 then Some (dval r2) else None).
  assert (Fcs : map F (seq 0 n) = map Some cs).
  { rewrite <- Hl. apply (map_seq_nth F unitv). intros i Hi. cbn [Nat.add]. unfold F.
    destruct (Nat.ltb_spec i n); [reflexivity|lia]. }
  assert (Fn : F n = Some (VId o1)).
  { unfold F. rewrite Nat.ltb_irrefl, Nat.eqb_refl. reflexivity. }
  assert (FSn : F (S n) = Some (VId o2)).
  { unfold F. destruct (Nat.ltb_spec (S n) n); [lia|]. destruct (Nat.eqb_spec (S n) n); [lia|].
    rewrite Nat.eqb_refl. reflexivity. }
  assert (F2 : F (2 * n + 2) = Some (dval r1)).
  { unfold F. destruct (Nat.ltb_spec (2 * n + 2) n); [lia|]. destruct (Nat.eqb_spec (2 * n + 2) n); [lia|].
    destruct (Nat.eqb_spec (2 * n + 2) (S n)); [lia|]. rewrite Nat.eqb_refl. reflexivity. }
  assert (F3 : F (2 * n + 3) = Some (dval r2)).
  { unfold F. destruct (Nat.ltb_spec (2 * n + 3) n); [lia|]. destruct (Nat.eqb_spec (2 * n + 3) n); [lia|].
    destruct (Nat.eqb_spec (2 * n + 3) (S n)); [lia|]. destruct (Nat.eqb_spec (2 * n + 3) (2 * n + 2)); [lia|].
    rewrite Nat.eqb_refl. reflexivity. }
  apply (rule_fire d (r_congruence f n) ops F [OSet tUF [VId o1; VId o2] unitv]); [exact Hops| | |simpl; auto].
  - cbn [r_congruence rbody]. constructor; [|constructor; [|constructor]].
    + exists r1. split; [exact Hr1|]. cbn [avars]. unfold tuple. rewrite Hk1, <- app_assoc, !map_app, Fcs.
      cbn [map app]. rewrite Fn, F2. reflexivity.
    + exists r2. split; [exact Hr2|]. cbn [avars]. unfold tuple. rewrite Hk2, <- app_assoc, !map_app, Fcs.
      cbn [map app]. rewrite FSn, F3. reflexivity.
  - intros e He. cbn [r_congruence rbody rguards racts] in *.
    assert (Ln : lookup e n = F n).
    { apply He. unfold body_vars. cbn [flat_map avars]. rewrite !in_app_iff. left. right. simpl. auto. }
    assert (LSn : lookup e (S n) = F (S n)).
    { apply He. unfold body_vars. cbn [flat_map avars]. rewrite !in_app_iff. right. left. right. simpl. auto. }
    cbn [guards_ok guard_ok eval_expr inst_acts inst_act eval_exprs].
    rewrite Ln, LSn, Fn, FSn. cbn [vmax vmin val_eqb].
    replace (Nat.max o2 o1) with o1 by lia. replace (Nat.max o1 o2) with o1 by lia.
    replace (Nat.min o1 o2) with o2 by lia. rewrite Nat.eqb_refl.
    destruct (Nat.eqb_spec o2 o1); [lia|]. split; reflexivity.
Qed.

(* ------------------------------------------------------------------ __rebuild_rule *)

Definition Rleader (d : db) (v v' : val) : Prop := v' = v \/ uffE d v v'.

Local Opaque seq Nat.mul.

Lemma eq_cols_range : forall cols i j, In j (eq_cols cols i) -> i <= j < i + length cols.
Proof.
  induction cols as [|b tl IH]; intros i j H; cbn [eq_cols] in H; [destruct H|].
  apply in_app_or in H. destruct H as [H|H].
  - destruct b; [destruct H as [<-|[]]; cbn [length]; lia|destruct H].
  - apply IH in H. cbn [length]. lia.
Qed.

Lemma new_cols_rel d e n : forall cols i k k',
  map (lookup e) (seq i (length cols)) = map Some k ->
  (forall j, In j (eq_cols cols i) -> exists a b, lookup e j = Some a /\ lookup e (lead n j) = Some b /\ uffE d a b) ->
  eval_exprs e (new_cols n cols i) = Some k' -> Forall2 (Rleader d) k k'.
Proof.
  induction cols as [|b tl IH]; intros i k k' Hk Heq Hev; cbn [length seq map new_cols eval_exprs] in *.
  - destruct k; [|discriminate]. injection Hev as <-. constructor.
  - destruct k as [|v ktl]; [discriminate|]. cbn [map] in Hk. injection Hk as Hv Hk.
    destruct (eval_expr e (if b then EVar (lead n i) else EVar i)) as [v'|] eqn:E1; [|discriminate].
    destruct (eval_exprs e (new_cols n tl (S i))) as [k'tl|] eqn:E2; [|discriminate].
    injection Hev as <-. constructor.
    + destruct b; cbn [eval_expr] in E1.
      * destruct (Heq i) as (a & b0 & La & Lb & Hu); [cbn [eq_cols]; simpl; auto|].
        rewrite Hv in La. injection La as <-. rewrite E1 in Lb. injection Lb as <-. right. exact Hu.
      * rewrite Hv in E1. injection E1 as <-. left. reflexivity.
    + eapply IH; [exact Hk| |exact E2]. intros j Hj. apply Heq. cbn [eq_cols]. apply in_or_app. right. exact Hj.
Qed.

Lemma rebuild_fired d f kinds ops o : rule_ops d (r_rebuild f kinds) = Ok ops -> In o ops ->
  (forall r, In r (gett d (tView f)) -> length (dkey r) = S (length kinds)) ->
  (forall r, In r (gett d tUFf) -> exists a, dkey r = [a]) ->
  exists k k', viewE d f k /\ Forall2 (Rleader d) k k' /\ (o = OSet (tView f) k' unitv \/ o = ODel (tView f) k).
Proof.
  intros Hops Ho Hshv Hshu. destruct (rule_fired _ _ _ _ Hops Ho) as (e & os & Hs & Hg & Hi & Hin).
  cbn [r_rebuild rbody rguards racts] in *. set (n := length kinds) in *.
  inversion Hs as [|? ? (r & Hr & Hm) Hs']; subst. cbn [atab avars] in *.
  unfold tuple in Hm. rewrite !map_app in Hm.
  apply app_eq_length_inv in Hm; [|rewrite !map_length, seq_length; rewrite (Hshv _ Hr); reflexivity].
  destruct Hm as [Hk _].
  cbn [inst_acts inst_act] in Hi.
  destruct (eval_exprs e (new_cols n (kinds ++ [true]) 0)) as [k'|] eqn:E1; [|discriminate].
  cbn [eval_expr] in Hi.
  destruct (eval_exprs e (map EVar (seq 0 (S n)))) as [k2|] eqn:E2; [|discriminate].
  injection Hi as <-. apply eval_exprs_vars in E2. rewrite Hk in E2. apply map_Some_inj in E2. subst k2.
  exists (dkey r), k'. split; [exists r; auto|]. split.
  - apply (new_cols_rel d e n (kinds ++ [true]) 0); [rewrite app_length, Nat.add_comm; exact Hk| |exact E1].
    intros j Hj. rewrite Forall_forall in Hs'.
    destruct (Hs' (mkAtom tUFf [j; lead n j])) as (r' & Hr' & Hm'); [apply in_map_iff; exists j; auto|].
    cbn [atab avars] in *. destruct (Hshu _ Hr') as (a & Ha). unfold tuple in Hm'. rewrite Ha in Hm'.
    cbn [map app] in Hm'. injection Hm' as L1 L2. exists a, (dval r'). split; [exact L1|]. split; [exact L2|].
    exists r'. auto.
  - destruct Hin as [<-|[<-|[]]]; auto.
Qed.

Lemma any_neq_true e : forall l,
  (forall a b, In (a, b) l -> exists x y, eval_expr e a = Some x /\ eval_expr e b = Some y) ->
  (exists a b x y, In (a, b) l /\ eval_expr e a = Some x /\ eval_expr e b = Some y /\ x <> y) ->
  any_neq e l = Some true.
Proof.
  induction l as [|[a b] tl IH]; intros Hall Hex; [destruct Hex as (a & b & x & y & [] & _)|].
  cbn [any_neq]. destruct (Hall a b) as (x & y & Ea & Eb); [left; reflexivity|]. rewrite Ea, Eb.
  assert (Htl : exists r, any_neq e tl = Some r).
  { clear IH Hex. induction tl as [|[a' b'] tl' IH']; [eexists; reflexivity|]. cbn [any_neq].
    destruct (Hall a' b') as (x' & y' & Ea' & Eb'); [right; left; reflexivity|]. rewrite Ea', Eb'.
    destruct IH' as [r Hr]; [intros a0 b0 [E|H]; apply Hall; [left; exact E|right; right; exact H]|].
    rewrite Hr. eexists. reflexivity. }
  destruct (val_eqb x y) eqn:Exy.
  - destruct Hex as (a' & b' & x' & y' & [E|Hin] & Ea' & Eb' & Hne).
    + injection E as <- <-. rewrite Ea in Ea'. rewrite Eb in Eb'. injection Ea' as <-. injection Eb' as <-.
      apply val_eqb_eq in Exy. contradiction.
    + rewrite IH; [reflexivity| |exists a', b', x', y'; auto].
      intros a0 b0 H. apply Hall. right. exact H.
  - destruct Htl as [r ->]. reflexivity.
Qed.

Lemma new_cols_defined e n : forall cols i,
  (forall j, i <= j < i + length cols -> lookup e j <> None) ->
  (forall j, In j (eq_cols cols i) -> lookup e (lead n j) <> None) ->
  exists k', eval_exprs e (new_cols n cols i) = Some k'.
Proof.
  induction cols as [|b tl IH]; intros i H1 H2; cbn [new_cols eval_exprs]; [eexists; reflexivity|].
  destruct (IH (S i)) as (ktl & Hk).
  - intros j Hj. apply H1. cbn [length]. lia.
  - intros j Hj. apply H2. cbn [eq_cols]. apply in_or_app. right. exact Hj.
  - rewrite Hk. destruct b; cbn [eval_expr].
    + destruct (lookup e (lead n i)) eqn:E; [eexists; reflexivity|]. exfalso. apply (H2 i); [cbn [eq_cols]; simpl; auto|exact E].
    + destruct (lookup e i) eqn:E; [eexists; reflexivity|]. exfalso. apply (H1 i); [cbn [length]; lia|exact E].
Qed.

Lemma rebuild_fire d f kinds ops k ls : rule_ops d (r_rebuild f kinds) = Ok ops ->
  viewE d f k -> length k = S (length kinds) ->
  (forall i, In i (eq_cols (kinds ++ [true]) 0) -> uffE d (nth i k unitv) (nth i ls unitv)) ->
  (exists i, In i (eq_cols (kinds ++ [true]) 0) /\ nth i k unitv <> nth i ls unitv) ->
  In (ODel (tView f) k) ops.
Proof.
  intros Hops (r & Hr & Hkr) Hlen Hu (i0 & Hi0 & Hne). set (n := length kinds) in *.
  set (F := fun x => if x <? S n then Some (nth x k unitv)
                     else if x <? 2 * n + 2 then Some (nth (x - (n + 1)) ls unitv) else Some (dval r)).
  assert (Fk : map F (seq 0 (S n)) = map Some k).
  { rewrite <- Hlen. apply (map_seq_nth F unitv). intros i Hi. cbn [Nat.add]. unfold F.
    destruct (Nat.ltb_spec i (S n)); [reflexivity|lia]. }
  assert (Flow : forall j, j < S n -> F j = Some (nth j k unitv)).
  { intros j Hj. unfold F. destruct (Nat.ltb_spec j (S n)); [reflexivity|lia]. }
  assert (Flead : forall j, j < S n -> F (lead n j) = Some (nth j ls unitv)).
  { intros j Hj. unfold F, lead. destruct (Nat.ltb_spec (n + 1 + j) (S n)); [lia|].
    destruct (Nat.ltb_spec (n + 1 + j) (2 * n + 2)); [|lia]. f_equal. f_equal. lia. }
  assert (Hrange : forall j, In j (eq_cols (kinds ++ [true]) 0) -> j < S n).
  { intros j Hj. apply eq_cols_range in Hj. rewrite app_length in Hj. cbn [length] in Hj. fold n in Hj. lia. }
  apply (rule_fire1 d (r_rebuild f kinds) ops F).
  - exact Hops.
  - cbn [r_rebuild rbody]. fold n. constructor.
    + exists r. split; [exact Hr|]. cbn [avars]. unfold tuple. rewrite Hkr, !map_app, Fk. cbn [map]. f_equal.
      unfold F. destruct (Nat.ltb_spec (2 * n + 2) (S n)); [lia|]. destruct (Nat.ltb_spec (2 * n + 2) (2 * n + 2)); [lia|reflexivity].
    + apply Forall_forall. intros a Ha. apply in_map_iff in Ha. destruct Ha as (j & <- & Hj).
      destruct (Hu j Hj) as (r' & Hr' & Hk' & Hv'). exists r'. split; [exact Hr'|]. cbn [avars map].
      unfold tuple. rewrite Hk', Hv'. cbn [app map]. rewrite (Flow j), (Flead j) by (apply Hrange; exact Hj). reflexivity.
  - intros e He. cbn [r_rebuild rbody rguards racts] in *. fold n in He |- *.
    assert (Llow : forall j, j < S n -> lookup e j = F j).
    { intros j Hj. apply He. unfold body_vars. cbn [flat_map avars]. apply in_or_app. left. apply in_or_app. left.
      apply in_seq. lia. }
    assert (Llead : forall j, In j (eq_cols (kinds ++ [true]) 0) -> lookup e (lead n j) = F (lead n j)).
    { intros j Hj. apply He. unfold body_vars. cbn [flat_map]. apply in_or_app. right.
      apply in_flat_map. exists (mkAtom tUFf [j; lead n j]). split; [apply in_map_iff; exists j; auto|simpl; auto]. }
    split.
    + cbn [guards_ok guard_ok]. rewrite any_neq_true; [reflexivity| |].
      * intros a b Hab. apply in_map_iff in Hab. destruct Hab as (j & E & Hj). injection E as <- <-.
        cbn [eval_expr]. rewrite (Llow j), (Llead j Hj), (Flow j), (Flead j) by (try apply Hrange; auto). eauto.
      * exists (EVar i0), (EVar (lead n i0)), (nth i0 k unitv), (nth i0 ls unitv).
        split; [apply in_map_iff; exists i0; auto|]. cbn [eval_expr].
        rewrite (Llow i0), (Llead i0 Hi0), (Flow i0), (Flead i0) by (try apply Hrange; auto). auto.
    + cbn [inst_acts inst_act eval_expr].
      destruct (new_cols_defined e n (kinds ++ [true]) 0) as (k' & Ek').
      * intros j Hj. rewrite app_length in Hj. cbn [length] in Hj. fold n in Hj. rewrite Llow, Flow by lia. discriminate.
      * intros j Hj. rewrite (Llead j Hj), Flead by (apply Hrange; exact Hj). discriminate.
      * rewrite Ek'.
        assert (E2 : eval_exprs e (map EVar (seq 0 (S n))) = Some k).
        { apply eval_exprs_vars. rewrite <- Fk. apply map_ext_in. intros j Hj. apply in_seq in Hj. apply Llow. lia. }
        rewrite E2. eexists. split; [reflexivity|]. simpl. auto.
Qed.

(* ------------------------------------------------------------------ __delete_rule *)

Lemma delete_fired d f n ops o : rule_ops d (r_delete f n) = Ok ops -> In o ops -> gett d (tDel f) = [] -> False.
Proof.
  intros Hops Ho Hd. destruct (rule_fired _ _ _ _ Hops Ho) as (e & os & Hs & _).
  cbn [r_delete rbody] in Hs. inversion Hs as [|? ? (r & Hr & _) _]; subst. cbn [atab] in Hr.
  rewrite Hd in Hr. destruct Hr.
Qed.
