"""C02 configuration for bin/check."""

CFG = {
        "tier_a": [],
        "model_targets": ["Query/PlanOk.vo"],
        "proof_targets": ["Props/C02.vo"],
        "harness": [{"bin": "h_plans", "prefix": "cases_plans"}],
        "trusted": [
            "Tier A' (per-instance certification): the query planner (free_join/plan.rs, ~1650 lines) is NOT modelled; hook H1 (cfg egglog_verif, core-relations/src/verif_hook.rs) dumps every compiled Plan and the harness writes each single-bag plan with the query it built as a Coq term; the kernel decides plan_ok on each (cases_plans_*.v); c02_plan_sound then covers all databases and all run-time stage orders for that plan",
            "hand-written stage machine coq/Query/Stages.v for JoinStage::Intersect / FusedIntersect as run by free_join/execute.rs (trie-join state = binding + remaining rows per atom, header pre-filters, dynamic order oracle); tied to the executor by the h_plans correspondence: on a sample of cases the kernel evaluates the spec matcher and the stage machine under 4 order oracles on the dumped plan and database and compares both with the rows the real engine produced",
            "the H1 dump (plan -> JSON) and the harness's JSON -> Gallina printing are trusted to transcribe the Plan faithfully (atoms' tables, header constraints, scans, bind lists, key positions)",
        ],
        "theorem_backed": "for every conjunctive query q (atoms over relations with variable / constant arguments, repeated variables, per-atom column constraints Eq/EqConst/Lt/Gt/Le/Ge - the subsume-column constant and semi-naive timestamp bounds are such constraints) and every single-bag plan p made of Intersect and FusedIntersect stages with headers: if plan_ok q p = true then for EVERY database and EVERY run-time order oracle (any permutation, chosen per branch) the stage machine emits exactly the nested-loop matches of q, as sets of substitutions restricted to the variables the plan binds (which include all variables the actions read); hence any two accepted plans of one query (different strategies / orders) fire identically. The nested-loop matcher is characterised by witness rows (sound and complete). plan_ok was evaluated by the kernel on every single-bag plan the real planner produced in this run (Gj, MinCover, PureSize; see plans_certified_by_plan_ok)",
        "link_only": "Decomposed (multi-bag, FusedIntersectMat / materialised messages) plans are NOT certified: they are only compared end-to-end (engine output vs nested-loop matcher) and counted (plans_uncertified_link_only, uncertified_breakdown, bags_hist). Also link-only: the lowering from egglog rules to core-relations queries (canonicalize, remove_dup_vars; exercised through the egglog-text differential test incl. primitive guards and :no-decomp), index implementations (cached / sparse / dynamic indexes, trie-node sharing), leaf-scan factorisation (binding_sets), morsel parallelism, the vectorised action execution, re-instantiation of cached plans with timestamp constraints (C03)",
        "assumptions": [
            "values and columns are unbounded nat; rows have the arity of their table (columns out of range read as 0 in both the specification and the stage machine)",
            "a table is a set of rows fixed for the duration of the run (the engine freezes tables while rules run); stale rows are not modelled",
            "the executor's leaf-scan optimisation (a FusedIntersect whose atom no later stage touches yields its rows as a factorised set) is modelled as plain iteration",
        ],
    }
