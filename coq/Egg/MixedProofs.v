(** C01 over mixed signatures (constructors + relations + lattice / old / new / no-merge
    functions): the constructor part [proj sg s] of every state a program of the fragment
    [prog_mixed_okb] passes through is the result of a well-formed TERM-LEVEL history run over
    constructor tables — non-constructor tables never stage a union (in [set] or in [rebuild]),
    so every pass of the mixed rebuild loop is, on the constructor part, the pass of the
    constructor-only loop. Hence the C01 theorems of [Egg/CC.v] (sound, complete w.r.t. the
    congruence closure of the unions performed) hold for constructor terms in every visited
    state. *)
From Coq Require Import List Arith Lia PeanoNat Bool ZArith.
Import ListNotations.
Require Import Verif.Base.Res Verif.gen.UFSeq Verif.gen.MergeArms Verif.UF.Seq Verif.Egg.Model.
Require Import Verif.Egg.Rules Verif.Egg.CmdOk Verif.Egg.RepFacts Verif.Egg.CCDefs Verif.Egg.Rebuild
  Verif.Egg.CC Verif.Egg.RulesProofs Verif.Egg.Mixed.

(* ------------------------------------------------------------------ *)
(** * projection of the tables *)

Lemma ptabs_nil ts : ptabs [] ts = ts.
Proof. destruct ts; reflexivity. Qed.

Lemma is_ctor_nil f : is_ctor [] f = true.
Proof. unfold is_ctor. destruct f; reflexivity. Qed.

Lemma get_tab_ptabs : forall sg ts f,
  get_tab (ptabs sg ts) f = if is_ctor sg f then get_tab ts f else [].
Proof.
  induction sg as [|m sg IH]; intros ts f.
  - rewrite ptabs_nil, is_ctor_nil. reflexivity.
  - destruct ts as [|t tl].
    + cbn [ptabs]. unfold get_tab. destruct f; destruct (is_ctor _ _); reflexivity.
    + cbn [ptabs]. destruct f as [|f].
      * unfold get_tab, is_ctor. cbn [nth]. destruct (is_ctor_m m); reflexivity.
      * unfold get_tab, is_ctor in *. cbn [nth]. apply IH.
Qed.

Lemma length_ptabs : forall sg ts, length (ptabs sg ts) = length ts.
Proof.
  induction sg as [|m sg IH]; intros ts; [rewrite ptabs_nil; reflexivity|].
  destruct ts as [|t tl]; cbn [ptabs length]; [reflexivity|]. rewrite IH. reflexivity.
Qed.

Lemma ptabs_set_ctor : forall sg ts f t, is_ctor sg f = true ->
  ptabs sg (set_tab ts f t) = set_tab (ptabs sg ts) f t.
Proof.
  induction sg as [|m sg IH]; intros ts f t H; [rewrite !ptabs_nil; reflexivity|].
  destruct ts as [|t0 tl]; [destruct f; reflexivity|].
  destruct f as [|f]; cbn [set_tab ptabs].
  - unfold is_ctor in H. cbn [nth] in H. rewrite H. reflexivity.
  - f_equal. apply IH. exact H.
Qed.

Lemma ptabs_set_non : forall sg ts f t, is_ctor sg f = false ->
  ptabs sg (set_tab ts f t) = ptabs sg ts.
Proof.
  induction sg as [|m sg IH]; intros ts f t H; [rewrite is_ctor_nil in H; discriminate|].
  destruct ts as [|t0 tl]; [destruct f; reflexivity|].
  destruct f as [|f]; cbn [set_tab ptabs].
  - unfold is_ctor in H. cbn [nth] in H. rewrite H. reflexivity.
  - f_equal. apply IH. exact H.
Qed.

(* ------------------------------------------------------------------ *)
(** * term insertion and evaluation of constructor terms only see the constructor part *)

Lemma add_node_proj sg s f vs : is_ctor sg f = true ->
  add_node (proj sg s) f vs = (proj sg (fst (add_node s f vs)), snd (add_node s f vs)).
Proof.
  intros H. unfold add_node. cbn [proj tabs uf wit]. rewrite get_tab_ptabs, H.
  destruct (tab_lookup (get_tab (tabs s) f) vs) as [r|]; cbn [fst snd]; [reflexivity|].
  unfold proj. cbn [uf tabs wit]. rewrite ptabs_set_ctor by exact H. reflexivity.
Qed.

Lemma add_terms_proj_of sg n l :
  Forall (fun t => forall s, cterm_okb sg n t = true ->
            add_term (proj sg s) t = (proj sg (fst (add_term s t)), snd (add_term s t))) l ->
  forall s, forallb (cterm_okb sg n) l = true ->
    CCDefs.add_terms (proj sg s) l = (proj sg (fst (CCDefs.add_terms s l)), snd (CCDefs.add_terms s l)).
Proof.
  induction 1 as [|x tl Hx Htl IH]; intros s Hok; cbn [CCDefs.add_terms]; [reflexivity|].
  cbn [forallb] in Hok. apply andb_true_iff in Hok. destruct Hok as [Hokx Hoktl].
  rewrite (Hx s Hokx). destruct (add_term s x) as [s1 v]. cbn [fst snd].
  rewrite (IH s1 Hoktl). destruct (CCDefs.add_terms s1 tl) as [s2 vs]. reflexivity.
Qed.

Lemma add_term_proj sg n : forall t s, cterm_okb sg n t = true ->
  add_term (proj sg s) t = (proj sg (fst (add_term s t)), snd (add_term s t)).
Proof.
  induction t as [z|f l IH] using term_ind'; intros s Hok; [reflexivity|].
  rewrite !add_term_T. cbn [cterm_okb] in Hok. apply andb_true_iff in Hok. destruct Hok as [Hok Hl].
  apply andb_true_iff in Hok. destruct Hok as [_ Hc].
  rewrite (add_terms_proj_of sg n l IH s Hl). destruct (CCDefs.add_terms s l) as [s1 vs]. cbn [fst snd].
  apply add_node_proj. exact Hc.
Qed.

Lemma add_terms_proj sg n l s : forallb (cterm_okb sg n) l = true ->
  CCDefs.add_terms (proj sg s) l = (proj sg (fst (CCDefs.add_terms s l)), snd (CCDefs.add_terms s l)).
Proof.
  apply add_terms_proj_of. apply Forall_forall. intros t _ s'. apply add_term_proj.
Qed.

Lemma eval_proj sg n s : forall t, cterm_okb sg n t = true -> eval (proj sg s) t = eval s t.
Proof.
  induction t as [z|f l IH] using term_ind'; intros Hok; [reflexivity|].
  rewrite !eval_T. cbn [cterm_okb] in Hok. apply andb_true_iff in Hok. destruct Hok as [Hok Hl].
  apply andb_true_iff in Hok. destruct Hok as [_ Hc].
  assert (E : evals (proj sg s) l = evals s l).
  { clear Hc. induction l as [|x tl IHl]; [reflexivity|]. cbn [evals].
    inversion IH as [|x' tl' Hx Htl]; subst. cbn [forallb] in Hl. apply andb_true_iff in Hl.
    destruct Hl as [Hokx Hoktl]. rewrite (Hx Hokx), (IHl Htl Hoktl). reflexivity. }
  rewrite E. cbn [proj tabs]. rewrite get_tab_ptabs, Hc. reflexivity.
Qed.

(* ------------------------------------------------------------------ *)
(** * non-constructor tables never stage a union *)

Lemma merge_vals_non m cur new : is_ctor_m m = false -> snd (fst (merge_vals m cur new)) = [].
Proof. intros H. destruct m; try discriminate; destruct cur, new; reflexivity. Qed.

Lemma tab_insert_non m r : is_ctor_m m = false -> forall t, snd (fst (tab_insert m t r)) = [].
Proof.
  intros H. induction t as [|r0 tl IH]; cbn [tab_insert]; [reflexivity|].
  destruct (vals_eqb (rargs r0) (rargs r)).
  - pose proof (merge_vals_non m (rret r0) (rret r) H) as E.
    destruct (merge_vals m (rret r0) (rret r)) as [[v us] e]. exact E.
  - destruct (tab_insert m tl r) as [[tl' us] e]. exact IH.
Qed.

Lemma rebuild_rows_non p m : is_ctor_m m = false -> forall rows acc,
  snd (fst (rebuild_rows p m rows acc)) = [].
Proof.
  intros H. induction rows as [|r tl IH]; intros acc; cbn [rebuild_rows]; [reflexivity|].
  pose proof (tab_insert_non m (canon_row p r) H acc) as E1.
  destruct (tab_insert m acc (canon_row p r)) as [[acc' us] e]. cbn [fst snd] in E1. subst us.
  specialize (IH acc'). destruct (rebuild_rows p m tl acc') as [[acc'' us'] e']. cbn [fst snd] in *.
  subst us'. reflexivity.
Qed.

(** one pass over all tables: the constructor part of the result and the staged unions are those
    of the constructor-only pass over the constructor part *)
Lemma rebuild_tabs_proj p : forall ts sg,
  fst (fst (rebuild_tabs p [] (ptabs sg ts))) = ptabs sg (fst (fst (rebuild_tabs p sg ts))) /\
  snd (fst (rebuild_tabs p [] (ptabs sg ts))) = snd (fst (rebuild_tabs p sg ts)).
Proof.
  induction ts as [|t tl IH]; intros sg.
  - destruct sg; cbn; auto.
  - destruct sg as [|m sg].
    + rewrite !ptabs_nil. auto.
    + cbn [ptabs rebuild_tabs]. specialize (IH sg).
      destruct (rebuild_tabs p [] (ptabs sg tl)) as [[ptl' pus'] pe'].
      destruct (rebuild_tabs p sg tl) as [[tl' us'] e']. cbn [fst snd] in IH. destruct IH as [-> ->].
      destruct (is_ctor_m m) eqn:Em.
      * destruct m; try discriminate.
        destruct (rebuild_rows p MUnionId t []) as [[t' us] e]. cbn [fst snd ptabs is_ctor_m]. auto.
      * pose proof (rebuild_rows_non p m Em t []) as E.
        destruct (rebuild_rows p m t []) as [[t' us] e]. cbn [fst snd] in E. subst us.
        cbn [rebuild_rows fst snd ptabs app]. auto.
Qed.

Lemma rebuild_pass_proj sg s :
  match rebuild_pass sg s with
  | Ok (s', more, _) => exists e', rebuild_pass [] (proj sg s) = Ok (proj sg s', more, e')
  | Panic => rebuild_pass [] (proj sg s) = Panic
  | OutOfFuel => rebuild_pass [] (proj sg s) = OutOfFuel
  end.
Proof.
  unfold rebuild_pass. cbn [proj uf tabs wit].
  destruct (rebuild_tabs_proj (uf s) (tabs s) sg) as [E1 E2].
  destruct (rebuild_tabs (uf s) [] (ptabs sg (tabs s))) as [[pts' pus] pe].
  destruct (rebuild_tabs (uf s) sg (tabs s)) as [[ts' us] e]. cbn [fst snd] in *. subst pts' pus.
  destruct (uf_unions (uf s) us) as [p'| |]; cbn [bind]; eauto.
Qed.

Lemma rebuild_proj sg : forall fuel s,
  match rebuild fuel sg s with
  | Ok (s', _) => exists e', rebuild fuel [] (proj sg s) = Ok (proj sg s', e')
  | Panic => rebuild fuel [] (proj sg s) = Panic
  | OutOfFuel => rebuild fuel [] (proj sg s) = OutOfFuel
  end.
Proof.
  induction fuel as [|fuel IH]; intros s; cbn [rebuild]; [reflexivity|].
  pose proof (rebuild_pass_proj sg s) as HP.
  destruct (rebuild_pass sg s) as [[[s1 more] e1]| |]; cbn [bind].
  - destruct HP as (e1' & ->). cbn [bind]. destruct more; [|eauto].
    specialize (IH s1). destruct (rebuild fuel sg s1) as [[s2 e2]| |]; cbn [bind].
    + destruct IH as (e2' & ->). cbn [bind]. eauto.
    + rewrite IH. reflexivity.
    + rewrite IH. reflexivity.
  - rewrite HP. reflexivity.
  - rewrite HP. reflexivity.
Qed.

(** a term-level command over constructor terms: the mixed [exec] is, on the constructor part,
    the constructor-only [exec] (same result kind) *)
Lemma exec_proj sg n s c : ccmd_okb sg n c = true ->
  match exec sg s c with
  | Ok s' => exec [] (proj sg s) c = Ok (proj sg s')
  | Panic => exec [] (proj sg s) c = Panic
  | OutOfFuel => exec [] (proj sg s) c = OutOfFuel
  end.
Proof.
  intros Hok. destruct c as [t|t1 t2]; cbn [exec ccmd_okb] in *.
  - rewrite (add_term_proj sg n t s Hok). reflexivity.
  - apply andb_true_iff in Hok. destruct Hok as [H1 H2].
    rewrite (add_term_proj sg n t1 s H1). destruct (add_term s t1) as [s1 v1]. cbn [fst snd].
    rewrite (add_term_proj sg n t2 s1 H2). destruct (add_term s1 t2) as [s2 v2]. cbn [fst snd].
    destruct v1 as [a|z1]; [|reflexivity]. destruct v2 as [b|z2]; [|reflexivity].
    cbn [proj uf tabs wit].
    destruct (uf_union (uf s2) a b) as [p'| |]; cbn [bind]; try reflexivity.
    pose proof (rebuild_proj sg (rebuild_fuel (mkSt p' (tabs s2) (wit s2))) (mkSt p' (tabs s2) (wit s2))) as HR.
    change (rebuild_fuel (mkSt p' (ptabs sg (tabs s2)) (wit s2)))
      with (rebuild_fuel (mkSt p' (tabs s2) (wit s2))).
    change (mkSt p' (ptabs sg (tabs s2)) (wit s2)) with (proj sg (mkSt p' (tabs s2) (wit s2))).
    destruct (rebuild _ sg _) as [[s4 e4]| |]; cbn [bind].
    + destruct HR as (e' & ->). reflexivity.
    + rewrite HR. reflexivity.
    + rewrite HR. reflexivity.
Qed.

(* ------------------------------------------------------------------ *)
(** * witnesses stay constructor terms *)

Lemma cterm_term_okb sg n : forall t, cterm_okb sg n t = true -> term_okb n t = true.
Proof.
  induction t as [z|f l IH] using term_ind'; intros H; [reflexivity|].
  cbn [cterm_okb term_okb] in *. apply andb_true_iff in H. destruct H as [H Hl].
  apply andb_true_iff in H. destruct H as [Hf _]. rewrite Hf. cbn [andb].
  apply forallb_forall. intros x Hx. rewrite Forall_forall in IH. apply IH; [exact Hx|].
  rewrite forallb_forall in Hl. apply Hl. exact Hx.
Qed.

Lemma cterms_term_okb sg n l : forallb (cterm_okb sg n) l = true -> forallb (term_okb n) l = true.
Proof.
  intros H. apply forallb_forall. intros x Hx. apply (cterm_term_okb sg n).
  rewrite forallb_forall in H. apply H. exact Hx.
Qed.

Definition cwit_ok (sg : list mergefn) (n : nat) (s : state) : Prop :=
  Forall (fun t => cterm_okb sg n t = true) (wit s).

Lemma witv_cokb sg n w v : Forall (fun t => cterm_okb sg n t = true) w -> cterm_okb sg n (witv w v) = true.
Proof.
  intros H. destruct v as [i|z]; cbn [witv]; [|reflexivity].
  destruct (nth_in_or_default i w (TI 0)) as [Hin|E]; [|rewrite E; reflexivity].
  rewrite Forall_forall in H. apply H. exact Hin.
Qed.

Lemma ground_cokb sg n s e : cwit_ok sg n s -> forall p t, cpat_okb sg n p = true ->
  ground s e p = Some t -> cterm_okb sg n t = true.
Proof.
  intros Hw p. induction p as [x|z|a b|f ps IH] using pat_ind'; intros t Hok Hg.
  - cbn [ground] in Hg. destruct (env_get e x) as [v|]; [|discriminate].
    injection Hg as <-. apply witv_cokb. exact Hw.
  - cbn [ground] in Hg. injection Hg as <-. reflexivity.
  - cbn [ground] in Hg. destruct (int_of e (PAdd a b)); [|discriminate]. injection Hg as <-. reflexivity.
  - rewrite ground_PApp in Hg. cbn [cpat_okb] in Hok. apply andb_true_iff in Hok.
    destruct Hok as [Hf Hps]. destruct (grounds s e ps) as [ts|] eqn:Eg; [|discriminate].
    injection Hg as <-. cbn [cterm_okb]. rewrite Hf. cbn [andb].
    clear Hf. revert ts Eg. induction ps as [|p tl IHl]; intros ts Eg; cbn [grounds] in Eg.
    + injection Eg as <-. reflexivity.
    + inversion IH as [|p' tl' Hp Htl]; subst. cbn [forallb] in Hps.
      apply andb_true_iff in Hps. destruct Hps as [Hokp Hoktl].
      destruct (ground s e p) as [t|] eqn:Ep; [|discriminate].
      destruct (grounds s e tl) as [ts'|] eqn:Etl; [|discriminate].
      injection Eg as <-. cbn [forallb]. rewrite (Hp t Hokp eq_refl). cbn [andb].
      apply (IHl Htl Hoktl ts' eq_refl).
Qed.

Lemma grounds_cokb sg n s e : cwit_ok sg n s -> forall ps ts, forallb (cpat_okb sg n) ps = true ->
  grounds s e ps = Some ts -> forallb (cterm_okb sg n) ts = true.
Proof.
  intros Hw. induction ps as [|p tl IH]; intros ts Hok Hg; cbn [grounds] in Hg.
  - injection Hg as <-. reflexivity.
  - cbn [forallb] in Hok. apply andb_true_iff in Hok. destruct Hok as [Hp Htl].
    destruct (ground s e p) as [t|] eqn:Ep; [|discriminate].
    destruct (grounds s e tl) as [ts'|] eqn:Etl; [|discriminate].
    injection Hg as <-. cbn [forallb]. rewrite (ground_cokb sg n s e Hw p t Hp Ep). cbn [andb].
    apply IH; auto.
Qed.

Lemma add_node_cwit sg n s f vs : cwit_ok sg n s -> f < n -> is_ctor sg f = true ->
  cwit_ok sg n (fst (add_node s f vs)).
Proof.
  intros Hw Hf Hc. unfold add_node. destruct (tab_lookup (get_tab (tabs s) f) vs); cbn [fst]; [exact Hw|].
  unfold cwit_ok. cbn [wit]. apply Forall_app. split; [exact Hw|]. constructor; [|constructor].
  cbn [cterm_okb]. rewrite Hc. apply andb_true_iff. split.
  - apply andb_true_iff. split; [apply Nat.ltb_lt; exact Hf|reflexivity].
  - apply forallb_forall. intros t Hin. apply in_map_iff in Hin. destruct Hin as (v & <- & _).
    apply witv_cokb. exact Hw.
Qed.

Lemma add_terms_cwit_of sg n l :
  Forall (fun t => forall s, cwit_ok sg n s -> cterm_okb sg n t = true -> cwit_ok sg n (fst (add_term s t))) l ->
  forall s, cwit_ok sg n s -> forallb (cterm_okb sg n) l = true -> cwit_ok sg n (fst (CCDefs.add_terms s l)).
Proof.
  induction 1 as [|x tl Hx Htl IH]; intros s Hw Hok; cbn [CCDefs.add_terms]; [exact Hw|].
  cbn [forallb] in Hok. apply andb_true_iff in Hok. destruct Hok as [Hokx Hoktl].
  pose proof (Hx s Hw Hokx) as H1. destruct (add_term s x) as [s1 v]. cbn [fst] in H1.
  pose proof (IH s1 H1 Hoktl) as H2. destruct (CCDefs.add_terms s1 tl) as [s2 vs]. exact H2.
Qed.

Lemma add_term_cwit sg n : forall t s, cwit_ok sg n s -> cterm_okb sg n t = true ->
  cwit_ok sg n (fst (add_term s t)).
Proof.
  induction t as [z|f l IH] using term_ind'; intros s Hw Hok; [exact Hw|].
  rewrite add_term_T. cbn [cterm_okb] in Hok. apply andb_true_iff in Hok. destruct Hok as [Hok Hl].
  apply andb_true_iff in Hok. destruct Hok as [Hf Hc]. apply Nat.ltb_lt in Hf.
  pose proof (add_terms_cwit_of sg n l IH s Hw Hl) as H.
  destruct (CCDefs.add_terms s l) as [s1 vs]. cbn [fst] in H. apply add_node_cwit; assumption.
Qed.

Lemma add_terms_cwit sg n l s : cwit_ok sg n s -> forallb (cterm_okb sg n) l = true ->
  cwit_ok sg n (fst (CCDefs.add_terms s l)).
Proof.
  apply add_terms_cwit_of. apply Forall_forall. intros t _ s'. apply add_term_cwit.
Qed.

Lemma exec_cwit sg n s c s' : cwit_ok sg n s -> ccmd_okb sg n c = true -> exec sg s c = Ok s' ->
  cwit_ok sg n s'.
Proof.
  intros Hw Hok He. destruct c as [t|t1 t2]; cbn [exec ccmd_okb] in *.
  - injection He as <-. apply add_term_cwit; assumption.
  - apply andb_true_iff in Hok. destruct Hok as [Hok1 Hok2].
    pose proof (add_term_cwit sg n t1 s Hw Hok1) as H1.
    destruct (add_term s t1) as [s1 v1]. cbn [fst] in H1.
    pose proof (add_term_cwit sg n t2 s1 H1 Hok2) as H2.
    destruct (add_term s1 t2) as [s2 v2]. cbn [fst] in H2.
    destruct v1 as [a|z1]; [|injection He as <-; exact H2].
    destruct v2 as [b|z2]; [|injection He as <-; exact H2].
    destruct (uf_union (uf s2) a b) as [p'| |]; cbn [bind] in He; try discriminate.
    destruct (rebuild _ sg _) as [[s4 e4]| |] eqn:Er; cbn [bind] in He; try discriminate.
    injection He as <-. apply rebuild_wit in Er. unfold cwit_ok. rewrite Er. exact H2.
Qed.

(* ------------------------------------------------------------------ *)
(** * the constructor part of every reachable state is a term-level history *)

Definition MReach (sg : list mergefn) (n : nat) (s : state) : Prop :=
  cwit_ok sg n s /\ Reach n [] (proj sg s).

(** the constructor part of [s'] is obtained from that of [s] by running a well-formed list of
    term-level commands over constructor tables *)
Definition MSteps (sg : list mergefn) (n : nat) (s s' : state) : Prop :=
  Steps n [] (proj sg s) (proj sg s').

Lemma all_unionid_nil : all_unionid [].
Proof. constructor. Qed.

Lemma MReach_init sg n : MReach sg n (init n).
Proof.
  split; [constructor|]. exists []. split; [reflexivity|]. cbn [run]. f_equal.
  unfold proj, init. cbn [uf tabs wit]. f_equal.
  generalize n as k. revert sg. induction sg as [|m sg IH]; intros k; [symmetry; apply ptabs_nil|].
  destruct k as [|k]; cbn [repeat ptabs]; [reflexivity|]. rewrite <- IH. destruct (is_ctor_m m); reflexivity.
Qed.

Lemma MSteps_refl sg n s : MSteps sg n s s.
Proof. apply Steps_refl. Qed.

Lemma MSteps_trans sg n s1 s2 s3 : MSteps sg n s1 s2 -> MSteps sg n s2 s3 -> MSteps sg n s1 s3.
Proof. apply Steps_trans. Qed.

Lemma cmd_norm'_eq c : cmd_norm' c = cmd_norm c.
Proof. reflexivity. Qed.

Lemma ccmd_tokb sg n c : ccmd_okb sg n c = true -> cmd_tokb n c = true.
Proof.
  destruct c as [t|a b]; cbn [ccmd_okb cmd_tokb]; [apply cterm_term_okb|].
  intros H. apply andb_true_iff in H. destruct H as [Ha Hb].
  rewrite (cterm_term_okb sg n a Ha), (cterm_term_okb sg n b Hb). reflexivity.
Qed.

(** one term-level command over constructor terms *)
Lemma mexec_step sg n s c : MReach sg n s -> ccmd_okb sg n c = true ->
  exists s', exec sg s c = Ok s' /\ cwit_ok sg n s' /\
    cmds_okb n (cmd_norm' c) = true /\ run [] (proj sg s) (cmd_norm' c) = Ok (proj sg s').
Proof.
  intros [Hw HR] Hok.
  destruct (Reach_step n [] (proj sg s) c all_unionid_nil HR (ccmd_tokb sg n c Hok)) as (ps' & He & _).
  pose proof (exec_proj sg n s c Hok) as HP.
  destruct (exec sg s c) as [s'| |] eqn:Ee; try (rewrite HP in He; discriminate).
  exists s'. split; [reflexivity|]. split; [eapply exec_cwit; eauto|].
  rewrite cmd_norm'_eq. split; [apply cmd_norm_okb; eapply ccmd_tokb; eauto|].
  rewrite run_cmd_norm. exact HP.
Qed.

Lemma run_adds sg : forall ts s, run sg s (map CAdd ts) = Ok (fst (CCDefs.add_terms s ts)).
Proof.
  induction ts as [|t tl IH]; intros s; cbn [map run CCDefs.add_terms]; [reflexivity|].
  cbn [exec bind]. rewrite IH. destruct (add_term s t) as [s1 v]. cbn [fst].
  destruct (CCDefs.add_terms s1 tl) as [s2 vs]. reflexivity.
Qed.

Lemma cmds_okb_adds n ts : forallb (term_okb n) ts = true -> cmds_okb n (map CAdd ts) = true.
Proof.
  unfold cmds_okb. intros H. apply forallb_forall. intros c Hc. apply in_map_iff in Hc.
  destruct Hc as (t & <- & Ht). cbn [cmd_okb]. rewrite forallb_forall in H. apply H. exact Ht.
Qed.

Lemma MReach_MSteps sg n s s' : MReach sg n s -> cwit_ok sg n s' -> MSteps sg n s s' -> MReach sg n s'.
Proof. intros [_ HR] Hw HS. split; [exact Hw|]. eapply Reach_Steps; eauto. Qed.

(** one ground command of the fragment: its effect on the constructor part is [xproj x] *)
Lemma mxexec_step sg n s x : MReach sg n s -> mxc_okb sg n x = true ->
  cwit_ok sg n (fst (xexec sg s x)) /\
  cmds_okb n (xproj x) = true /\ run [] (proj sg s) (xproj x) = Ok (proj sg (fst (xexec sg s x))).
Proof.
  intros HM Hok. destruct x as [c|f ts v|f ts|f ts|]; cbn [mxc_okb] in Hok; try discriminate.
  - destruct (mexec_step sg n s c HM Hok) as (s' & He & Hw & H1 & H2).
    cbn [xexec xproj]. rewrite He. cbn [fst]. auto.
  - apply andb_true_iff in Hok. destruct Hok as [Hok Hv].
    apply andb_true_iff in Hok. destruct Hok as [Hf Hts]. apply negb_true_iff in Hf.
    destruct HM as [Hw HR]. cbn [xexec xproj]. rewrite add_terms_same.
    pose proof (add_terms_cwit sg n ts s Hw Hts) as Hw1.
    pose proof (add_terms_proj sg n ts s Hts) as P1.
    destruct (CCDefs.add_terms s ts) as [s1 vs] eqn:E1. cbn [fst snd] in *.
    pose proof (add_term_cwit sg n v s1 Hw1 Hv) as Hw2.
    pose proof (add_term_proj sg n v s1 Hv) as P2.
    destruct (add_term s1 v) as [s2 w] eqn:E2. cbn [fst snd] in *.
    assert (Em : is_ctor_m (nth f sg MUnionId) = false) by exact Hf.
    pose proof (tab_insert_non (nth f sg MUnionId) (mkRow vs w false) Em (get_tab (tabs s2) f)) as Eus.
    destruct (tab_insert (nth f sg MUnionId) (get_tab (tabs s2) f) (mkRow vs w false)) as [[t' us] e].
    cbn [fst snd] in Eus. subst us.
    assert (G : cwit_ok sg n (mkSt (uf s2) (set_tab (tabs s2) f t') (wit s2)) /\
                cmds_okb n (map CAdd ts ++ [CAdd v]) = true /\
                run [] (proj sg s) (map CAdd ts ++ [CAdd v])
                = Ok (proj sg (mkSt (uf s2) (set_tab (tabs s2) f t') (wit s2)))).
    { split; [exact Hw2|]. split.
      + apply cmds_okb_app; [apply cmds_okb_adds, (cterms_term_okb sg n), Hts|].
        unfold cmds_okb. cbn [forallb cmd_okb]. rewrite (cterm_term_okb sg n v Hv). reflexivity.
      + rewrite run_app_egg, run_adds, P1. cbn [fst bind run exec]. rewrite P2. cbn [fst bind].
        f_equal. unfold proj. cbn [uf tabs wit]. rewrite ptabs_set_non by exact Hf. reflexivity. }
    destruct e; cbn [uf_unions fst]; exact G.
  - apply andb_true_iff in Hok. destruct Hok as [Hf Hts]. apply negb_true_iff in Hf.
    destruct HM as [Hw HR]. cbn [xexec xproj]. rewrite add_terms_same.
    pose proof (add_terms_cwit sg n ts s Hw Hts) as Hw1.
    pose proof (add_terms_proj sg n ts s Hts) as P1.
    destruct (CCDefs.add_terms s ts) as [s1 vs] eqn:E1. cbn [fst snd] in *.
    split; [exact Hw1|]. split; [apply cmds_okb_adds, (cterms_term_okb sg n), Hts|].
    rewrite run_adds, P1. cbn [fst]. f_equal. unfold proj. cbn [uf tabs wit].
    rewrite ptabs_set_non by exact Hf. reflexivity.
  - cbn [xexec xproj fst run]. split; [apply HM|]. split; reflexivity.
Qed.

Lemma mxexec_reach sg n s x : MReach sg n s -> mxc_okb sg n x = true ->
  MReach sg n (fst (xexec sg s x)) /\ MSteps sg n s (fst (xexec sg s x)).
Proof.
  intros HM Hok. destruct (mxexec_step sg n s x HM Hok) as (Hw & H1 & H2).
  assert (HS : MSteps sg n s (fst (xexec sg s x))) by (exists (xproj x); auto).
  split; [eapply MReach_MSteps; eauto|exact HS].
Qed.

Lemma mxrun_reach sg n : forall xs s, MReach sg n s -> forallb (mxc_okb sg n) xs = true ->
  MReach sg n (fst (xrun sg s xs)) /\ MSteps sg n s (fst (xrun sg s xs)).
Proof.
  induction xs as [|x xs IH]; intros s HM Hok; cbn [xrun].
  - cbn [fst]. split; [exact HM|apply MSteps_refl].
  - cbn [forallb] in Hok. apply andb_true_iff in Hok. destruct Hok as [Hx Hxs].
    destruct (mxexec_reach sg n s x HM Hx) as [HM1 HS1].
    destruct (xexec sg s x) as [s1 [e|]]; cbn [fst] in *.
    + split; assumption.
    + destruct (IH s1 HM1 Hxs) as [HM2 HS2]. split; [exact HM2|eapply MSteps_trans; eauto].
Qed.

Lemma ground_action_mokb sg n s e a : cwit_ok sg n s -> mact_okb sg n a = true ->
  match ground_action s e a with Some x => mxc_okb sg n x = true | None => True end.
Proof.
  intros Hw Hok. destruct a as [p|p q|f ps v|f ps|f ps|]; cbn [ground_action mact_okb] in *; try discriminate.
  - destruct (ground s e p) as [t|] eqn:Ep; cbn [option_map]; [|exact I].
    cbn [mxc_okb ccmd_okb]. eapply ground_cokb; eauto.
  - apply andb_true_iff in Hok. destruct Hok as [Hp Hq].
    destruct (ground s e p) as [a|] eqn:Ep; [|exact I].
    destruct (ground s e q) as [b|] eqn:Eq; [|exact I].
    cbn [mxc_okb ccmd_okb]. rewrite (ground_cokb sg n s e Hw p a Hp Ep), (ground_cokb sg n s e Hw q b Hq Eq).
    reflexivity.
  - apply andb_true_iff in Hok. destruct Hok as [Hok Hv].
    apply andb_true_iff in Hok. destruct Hok as [Hf Hps].
    destruct (grounds s e ps) as [ts|] eqn:Eps; [|exact I].
    destruct (ground s e v) as [t|] eqn:Ev; [|exact I].
    cbn [mxc_okb]. rewrite Hf, (grounds_cokb sg n s e Hw ps ts Hps Eps), (ground_cokb sg n s e Hw v t Hv Ev).
    reflexivity.
  - apply andb_true_iff in Hok. destruct Hok as [Hf Hps].
    destruct (grounds s e ps) as [ts|] eqn:Eps; cbn [option_map]; [|exact I].
    cbn [mxc_okb]. rewrite Hf, (grounds_cokb sg n s e Hw ps ts Hps Eps). reflexivity.
  - reflexivity.
Qed.

Lemma rule_cmds_mokb sg n s r : cwit_ok sg n s -> mrule_okb sg n r = true ->
  forallb (mxc_okb sg n) (rule_cmds s r) = true.
Proof.
  intros Hw Hok. apply forallb_forall. intros x Hin. unfold rule_cmds in Hin.
  apply in_flat_map in Hin. destruct Hin as (e & _ & Hin).
  apply in_flat_map in Hin. destruct Hin as (a & Ha & Hin).
  unfold mrule_okb in Hok. rewrite forallb_forall in Hok. specialize (Hok a Ha).
  pose proof (ground_action_mokb sg n s e a Hw Hok) as H.
  destruct (ground_action s e a) as [x'|]; destruct Hin as [<-|[]]; [exact H|reflexivity].
Qed.

Definition mrules_ok (sg : list mergefn) (n : nat) (rules : list rule) : Prop :=
  Forall (fun r => mrule_okb sg n r = true) rules.

Lemma iteration_cmds_mokb sg n rules s : cwit_ok sg n s -> mrules_ok sg n rules ->
  forallb (mxc_okb sg n) (flat_map (rule_cmds s) rules) = true.
Proof.
  intros Hw Hrules. apply forallb_forall. intros x Hin. apply in_flat_map in Hin.
  destruct Hin as (r & Hr & Hin). unfold mrules_ok in Hrules. rewrite Forall_forall in Hrules.
  pose proof (rule_cmds_mokb sg n s r Hw (Hrules r Hr)) as H.
  rewrite forallb_forall in H. apply H. exact Hin.
Qed.

Lemma miteration_reach sg n rules s : MReach sg n s -> mrules_ok sg n rules ->
  MReach sg n (fst (iteration sg rules s)) /\ MSteps sg n s (fst (iteration sg rules s)).
Proof.
  intros HM Hrules. unfold iteration. apply mxrun_reach; [exact HM|].
  apply iteration_cmds_mokb; [apply HM|exact Hrules].
Qed.

Lemma mrun_n_reach sg n rules : mrules_ok sg n rules -> forall k s, MReach sg n s ->
  MReach sg n (fst (run_n sg rules k s)) /\ MSteps sg n s (fst (run_n sg rules k s)).
Proof.
  intros Hrules. induction k as [|k IH]; intros s HM; cbn [run_n].
  - cbn [fst]. split; [exact HM|apply MSteps_refl].
  - destruct (miteration_reach sg n rules s HM Hrules) as [HM1 HS1].
    destruct (iteration sg rules s) as [s1 [e|]]; cbn [fst] in *.
    + split; assumption.
    + match goal with |- context [if ?c then _ else _] => destruct c end.
      * cbn [fst]. split; assumption.
      * destruct (IH s1 HM1) as [HM2 HS2]. split; [exact HM2|eapply MSteps_trans; eauto].
Qed.

(** one program command: the constructor part is extended by a well-formed term-level history *)
Lemma mpexec_reach sg n s rules k : MReach sg n s -> mrules_ok sg n rules -> mkcmd_okb sg n k = true ->
  MReach sg n (fst (fst (pexec sg (s, rules) k))) /\
  MSteps sg n s (fst (fst (pexec sg (s, rules) k))) /\
  mrules_ok sg n (snd (fst (pexec sg (s, rules) k))).
Proof.
  intros HM Hrules Hk. destruct k as [a|r|m]; cbn [pexec mkcmd_okb] in *.
  - pose proof (ground_action_mokb sg n s [] a (proj1 HM) Hk) as Hx.
    destruct (ground_action s [] a) as [x|].
    + destruct (mxexec_reach sg n s x HM Hx) as [HM1 HS1].
      destruct (xexec sg s x) as [s1 e]. cbn [fst snd] in *. auto.
    + cbn [fst snd]. split; [exact HM|]. split; [apply MSteps_refl|exact Hrules].
  - cbn [fst snd]. split; [exact HM|]. split; [apply MSteps_refl|].
    apply Forall_app. split; [exact Hrules|]. constructor; [exact Hk|constructor].
  - destruct (mrun_n_reach sg n rules Hrules m s HM) as [HM1 HS1].
    destruct (run_n sg rules m s) as [s1 e]. cbn [fst snd] in *. auto.
Qed.

(** Every state a mixed-fragment program passes through: its constructor part is the result of a
    well-formed term-level history over constructor tables run from the empty database. *)
Theorem mixed_history n sg ks : prog_mixed_okb n sg ks = true ->
  Forall (fun ps => Reach n [] (proj sg (fst ps))) (ptrace sg (init n, []) ks) /\
  Reach n [] (proj sg (fst (fst (pfinal sg (init n, []) ks)))).
Proof.
  unfold prog_mixed_okb. intros Hks.
  destruct (ptrace_pfinal_inv (fun ps => MReach sg n (fst ps) /\ mrules_ok sg n (snd ps))
              (fun k => mkcmd_okb sg n k = true) sg) with (ks := ks) (ps := (init n, @nil rule))
    as [Ht Hf].
  - intros [s rules] k [HR Hr] Hk. cbn [fst snd] in *.
    destruct (mpexec_reach sg n s rules k HR Hr Hk) as (H1 & _ & H2). split; assumption.
  - cbn [fst snd]. split; [apply MReach_init|constructor].
  - apply Forall_forall. intros k Hk. rewrite forallb_forall in Hks. apply Hks. exact Hk.
  - split; [|apply Hf]. eapply Forall_impl; [|exact Ht]. intros ps Hps. apply Hps.
Qed.

Theorem mixed_stepwise n sg ks : prog_mixed_okb n sg ks = true ->
  chain (fun ps ps' => Steps n [] (proj sg (fst ps)) (proj sg (fst ps'))) (init n, []) (ptrace sg (init n, []) ks).
Proof.
  unfold prog_mixed_okb. intros Hks.
  assert (G : forall ks ps, MReach sg n (fst ps) -> mrules_ok sg n (snd ps) ->
            forallb (mkcmd_okb sg n) ks = true ->
            chain (fun ps ps' => Steps n [] (proj sg (fst ps)) (proj sg (fst ps'))) ps (ptrace sg ps ks)).
  { clear ks Hks. induction ks as [|k tl IH]; intros [s rules] HR Hr Hks; cbn [ptrace]; [exact I|].
    cbn [forallb] in Hks. apply andb_true_iff in Hks. destruct Hks as [Hk Htl]. cbn [fst snd] in *.
    destruct (mpexec_reach sg n s rules k HR Hr Hk) as (H1 & H2 & H3).
    destruct (pexec sg (s, rules) k) as [ps' [e|]]; cbn [fst snd chain] in *; [exact I|].
    split; [exact H2|]. apply IH; assumption. }
  apply G; [apply MReach_init|constructor|exact Hks].
Qed.

(** C01 for a state whose constructor part is a term-level history: on constructor terms, equal
    values iff in the congruence closure of the unions of that history *)
Definition c01_mixed_holds (n : nat) (sg : list mergefn) (s : state) : Prop :=
  exists cs, cmds_okb n cs = true /\ run [] (init n) cs = Ok (proj sg s) /\
    forall t1 t2 v1 v2, cterm_okb sg n t1 = true -> cterm_okb sg n t2 = true ->
      eval s t1 = Some v1 -> eval s t2 = Some v2 ->
      (v1 = v2 <-> CC (unions_of cs) t1 t2).

Lemma Reach_c01_mixed n sg s : Reach n [] (proj sg s) -> c01_mixed_holds n sg s.
Proof.
  intros (cs & Hok & Hr). exists cs. split; [exact Hok|]. split; [exact Hr|].
  intros t1 t2 v1 v2 C1 C2 H1 H2. rewrite <- (eval_proj sg n s t1 C1) in H1.
  rewrite <- (eval_proj sg n s t2 C2) in H2.
  eapply c01_iff; eauto. apply all_unionid_nil.
Qed.

Theorem mixed_iff_visited n sg ks s : prog_mixed_okb n sg ks = true -> visited sg n ks s ->
  exists cs, cmds_okb n cs = true /\ run [] (init n) cs = Ok (proj sg s) /\
    forall t1 t2 v1 v2, cterm_okb sg n t1 = true -> cterm_okb sg n t2 = true ->
      eval s t1 = Some v1 -> eval s t2 = Some v2 ->
      (v1 = v2 <-> CC (unions_of cs) t1 t2).
Proof.
  intros H. apply (visited_all (c01_mixed_holds n sg)). destruct (mixed_history n sg ks H) as [Ht Hf].
  split; [|apply Reach_c01_mixed; exact Hf].
  eapply Forall_impl; [|exact Ht]. intros ps. apply Reach_c01_mixed.
Qed.

Theorem mixed_sound_visited n sg ks s : prog_mixed_okb n sg ks = true -> visited sg n ks s ->
  exists cs, cmds_okb n cs = true /\ run [] (init n) cs = Ok (proj sg s) /\
    forall t1 t2 v, cterm_okb sg n t1 = true -> cterm_okb sg n t2 = true ->
      eval s t1 = Some v -> eval s t2 = Some v -> CC (unions_of cs) t1 t2.
Proof.
  intros H Hv. destruct (mixed_iff_visited n sg ks s H Hv) as (cs & H1 & H2 & H3).
  exists cs. split; [exact H1|]. split; [exact H2|]. intros t1 t2 v C1 C2 E1 E2.
  apply (H3 t1 t2 v v C1 C2 E1 E2). reflexivity.
Qed.

Theorem mixed_complete_visited n sg ks s : prog_mixed_okb n sg ks = true -> visited sg n ks s ->
  exists cs, cmds_okb n cs = true /\ run [] (init n) cs = Ok (proj sg s) /\
    forall t1 t2 v1 v2, cterm_okb sg n t1 = true -> cterm_okb sg n t2 = true ->
      CC (unions_of cs) t1 t2 -> eval s t1 = Some v1 -> eval s t2 = Some v2 -> v1 = v2.
Proof.
  intros H Hv. destruct (mixed_iff_visited n sg ks s H Hv) as (cs & H1 & H2 & H3).
  exists cs. split; [exact H1|]. split; [exact H2|]. intros t1 t2 v1 v2 C1 C2 Hcc E1 E2.
  apply (H3 t1 t2 v1 v2 C1 C2 E1 E2). exact Hcc.
Qed.

(* ------------------------------------------------------------------ *)
(** * non-vacuity: a mixed program *)

Module MEx.
(** constructors a, b, f (unary), c; [g] a min-lattice function keyed by the eq-sort; [r] a
    relation keyed by two e-class ids. The rule [r(x,y) ==> (union x y)] is triggered by a
    relation row; the rule [(g x) = v, v < 4, (f x) = y ==> (union y x)] by a lattice value. The
    union a~b merges f(a)~f(b) by congruence, merges the two g-rows through min (5,3 -> 3) and
    re-keys the r-row; c stays apart. Then a delete on the relation and a panic. *)
Definition sg := [MUnionId; MUnionId; MUnionId; MMin; MOld; MUnionId].
Definition a := PApp 0 []. Definition b := PApp 1 []. Definition c := PApp 5 [].
Definition ks := [KAct (AExpr (PApp 2 [a])); KAct (AExpr (PApp 2 [b])); KAct (AExpr (PApp 2 [c]));
  KAct (ASet 4 [a; b] (PInt 0));
  KAct (ASet 3 [a] (PInt 5)); KAct (ASet 3 [b] (PInt 3)); KAct (ASet 3 [c] (PInt 7));
  KRule (mkRule [FPat (PApp 4 [PVar 0; PVar 1])] [AUnion (PVar 0) (PVar 1)]);
  KRule (mkRule [FEq 2 (PApp 3 [PVar 0]); FLt (PVar 2) (PInt 4); FEq 3 (PApp 2 [PVar 0])]
                [AUnion (PVar 3) (PVar 0)]);
  KRun 1; KRun 3; KAct (ADelete 4 [a; a]); KAct APanic].
Definition ta := T 0 []. Definition tb := T 1 []. Definition tc := T 5 []. Definition tf x := T 2 [x].
Definition probes := [ta; tb; tf ta; tf tb; tf (tf ta); tc; tf tc].
End MEx.

Example mex_mixed :
  prog_mixed_okb 6 MEx.sg MEx.ks = true /\ prog_ctor_okb 6 MEx.sg MEx.ks = false /\
  map (fun ps => class_vector (fst ps) MEx.probes) (ptrace MEx.sg (init 6, []) MEx.ks)
  = [[0; -1; 2; -1; -1; -1; -1]; [0; 1; 2; 3; -1; -1; -1]; [0; 1; 2; 3; -1; 5; 6];
     [0; 1; 2; 3; -1; 5; 6]; [0; 1; 2; 3; -1; 5; 6]; [0; 1; 2; 3; -1; 5; 6]; [0; 1; 2; 3; -1; 5; 6];
     [0; 1; 2; 3; -1; 5; 6]; [0; 1; 2; 3; -1; 5; 6];
     [0; 0; 0; 0; 0; 5; 6]; [0; 0; 0; 0; 0; 5; 6]; [0; 0; 0; 0; 0; 5; 6]]%Z /\
  snd (pfinal MEx.sg (init 6, []) MEx.ks) = Some 1 /\
  REx.dump (fst (pfinal MEx.sg (init 6, []) MEx.ks))
  = ([0; 0; 0; 1; 4; 5],
     [[([], VId 0, false)]; [([], VId 0, false)];
      [([VId 0], VId 0, false); ([VId 4], VId 5, false)];
      [([VId 0], VInt 3, false); ([VId 4], VInt 7, false)]; []; [([], VId 4, false)]]).
Proof. vm_compute. repeat split. Qed.
