(** C08 — push/pop and clone give perfect snapshot isolation.
    This file only pins statements and prints their assumptions.  The model is Snap/PushPop.v:
    a session = current e-graph + stack of pushed snapshots, over a shared (never copied) name ->
    table registry with liveness; the DATABASE IS ABSTRACT (any state type, any step functions),
    so the theorems hold for every database semantics whose commands are functions of the
    declaration state and the database. *)
From Coq Require Import List Arith ZArith.
Import ListNotations.
Require Import Verif.Snap.PushPop Verif.Snap.Proofs Verif.Snap.Clone.
Require Verif.gen.SnapFacts Verif.Snap.Fields.

Section C08.

Variables (db dcmd dout aop aout : Type).
Variable db_step : decls -> db -> dcmd -> db * dout * nat * nat.
Variable db_decl : db -> ns -> name -> list nat -> db.
Variable db_api : db -> nat -> aop -> db * aout.
Variable decl_extra : decls -> ns -> name -> list nat -> bool.
Variable reject_effect : decls -> ns -> name -> list nat -> decls.
Variable db0 : db.

(** a rejected declaration may leave a half-declared name behind (finding F2) but never removes a
    function name, and leaves behind at most the name it was declaring *)
Hypothesis reject_mono : forall d k n a m, In m (fnames d) -> In m (fnames (reject_effect d k n a)).
Hypothesis reject_names : forall d k n a m, In m (fnames (reject_effect d k n a)) ->
  In m (fnames d) \/ (k = NFunc /\ m = n).

Notation step := (step db dcmd dout aop aout db_step db_decl db_api decl_extra reject_effect).
Notation run := (run db dcmd dout aop aout db_step db_decl db_api decl_extra reject_effect).
Notation outputs := (outputs db dcmd dout aop aout db_step db_decl db_api decl_extra reject_effect).
Notation final := (final db dcmd dout aop aout db_step db_decl db_api decl_extra reject_effect).
Notation prun := (prun db dcmd dout aop aout db_step db_decl db_api decl_extra reject_effect).

(** The equivalence the theorems are stated with, pinned: frame by frame (current e-graph and every
    pushed snapshot) the declarations, the database and the table names are EQUAL and every name
    resolves to the same live table or to none.  Not constrained: symbol generator, run report
    (the two carve-outs documented at lib.rs:706-715) and unobservable bookkeeping (identity
    numbers, dead registry entries). *)
Theorem c08_equiv_is : forall s1 sh1 s2 sh2,
  equiv db s1 sh1 s2 sh2 <->
  Forall2 (fun a b => (e_decls a = e_decls b /\ e_db a = e_db b /\ map fst (e_tabs a) = map fst (e_tabs b))
                      /\ forall n, lookup_action db sh1 a n = lookup_action db sh2 b n)
          (s_cur s1 :: s_stack s1) (s_cur s2 :: s_stack s2).
Proof. intros; reflexivity. Qed.

(** outputs (P ++ [Push] ++ Q ++ [Pop] ++ R) versus outputs (P ++ R), for ALL P, Q, R with Q
    balanced (nested push/pop, declarations, failing commands allowed): same outputs for P, and
    for R the same outputs up to exactly [blur] (report shown by print-stats, fresh-symbol numbers) *)
Theorem c08_pushpop : forall (P Q R : list (cmd dcmd aop)), balanced dcmd aop Q = true ->
  exists oP oQ oR oR',
    outputs (P ++ [CPush] ++ Q ++ [CPop] ++ R) (sess0 db db0) shared0 = oP ++ oQ ++ oR'
    /\ outputs (P ++ R) (sess0 db db0) shared0 = oP ++ oR
    /\ length oP = length P /\ length oQ = S (S (length Q))
    /\ map (blur dout aout) oR' = map (blur dout aout) oR.
Proof. exact (pushpop db dcmd dout aop aout db_step db_decl db_api decl_extra reject_effect db0 reject_mono). Qed.

(** ... the states reached are equivalent (so NOTHING else differs), and when the bracket happens
    to leave the symbol generator and the report unchanged the outputs are equal outright *)
Theorem c08_pushpop_states : forall P Q R s sh oP s1 sh1 oQ,
  balanced dcmd aop Q = true ->
  run P (sess0 db db0) shared0 = (s, sh, oP) ->
  run (CPush :: Q ++ [CPop]) s sh = (s1, sh1, oQ) ->
  map (blur dout aout) (outputs R s1 sh1) = map (blur dout aout) (outputs R s sh)
  /\ (let '(a, ah) := final R s1 sh1 in let '(b, bh) := final R s sh in equiv db a ah b bh)
  /\ (same_counters db s1 s -> outputs R s1 sh1 = outputs R s sh).
Proof. exact (pushpop_from db dcmd dout aop aout db_step db_decl db_api decl_extra reject_effect db0 reject_mono). Qed.

(** names declared inside the bracket may be declared again *)
Theorem c08_redeclare : forall P Q k n aux s sh oP s1 sh1 oQ,
  balanced dcmd aop Q = true ->
  run P (sess0 db db0) shared0 = (s, sh, oP) ->
  run (CPush :: Q ++ [CPop]) s sh = (s1, sh1, oQ) ->
  snd (step (CDecl k n aux) s sh) = OOk -> snd (step (CDecl k n aux) s1 sh1) = OOk.
Proof. exact (redeclare db dcmd dout aop aout db_step db_decl db_api decl_extra reject_effect db0 reject_mono). Qed.

(** pop without a matching push: an error, and nothing changes *)
Theorem c08_pop_without_push_errors : forall P s sh oP,
  depth dcmd aop 0 P = Some 0 -> run P (sess0 db db0) shared0 = (s, sh, oP) ->
  step CPop s sh = (s, sh, OErr EPop).
Proof. exact (pop_without_push_errors db dcmd dout aop aout db_step db_decl db_api decl_extra reject_effect db0 reject_mono). Qed.

(** name-indexed access after the pop: a table that only existed inside the bracket is MISSING,
    and stays missing through any continuation that does not declare that name again — whatever
    else the continuation declares, i.e. also when the dropped table's id has been reused *)
Theorem c08_registry_liveness : forall P Q R n op s sh oP s1 sh1 oQ s2 sh2 oR,
  balanced dcmd aop Q = true ->
  run P (sess0 db db0) shared0 = (s, sh, oP) -> undeclared db n s ->
  run (CPush :: Q ++ [CPop]) s sh = (s1, sh1, oQ) ->
  ~ In n (fdecl_names dcmd aop R) ->
  run R s1 sh1 = (s2, sh2, oR) ->
  snd (step (CApi n op) s2 sh2) = OMissing.
Proof.
  exact (registry_liveness db dcmd dout aop aout db_step db_decl db_api decl_extra reject_effect db0
           reject_mono reject_names).
Qed.

(** clone: for every interleaving of commands on a clone and its original, a copy outputs what it
    would output running alone, PROVIDED the other copy never declares a table name this copy has
    or declares *)
Theorem c08_clone_isolated_partial : forall sd s sh (cs : list (side * cmd dcmd aop)),
  Inv db s sh ->
  (forall n, In n (fdecl_names dcmd aop (proj (other sd) cs)) ->
             undeclared db n s /\ ~ In n (fdecl_names dcmd aop (proj sd cs))) ->
  proj sd (snd (prun cs (clone db s sh))) = outputs (proj sd cs) s sh.
Proof.
  exact (clone_isolated_partial db dcmd dout aop aout db_step db_decl db_api decl_extra reject_effect
           reject_mono reject_names).
Qed.

(** every state reached from the initial one satisfies the invariant asked for above *)
Theorem c08_reachable_inv : forall P s sh oP, run P (sess0 db db0) shared0 = (s, sh, oP) -> Inv db s sh.
Proof.
  intros P s sh oP H.
  exact (inv_run db dcmd dout aop aout db_step db_decl db_api decl_extra reject_effect reject_mono
           P _ _ _ _ _ (inv_init db db0) H).
Qed.

(** TIER A: the model's [CPop] IS the pop interpreted from the carry-over list regenerated from the
    body of `EGraph::pop` (src/lib.rs): each model field is taken from the live e-graph when one of
    the Rust places it stands for is swapped before `*self = *e`, from the snapshot otherwise; an
    empty stack is `Err(Error::Pop)` without effect *)
Theorem c08_pop_is_regenerated : forall (s : sess db) sh,
  step CPop s sh =
  match s_stack s with
  | [] => (s, sh, OErr EPop)
  | p :: st => (mkSess (Fields.pop_of_facts db SnapFacts.pop_carry (s_cur s) p) st, sh, OOk)
  end.
Proof. exact (Fields.pop_is_regenerated db dcmd dout aop aout db_step db_decl db_api decl_extra reject_effect). Qed.

(** ... and [CPush] is the statement list regenerated from `EGraph::push`, interpreted on the model
    (take the stack, clone self, give the clone the old stack, the clone becomes the stack's head) *)
Theorem c08_push_is_regenerated : forall (s : sess db) sh,
  Fields.push_of_facts db SnapFacts.push_body s = Some (fst (fst (step CPush s sh)))
  /\ snd (step CPush s sh) = OOk /\ snd (fst (step CPush s sh)) = sh.
Proof. exact (Fields.push_is_regenerated db dcmd dout aop aout db_step db_decl db_api decl_extra reject_effect). Qed.

End C08.

Print Assumptions c08_equiv_is.
Print Assumptions c08_pushpop.
Print Assumptions c08_pushpop_states.
Print Assumptions c08_redeclare.
Print Assumptions c08_pop_without_push_errors.
Print Assumptions c08_registry_liveness.
Print Assumptions c08_clone_isolated_partial.
Print Assumptions c08_reachable_inv.
Print Assumptions c08_pop_is_regenerated.
Print Assumptions c08_push_is_regenerated.

Section C08Fields.
Import String Bool SnapFacts Fields.
Local Open Scope bool_scope.
Local Open Scope string_scope.

(** (a) the carve-outs of pop: the regenerated carry-over list is exactly the two documented places,
    it is expressible in the model (every carried place is a place of a model field and a field of
    the regenerated struct; a model field is carried entirely or not at all), and the model fields
    carried over are exactly the symbol generator and the run report *)
Theorem c08_carveouts_are :
  pop_carry = [["overall_run_report"]; ["parser"; "symbol_gen"]]
  /\ carry_expressible pop_carry egraph_fields = true
  /\ (forall f, carried pop_carry f = true <-> f = FGensym \/ f = FReport).
Proof.
  split; [reflexivity|]. split; [exact carry_ok|].
  intros f; split.
  - destruct f; vm_compute; intros H; try discriminate; auto.
  - intros [H|H]; subst f; reflexivity.
Qed.

(** (b) every field of `egglog::EGraph`, `egglog_bridge::EGraph` and `core_relations::Database` is
    classified: the reviewed tables of Snap/Fields.v list exactly the regenerated fields (same
    names, same type texts, same order; all three structs `derive(Clone)`), a field is classified
    Deep iff no reference-counted handle occurs in its type text (after one alias expansion) ... *)
Theorem c08_fields_classified :
  table_matches tbl_egraph egraph_fields = true
  /\ table_matches tbl_bridge bridge_fields = true
  /\ table_matches tbl_database database_fields = true
  /\ is_derive egraph_clone_how && is_derive bridge_clone_how && is_derive database_clone_how = true.
Proof. exact tables_match. Qed.

(** ... every shared-MUTABLE field is a recorded isolation hole and is exactly what the model keeps
    in its never-copied [shared] record, everything the model copies is classified Deep; the only
    shared-mutable field is the action registry (finding F6, refuted by
    [c08_clone_isolated_refuted]) and the only shared scratch cell is the panic side channel *)
Theorem c08_shared_mutable_recorded :
  forallb row_model_ok (tbl_egraph ++ tbl_bridge ++ tbl_database) = true
  /\ rows_with is_shared_mut (tbl_egraph ++ tbl_bridge ++ tbl_database) = ["action_registry"]
  /\ rows_with is_scratch (tbl_egraph ++ tbl_bridge ++ tbl_database) = ["panic_message"]
  /\ recorded_holes = ["F6-clone-shared-registry"].
Proof. split; [exact tables_model_ok|]. destruct shared_rows as [A B]. repeat split; assumption. Qed.

(** the manual deep copy of one table (`impl Clone for TableInfo`): identity copied, name/spec
    cloned, rows through `dyn_clone`, both index catalogs refreshed against the table and re-wrapped
    in FRESH `Arc<ResettableOnceLock<_>>`s (never the old Arc); counters get fresh atomic cells *)
Theorem c08_tableinfo_clone_is :
  tableinfo_clone =
    [("identity", "TableIdentity", "self.identity");
     ("name", "Option<Arc<str>>", "self.name.clone()");
     ("spec", "TableSpec", "self.spec.clone()");
     ("table", "WrappedTable", "self.table.dyn_clone()");
     ("indexes", "IndexCatalog<SmallVec<[ColumnId;4]>,HashIndex>", "deep_clone_map(&self.indexes,self.table.as_ref())");
     ("column_indexes", "IndexCatalog<ColumnId,HashColumnIndex>", "deep_clone_map(&self.column_indexes,self.table.as_ref())")]
  /\ tableinfo_deep_clone_map =
     "{map.map(|table_ref|{let(k,v)=table_ref;letv:Index<TI>=v.get_or_update(|index|{index.refresh(table);}).clone();(k.clone(),Arc::new(ResettableOnceLock::new(v)))})}"
  /\ counters_clone_fresh_cells = true.
Proof. repeat split; reflexivity. Qed.

End C08Fields.
Print Assumptions c08_carveouts_are.
Print Assumptions c08_fields_classified.
Print Assumptions c08_shared_mutable_recorded.
Print Assumptions c08_tableinfo_clone_is.

(** WITHOUT that proviso isolation is false (finding F6), in the faithful model as on the real
    engine: a declares g0; b = a.clone(); b declares g1 (arity 1); a declares g1 (arity 2);
    b.update(|fs| fs.set("g1", (1,), 42)) -> "no table named g1 is registered". *)
Theorem c08_clone_isolated_refuted :
  exists (prefix : list scmd) (cs : list (side * scmd)) (sd : side),
    let '(s, sh, _) := srun prefix ssess0 shared0 in
    proj sd (snd (sprun cs (clone sdb s sh))) <> snd (srun (proj sd cs) s sh).
Proof. exact clone_isolated_refuted. Qed.
Print Assumptions c08_clone_isolated_refuted.

Example c08_f6_witness : f6_shared = [OOk; OMissing] /\ f6_alone = [OOk; OApi AOk].
Proof. exact f6_values. Qed.

(** non-vacuity, on the concrete instance (which satisfies the two hypotheses): a bracket with
    declarations of every kind, a nested push/pop, failing commands, a rule run; the continuation
    redeclares a name of Q with another arity, reuses table ids, reads through the name-indexed
    API, prints statistics and a fresh symbol, and pops once too often.  Only the last two
    carve-out outputs differ. *)
Definition exP : list scmd :=
  [CDecl NSort 0 []; CDecl NFunc 0 [1]; CDecl NRuleset 0 []; CDb (DSet 0 [1%Z] 5%Z)].
Definition exQ : list scmd :=
  [CDecl NFunc 1 [1]; CPush; CDecl NRule 0 [0; 0; 1]; CFail; CDb (DSet 1 [7%Z] 9%Z); CDb (DRun 0);
   CDb (DCheck 1 [1%Z] 5%Z); CPop; CDb (DRun 0); CDecl NFunc 0 [2]; CDecl NGlobal 0 [3];
   CApi 1 (ASet [2%Z] 8%Z); CDb (DSet 0 [1%Z] 6%Z)].
Definition exR : list scmd :=
  [CApi 1 ASize; CDecl NFunc 2 [1]; CApi 1 ASize; CDecl NFunc 1 [2]; CApi 1 (ASet [1%Z; 2%Z] 7%Z);
   CApi 1 ASize; CDb (DSize 0); CDb (DCheck 0 [1%Z] 5%Z); CDecl NGlobal 0 [4]; CStats; CFresh; CPop].

Example c08_example :
  balanced _ _ exQ = true
  /\ snd (srun (exP ++ [CPush] ++ exQ ++ [CPop] ++ exR) ssess0 shared0)
     = [OOk; OOk; OOk; ODb DOk]
       ++ [OOk; OOk; OOk; OOk; OErr EParse; ODb DOk; ODb DOk; ODb DOk; OOk; ODb DOk; OErr EDecl; OOk;
           OApi AOk; ODb DOk; OOk]
       ++ [OMissing; OOk; OMissing; OOk; OApi AOk; OApi (ASizeIs 1); ODb (DSizeIs 1); ODb DOk; OOk;
           OStats 2; OFresh 6; OErr EPop]
  /\ snd (srun (exP ++ exR) ssess0 shared0)
     = [OOk; OOk; OOk; ODb DOk]
       ++ [OMissing; OOk; OMissing; OOk; OApi AOk; OApi (ASizeIs 1); ODb (DSizeIs 1); ODb DOk; OOk;
           OStats 0; OFresh 3; OErr EPop].
Proof. vm_compute. repeat split; reflexivity. Qed.

(** the hypotheses of the Section are satisfiable (the instance's rejection is clean) *)
Example c08_hypotheses_satisfiable :
  (forall d k n a m, In m (fnames d) -> In m (fnames (sreject d k n a)))
  /\ (forall d k n a m, In m (fnames (sreject d k n a)) -> In m (fnames d) \/ (k = NFunc /\ m = n)).
Proof. split; [exact sreject_mono|exact sreject_names]. Qed.
