(** C10 — proofs about the concrete step [egg_step] (Sched/EggStep.v) and the regenerated
    desugaring / flag facts (gen/SchedRunFacts.v). *)
From Coq Require Import List Arith ZArith Bool PeanoNat Lia.
Import ListNotations.
Require Import Verif.Base.Res Verif.Base.Cases Verif.gen.UFSeq Verif.Egg.Model Verif.Egg.Rules.
Require Import Verif.Sched.Syntax Verif.gen.SchedFns Verif.gen.SchedRunFacts Verif.Sched.Algebra
  Verif.Sched.Laws Verif.Sched.EggStep.

(** ** the surface forms, through the regenerated desugaring *)
Section Desugar.
Context {St R F I : Type}.
Variable step : St -> R -> St * RunReport I.
Variable holds : St -> F -> bool.

Theorem parse_run (Hs : singleton_like step) fuel (rs : R) n (u : option F) s :
  exec step holds fuel s (desugar_run rs n u) = Ok (iterate step holds rs u n s RunReport_default).
Proof. unfold desugar_run. destruct u; [apply until_spec|apply run_n]; exact Hs. Qed.

Theorem parse_shapes (rs : R) (u : option F) n (tail : list (schedule R F)) :
  desugar_atom rs = Run (mkConfig rs (@None F))
  /\ desugar_run_leaf rs u = Run (mkConfig rs u)
  /\ desugar_seq tail = Sequence tail
  /\ desugar_run_schedule tail = Sequence tail
  /\ desugar_repeat n tail = Repeat n (Sequence tail)
  /\ desugar_saturate tail = Saturate (Sequence tail).
Proof. repeat split; reflexivity. Qed.
End Desugar.

(** ** which merge results feed the flag *)
Theorem flag_inputs :
  (forall added removed esc, table_merge_changed added removed esc = (added || esc)%bool)
  /\ (forall (V W : Type) (vneq : V -> V -> bool) (wneq : W -> W -> bool) rc ro sc so,
        merge_callback_changed vneq wneq rc ro sc so = (vneq rc ro || wneq sc so)%bool)
  /\ (forall c r, iteration_changed c r = c)
  /\ (forall a b, rebuild_needed a b = negb (Nat.eqb a b)).
Proof. repeat split; reflexivity. Qed.

(** ** the concrete step *)
Theorem egg_step_singleton (p : prog) : singleton_like (egg_step p).
Proof. apply step_of_singleton_like. Qed.

Theorem egg_run_n (p : prog) fuel rs n u st :
  egg_exec p fuel st (desugar_run rs n u)
  = Ok (iterate (egg_step p) egg_holds rs u n st RunReport_default).
Proof. apply parse_run. apply egg_step_singleton. Qed.

(** an aborted run stays where it is and reports no update *)
Lemma egg_step_error p s e r : egg_step p (s, Some e) r = ((s, Some e), RunReport_singleton (fun b : bool => b) false).
Proof. reflexivity. Qed.

(** ** a removal is not reported: witness.  One relation D (table 0) over i64, D(1) stored, ruleset 0
    holds [(rule ((D x)) ((delete (D x))))].  The iteration empties the table and reports
    [updated = false]. *)
Definition del_prog : prog :=
  mkProg [MOld] [mkRule [FPat (PApp 0 [PVar 0])] [ADelete 0 [PVar 0]]] [(0, Rules [0])].
Definition del_state : dbst :=
  (fst (xexec [MOld] (init 1) (XSet 0 [TI 1%Z] (TI 0%Z))), None).

Lemma delete_not_reported :
  updated (snd (egg_step del_prog del_state 0)) = false
  /\ tabs_size (fst del_state) = 1
  /\ tabs_size (fst (fst (egg_step del_prog del_state 0))) = 0
  /\ snd (fst (egg_step del_prog del_state 0)) = None.
Proof. vm_compute. repeat split; reflexivity. Qed.
