"""C10 configuration for bin/check."""

CFG = {
        "tier_a": ["SchedFns", "SchedRunFacts.desugar_run", "SchedRunFacts.desugar_schedule", "SchedRunFacts.table_merge_changed",
                   "SchedRunFacts.merge_callback_changed", "SchedRunFacts.iteration_changed", "SchedRunFacts.rebuild_needed"],
        "model_targets": ["Sched/Algebra.vo", "Sched/EggStep.vo"],
        "proof_targets": ["Props/C10.vo"],
        "harness": [{"bin": "h_sched", "prefix": "cases_sched"}],
        "trusted": [
            "translator /verif/translator (sched.rs: run_schedule / run_rules / collect_rule_ids from src/lib.rs, "
            "RunReport default/union/singleton from egglog-reports/src/lib.rs -> gen/SchedFns.v; x_schedrun.rs: the schedule built by "
            "parse_command \"run\"/\"run-schedule\" and parse_schedule, the inputs of the database `changed` flag (merge_all/merge_simple, "
            "MergeFn::to_callback, IterationReport::changed, run_rules_inner) -> gen/SchedRunFacts.v; the theorems are about these files)",
            "harness h_sched: ruleset of each engine iteration is identified by a per-ruleset :naive marker rule in the iteration's rule report; "
            "stream egg: Egg-fragment programs (harness/src/egg.rs) printed once as egglog text and once as Gallina",
        ],
        "theorem_backed": "run_schedule (translated): (run R n) = n single iterations ending after the first no-change one; :until tested before "
                          "every iteration; repeat a (repeat b s) = repeat (a*b) s under no early stop; seq associativity/flattening/unit; "
                          "saturate ends on a no-update execution and (for quiescent leaves) at a fixpoint, idempotent; RunReport monoid; "
                          "collect_rule_ids resolves combined rulesets against the current table -- all for every step/holds. Session 4: the "
                          "command (run R n :until f) as the parser desugars it (regenerated desugar_run) IS iterate (c10_parse_run), saturate/repeat "
                          "wrap their bodies in one Sequence (c10_parse_shapes); the `changed` flag takes rows added and merge callbacks that changed "
                          "a value/subsume flag, never removals nor the rebuild (c10_flag_inputs, regenerated); the concrete step egg_step (one "
                          "iteration of Egg/Rules.v over the ruleset resolved by collect_rule_ids, flag computed per ground command through the "
                          "regenerated flag functions) is singleton_like, so (run R n :until f) over Egg states is iterate of Egg iterations "
                          "(c10_egg_step_singleton, c10_egg_run_n); 'updated iff database changed' is REFUTED right-to-left by a delete-only "
                          "iteration (c10_updated_iff_changed_refuted; same on the engine, counted by the harness)",
        "link_only": "leaf quiescence of egg_step for delete-free rulesets (an iteration whose flag is false leaves the Egg state unchanged) is NOT "
                     "proved yet: it is checked by h_sched stream egg, where the kernel evaluates run_schedule over egg_step and compares, per case, "
                     "the changed flag of EVERY engine iteration and the observable database after the schedule (class vector of probe terms, table "
                     "sizes, subsumed counts, int probes) -- so what one iteration does to the database and when it reports `changed` is now a "
                     "model-vs-engine correspondence, no longer only law pairs; purity of check_facts and law-related schedule pairs on the text "
                     "programs (rewrite pool) remain engine-only checks of the first stream",
        "assumptions": [
            "step_rules and check_facts are total functions of the state (Err paths: NoSuchRuleset is excluded by schedule typechecking; a failing primitive aborts the schedule and is not modelled)",
            "check_facts is modelled as a pure test (the code runs a throw-away rule; the harness checks the dump is unchanged by a stopped :until run)",
            "RunReport timing / match-count maps are not modelled (no branch reads them)",
            "custom schedulers (src/scheduler.rs, can_stop != !updated) are covered by the theorems that do not assume singleton_like, not by the harness",
            "egg_step models an aborted iteration (panic / :no-merge conflict) as a sticky error state reporting no update; stream egg skips schedules on which the engine returns an error",
            "stream egg keeps delete rules on a relation no rule writes (the engine applies the removals of a batch before its insertions, the sequential model in rule order) and uses saturate only in programs whose rules create no terms",
        ],
    }
