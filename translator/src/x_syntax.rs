//! Extension module (Tier A) for C15. Output: coq/gen/SyntaxFacts.v
//! Contract: return (text of the .v file, report lines). Each report line is one JSON object
//! {"item":"SyntaxFacts.<name>","file":"<rust file>","ok":true|false[,"error":"..."]}.
//! Fail closed: when a site is not recognised, OMIT the Gallina definition (so dependent proofs stop
//! compiling) and push an ok:false report line.
//!
//! Items (all read from the Rust source on every run):
//!   printer_escape     egglog-ast/src/generic_ast_helpers.rs  `Display for Literal`, the
//!                      `Literal::String` arm: which characters are escaped and to what text;
//!                      plus the `.0` suffix rule of the `Literal::Float` arm and the text of `Unit`
//!   lexer_string       src/ast/parse.rs `SexpParser::next`: closing quote, escape introducer,
//!                      the `(in_escape, c)` unescape table, the delimiters of a `Token::Other`,
//!                      the single-character tokens
//!   lexer_classify     src/ast/parse.rs `sexp`, `Token::Other` arm: the ORDER in which a token is
//!                      classified (true / false / i64 / NaN / inf / -inf / finite f64 / atom)
//!   command_heads      `Parser::parse_command`: heads of `match head.as_str()`, in source order, each
//!                      with the accepted tail lengths (slice patterns of `match tail`) when the arm
//!                      is such a match; the fallback arm
//!   action_heads       same for `Parser::parse_action`
//!   schedule_heads     same for `Parser::parse_schedule`
//!   fact_heads         same for `Parser::parse_fact`
use quote::ToTokens;
use std::path::Path;
use syn::visit::Visit;

const HELPERS: &str = "egglog-ast/src/generic_ast_helpers.rs";
const PARSE: &str = "src/ast/parse.rs";

fn toks<T: ToTokens>(t: &T) -> String {
    t.to_token_stream().to_string()
}

fn nlist(s: &str) -> String {
    let v: Vec<String> = s.chars().map(|c| (c as u32).to_string()).collect();
    format!("[{}]", v.join("; "))
}

fn comment_safe(s: &str) -> String {
    s.chars()
        .map(|c| if c.is_ascii_graphic() && c != '*' && c != '(' && c != ')' && c != '"' { c } else { '?' })
        .collect()
}

fn parse(repo: &Path, rel: &str) -> Result<syn::File, String> {
    let src = std::fs::read_to_string(repo.join(rel)).map_err(|e| format!("{rel}: {e}"))?;
    syn::parse_file(&src).map_err(|e| format!("{rel}: {e}"))
}

/// all functions (free or in impls) called `name`
fn find_fns(file: &syn::File, name: &str) -> Vec<syn::Block> {
    struct F<'n> {
        name: &'n str,
        found: Vec<syn::Block>,
    }
    impl<'ast, 'n> Visit<'ast> for F<'n> {
        fn visit_impl_item_fn(&mut self, f: &'ast syn::ImplItemFn) {
            if f.sig.ident == self.name {
                self.found.push(f.block.clone());
            }
            syn::visit::visit_impl_item_fn(self, f);
        }
        fn visit_item_fn(&mut self, f: &'ast syn::ItemFn) {
            if f.sig.ident == self.name {
                self.found.push((*f.block).clone());
            }
            syn::visit::visit_item_fn(self, f);
        }
        fn visit_item_mod(&mut self, m: &'ast syn::ItemMod) {
            // skip #[cfg(test)] modules
            if m.attrs.iter().any(|a| toks(a).contains("test")) {
                return;
            }
            syn::visit::visit_item_mod(self, m);
        }
    }
    let mut v = F { name, found: vec![] };
    v.visit_file(file);
    v.found
}

fn the_fn(file: &syn::File, name: &str) -> Result<syn::Block, String> {
    let mut v = find_fns(file, name);
    if v.len() != 1 {
        return Err(format!("expected exactly one fn {name}, found {}", v.len()));
    }
    Ok(v.remove(0))
}

/// every `match` expression inside a block, in source order (outer before inner)
fn matches_in<T: ToTokens>(node: &T) -> Vec<syn::ExprMatch> {
    struct M(Vec<syn::ExprMatch>);
    impl<'ast> Visit<'ast> for M {
        fn visit_expr_match(&mut self, m: &'ast syn::ExprMatch) {
            self.0.push(m.clone());
            syn::visit::visit_expr_match(self, m);
        }
    }
    let mut v = M(vec![]);
    let ts = node.to_token_stream();
    if let Ok(b) = syn::parse2::<syn::Block>(ts.clone()) {
        v.visit_block(&b);
    } else if let Ok(e) = syn::parse2::<syn::Expr>(ts) {
        v.visit_expr(&e);
    }
    v.0
}

fn char_pat(p: &syn::Pat) -> Option<char> {
    if let syn::Pat::Lit(l) = p {
        if let syn::Lit::Char(c) = &l.lit {
            return Some(c.value());
        }
    }
    None
}

fn char_expr(e: &syn::Expr) -> Option<char> {
    if let syn::Expr::Lit(l) = e {
        if let syn::Lit::Char(c) = &l.lit {
            return Some(c.value());
        }
    }
    None
}

/// `write!(f, "<lit>")?` -> the format string
fn write_lit(e: &syn::Expr) -> Option<String> {
    let inner = match e {
        syn::Expr::Try(t) => &*t.expr,
        other => other,
    };
    let syn::Expr::Macro(m) = inner else { return None };
    if !m.mac.path.is_ident("write") {
        return None;
    }
    let args = m
        .mac
        .parse_body_with(syn::punctuated::Punctuated::<syn::Expr, syn::Token![,]>::parse_terminated)
        .ok()?;
    if args.len() != 2 {
        return None;
    }
    if let syn::Expr::Lit(l) = &args[1] {
        if let syn::Lit::Str(s) = &l.lit {
            return Some(s.value());
        }
    }
    None
}

// ------------------------------------------------------------------------------------------------
// printer
// ------------------------------------------------------------------------------------------------
fn printer_escape(repo: &Path) -> Result<String, String> {
    let file = parse(repo, HELPERS)?;
    // impl Display for Literal
    let mut body = None;
    for it in &file.items {
        if let syn::Item::Impl(im) = it {
            let tr = im.trait_.as_ref().map(|t| toks(&t.1)).unwrap_or_default();
            if tr.ends_with("Display") && toks(&*im.self_ty) == "Literal" {
                for ii in &im.items {
                    if let syn::ImplItem::Fn(f) = ii {
                        if f.sig.ident == "fmt" {
                            if body.is_some() {
                                return Err("two Display for Literal".into());
                            }
                            body = Some(f.block.clone());
                        }
                    }
                }
            }
        }
    }
    let body = body.ok_or("impl Display for Literal not found")?;
    let ms = matches_in(&body);
    let top = ms.first().ok_or("no match in Display for Literal")?;
    let mut variants = vec![];
    let mut out = String::new();
    for arm in &top.arms {
        let p = toks(&arm.pat).replace(' ', "");
        variants.push(p.clone());
        if p.starts_with("Literal::String(") {
            // for c in s.chars() { match c { .. } }
            let inner = matches_in(&arm.body);
            let m = inner
                .iter()
                .find(|m| toks(&*m.expr) == "c")
                .ok_or("Literal::String arm: `match c` not found")?;
            if !toks(&arm.body).contains("s . chars ()") {
                return Err("Literal::String arm does not iterate over s.chars()".into());
            }
            let mut table = vec![];
            let mut default_verbatim = false;
            for a in &m.arms {
                if a.guard.is_some() {
                    return Err("guard in string-escape match".into());
                }
                if let Some(c) = char_pat(&a.pat) {
                    let s = write_lit(&a.body).ok_or("escape arm is not write!(f, \"lit\")?")?;
                    if s.contains('{') {
                        return Err("escape arm uses a format argument".into());
                    }
                    table.push(format!("({}, {})", c as u32, nlist(&s)));
                } else if let syn::Pat::Ident(id) = &a.pat {
                    let s = write_lit(&a.body).ok_or("default escape arm is not a write!")?;
                    if s != format!("{{{}}}", id.ident) {
                        return Err(format!("default escape arm prints {s:?}, not the character"));
                    }
                    default_verbatim = true;
                } else {
                    return Err(format!("unrecognised escape pattern {}", toks(&a.pat)));
                }
            }
            if !default_verbatim {
                return Err("no verbatim default arm in string escaping".into());
            }
            // opening and closing quote: the write!s outside the loop
            let arm_t = toks(&arm.body);
            if arm_t.matches("write ! (f , \"\\\"\")").count() != 2 {
                return Err("Literal::String arm: expected exactly two write!(f, \"\\\"\") (open/close quote)".into());
            }
            out.push_str(&format!(
                "(* Display for Literal, String arm: opening/closing quote, escaped characters, all others verbatim *)\nDefinition printer_string_quote : N := 34.\nDefinition printer_escape_table : list (N * list N) := [{}].\n",
                table.join("; ")
            ));
        } else if p.starts_with("Literal::Float(") {
            let t = toks(&arm.body);
            let ok = t.contains("to_string ()")
                && t.contains("parse :: < i64 > ()")
                && t.contains("\"{str}.0\"")
                && t.contains("\"{str}\"");
            if !ok {
                return Err("Literal::Float arm: the `.0` rule was not recognised".into());
            }
            // if let Ok(_) = str.parse::<i64>() { "{str}.0" } else { "{str}" }
            let i0 = t.find("\"{str}.0\"").unwrap();
            let i1 = t.rfind("\"{str}\"").unwrap();
            let ie = t.find("else").ok_or("Float arm: no else")?;
            if !(i0 < ie && ie < i1) {
                return Err("Literal::Float arm: `.0` is not in the i64-parses branch".into());
            }
            out.push_str(&format!(
                "(* Display for Literal, Float arm: suffix appended when the shortest form parses as an i64 *)\nDefinition printer_float_int_suffix : list N := {}.\n",
                nlist(".0")
            ));
        } else if p == "Literal::Unit" {
            let s = write_lit(&arm.body).ok_or("Literal::Unit arm is not a write!")?;
            out.push_str(&format!("Definition printer_unit_text : list N := {}.\n", nlist(&s)));
        } else if p.starts_with("Literal::Int(") || p.starts_with("Literal::Bool(") {
            if !toks(&arm.body).starts_with("Display :: fmt") {
                return Err(format!("{p}: not Display::fmt"));
            }
        } else {
            return Err(format!("unknown Literal variant arm {p}"));
        }
    }
    for need in ["Literal::String(", "Literal::Float(", "Literal::Unit", "Literal::Int(", "Literal::Bool("] {
        if !variants.iter().any(|v| v.starts_with(need)) {
            return Err(format!("arm {need} missing"));
        }
    }
    Ok(out)
}

// ------------------------------------------------------------------------------------------------
// lexer
// ------------------------------------------------------------------------------------------------
fn lexer_string(repo: &Path) -> Result<String, String> {
    let file = parse(repo, PARSE)?;
    // the `next` of impl SexpParser
    let mut body = None;
    for it in &file.items {
        if let syn::Item::Impl(im) = it {
            if toks(&*im.self_ty) == "SexpParser" && im.trait_.is_none() {
                for ii in &im.items {
                    if let syn::ImplItem::Fn(f) = ii {
                        if f.sig.ident == "next" {
                            body = Some(f.block.clone());
                        }
                    }
                }
            }
        }
    }
    let body = body.ok_or("SexpParser::next not found")?;
    let ms = matches_in(&body);
    // (1) `match c { '(' => Token::Open, ')' => Token::Close, '"' => {..}, _ => {..} }`
    let top = ms.iter().find(|m| toks(&*m.expr) == "c").ok_or("`match c` not found in next")?;
    let mut singles = vec![];
    let mut quote = None;
    let mut has_other = false;
    for a in &top.arms {
        if let Some(c) = char_pat(&a.pat) {
            let b = toks(&a.body);
            if b == "Token :: Open" {
                singles.push(format!("({}, true)", c as u32));
            } else if b == "Token :: Close" {
                singles.push(format!("({}, false)", c as u32));
            } else if b.contains("Token :: String") {
                quote = Some(c);
            } else {
                return Err(format!("unrecognised token arm for {c:?}"));
            }
        } else if toks(&a.pat) == "_" && toks(&a.body).contains("Token :: Other") {
            has_other = true;
        } else {
            return Err(format!("unrecognised token pattern {}", toks(&a.pat)));
        }
    }
    let quote = quote.ok_or("no string-token arm")?;
    if !has_other {
        return Err("no Token::Other arm".into());
    }
    // (2) inside the string arm: `match self.current_char()` with the `!in_escape` guards
    let mut close = None;
    let mut intro = None;
    let mut delims: Option<Vec<char>> = None;
    for m in ms.iter().filter(|m| toks(&*m.expr) == "self . current_char ()") {
        for a in &m.arms {
            let guard = a.guard.as_ref().map(|g| toks(&*g.1));
            let pat = &a.pat;
            // Some('x') / Some('a' | 'b')
            let inner: Vec<char> = match pat {
                syn::Pat::TupleStruct(ts) if toks(&ts.path) == "Some" && ts.elems.len() == 1 => match &ts.elems[0] {
                    syn::Pat::Or(o) => o.cases.iter().filter_map(char_pat).collect(),
                    p => char_pat(p).into_iter().collect(),
                },
                _ => vec![],
            };
            let b = toks(&a.body);
            match guard.as_deref() {
                Some("! in_escape") => {
                    if inner.len() != 1 {
                        return Err("guarded string arm without a character".into());
                    }
                    if b == "break" {
                        if close.replace(inner[0]).is_some() {
                            return Err("two closing-quote arms".into());
                        }
                    } else if b == "in_escape = true" {
                        if intro.replace(inner[0]).is_some() {
                            return Err("two escape-introducer arms".into());
                        }
                    } else {
                        return Err(format!("unrecognised guarded arm body {b}"));
                    }
                }
                None => {
                    if !inner.is_empty() && b == "break" {
                        if delims.replace(inner).is_some() {
                            return Err("two delimiter arms".into());
                        }
                    }
                }
                Some(g) => {
                    if g != "c . is_whitespace ()" && g != "in_comment" {
                        return Err(format!("unrecognised guard {g}"));
                    }
                }
            }
        }
    }
    let close = close.ok_or("closing-quote arm not found")?;
    let intro = intro.ok_or("escape-introducer arm not found")?;
    let delims = delims.ok_or("delimiter arm of Token::Other not found")?;
    if close != quote {
        return Err("string opens and closes with different characters".into());
    }
    // (3) the unescape table
    let um = ms
        .iter()
        .find(|m| toks(&*m.expr).replace(' ', "") == "(in_escape,c)")
        .ok_or("`match (in_escape, c)` not found")?;
    let mut table = vec![];
    let mut verbatim = false;
    let mut default_err = false;
    for a in &um.arms {
        let syn::Pat::Tuple(t) = &a.pat else { return Err("unescape arm is not a tuple".into()) };
        if t.elems.len() != 2 || a.guard.is_some() {
            return Err("unescape arm shape".into());
        }
        let flag = toks(&t.elems[0]);
        match (flag.as_str(), char_pat(&t.elems[1])) {
            ("false", None) => {
                if toks(&t.elems[1]) != toks(&a.body) {
                    return Err("(false, c) arm does not yield c".into());
                }
                verbatim = true;
            }
            ("true", Some(c)) => {
                if default_err {
                    return Err("escape arm after the default arm".into());
                }
                let d = char_expr(&a.body).ok_or("unescape arm body is not a char literal")?;
                table.push(format!("({}, {})", c as u32, d as u32));
            }
            ("true", None) => {
                if !toks(&a.body).contains("return error !") {
                    return Err("(true, c) default arm is not an error".into());
                }
                default_err = true;
            }
            _ => return Err("unescape arm flag".into()),
        }
    }
    if !verbatim || !default_err {
        return Err("unescape match lacks the verbatim or the error arm".into());
    }
    let dl: Vec<String> = delims.iter().map(|c| (*c as u32).to_string()).collect();
    Ok(format!(
        "(* SexpParser::next: single-character tokens (code, is_open), string quote, escape introducer,\n   the (in_escape, c) table (any other escaped character is an error; unescaped characters are verbatim),\n   the non-whitespace delimiters that end a Token::Other *)\nDefinition lexer_paren_tokens : list (N * bool) := [{}].\nDefinition lexer_string_quote : N := {}.\nDefinition lexer_escape_intro : N := {}.\nDefinition lexer_unescape_table : list (N * N) := [{}].\nDefinition lexer_other_delims : list N := [{}].\n",
        singles.join("; "),
        quote as u32,
        intro as u32,
        table.join("; "),
        dl.join("; ")
    ))
}

fn lexer_classify(repo: &Path) -> Result<String, String> {
    let file = parse(repo, PARSE)?;
    let body = the_fn(&file, "sexp")?;
    let ms = matches_in(&body);
    let top = ms.iter().find(|m| toks(&*m.expr) == "token").ok_or("`match token` not found in sexp")?;
    let arm = top
        .arms
        .iter()
        .find(|a| toks(&a.pat) == "Token :: Other")
        .ok_or("Token::Other arm not found")?;
    let syn::Expr::Block(b) = &*arm.body else { return Err("Token::Other arm is not a block".into()) };
    let last = b.block.stmts.last().ok_or("empty Token::Other arm")?;
    let syn::Stmt::Expr(mut cur, None) = last.clone() else { return Err("Token::Other arm does not end in an expression".into()) };
    let result_of = |blk: &syn::Block| -> Result<String, String> {
        let t = toks(blk).replace(' ', "");
        let r = if t.contains("Literal::Bool(true)") {
            "LRBool true"
        } else if t.contains("Literal::Bool(false)") {
            "LRBool false"
        } else if t.contains("f64::NAN") {
            "LRNaN"
        } else if t.contains("f64::NEG_INFINITY") {
            "LRNegInf"
        } else if t.contains("f64::INFINITY") {
            "LRInf"
        } else {
            return Err(format!("unrecognised literal result {t}"));
        };
        Ok(r.to_string())
    };
    let mut order = vec![];
    loop {
        let syn::Expr::If(i) = &cur else { return Err("classification chain: expected if".into()) };
        let c = toks(&*i.cond);
        if let Some(rest) = c.strip_prefix("s == ") {
            let lit: syn::LitStr = syn::parse_str(rest).map_err(|_| format!("condition {c}"))?;
            order.push(format!("LCWord {} ({})", nlist(&lit.value()), result_of(&i.then_branch)?));
        } else if c.contains("s . parse :: < i64 > ()") && c.starts_with("let Ok (") {
            if !toks(&i.then_branch).replace(' ', "").contains("Literal::Int(") {
                return Err("i64 branch does not build Literal::Int".into());
            }
            order.push("LCInt".to_string());
        } else if c.contains("s . parse :: < f64 > ()") && c.starts_with("let Ok (") {
            let t = toks(&i.then_branch).replace(' ', "");
            // if float.is_finite() { Literal::Float } else { Atom }
            let ok = t.contains(".is_finite()")
                && t.find("Literal::Float(").map_or(false, |a| t.find("else").map_or(false, |e| a < e))
                && t.rfind("Sexp::Atom(").map_or(false, |a| t.find("else").map_or(false, |e| a > e));
            if !ok {
                return Err("f64 branch: finite -> Float, else Atom not recognised".into());
            }
            order.push("LCFloatFinite".to_string());
        } else {
            return Err(format!("unrecognised classification condition {c}"));
        }
        match &i.else_branch {
            Some((_, e)) => match &**e {
                syn::Expr::If(_) => cur = (**e).clone(),
                syn::Expr::Block(bl) => {
                    if !toks(&bl.block).replace(' ', "").contains("Sexp::Atom(") {
                        return Err("final else is not an Atom".into());
                    }
                    order.push("LCAtom".to_string());
                    break;
                }
                _ => return Err("else shape".into()),
            },
            None => return Err("classification chain without final else".into()),
        }
    }
    Ok(format!(
        "(* `sexp`, Token::Other arm: the order in which the text of a token is classified *)\nDefinition lexer_classify_order : list lex_class :=\n  [{}].\n",
        order.join(";\n   ")
    ))
}

// ------------------------------------------------------------------------------------------------
// keyword tables
// ------------------------------------------------------------------------------------------------
fn peel(e: &syn::Expr) -> &syn::Expr {
    match e {
        syn::Expr::Block(b) if b.block.stmts.len() == 1 => match &b.block.stmts[0] {
            syn::Stmt::Expr(inner, None) => peel(inner),
            _ => e,
        },
        syn::Expr::Paren(p) => peel(&p.expr),
        _ => e,
    }
}

/// arity patterns of `match tail { [a, b] => .., [a, rest @ ..] => .., _ => return error!(..) }`
fn arities(m: &syn::ExprMatch) -> Result<String, String> {
    let mut v = vec![];
    for a in &m.arms {
        match &a.pat {
            syn::Pat::Slice(s) => {
                let mut n = 0usize;
                let mut open = false;
                for (k, el) in s.elems.iter().enumerate() {
                    let t = toks(el);
                    if t == ".." || t.ends_with("@ ..") {
                        if k + 1 != s.elems.len() {
                            return Err("rest pattern not last".into());
                        }
                        open = true;
                    } else {
                        n += 1;
                    }
                }
                v.push(if open { format!("AAtLeast {n}") } else { format!("AExact {n}") });
            }
            syn::Pat::Wild(_) => {
                if !toks(&a.body).contains("return error !") {
                    return Err("`_` arm of `match tail` is not an error".into());
                }
            }
            p => return Err(format!("unrecognised tail pattern {}", toks(p))),
        }
    }
    Ok(format!("Some [{}]", v.join("; ")))
}

fn heads(repo: &Path, func: &str, def: &str, fallbacks: &[(&str, &str)]) -> Result<String, String> {
    let file = parse(repo, PARSE)?;
    let body = the_fn(&file, func)?;
    let ms = matches_in(&body);
    let cands: Vec<&syn::ExprMatch> = ms.iter().filter(|m| toks(&*m.expr) == "head . as_str ()").collect();
    if cands.len() != 1 {
        return Err(format!("{func}: expected one `match head.as_str()`, found {}", cands.len()));
    }
    let m = cands[0];
    let mut rows = vec![];
    let mut fallback = None;
    for (k, a) in m.arms.iter().enumerate() {
        if a.guard.is_some() {
            return Err("guard on a keyword arm".into());
        }
        let names: Vec<String> = match &a.pat {
            syn::Pat::Lit(l) => match &l.lit {
                syn::Lit::Str(s) => vec![s.value()],
                _ => return Err("non-string keyword".into()),
            },
            syn::Pat::Or(o) => {
                let mut v = vec![];
                for c in &o.cases {
                    match c {
                        syn::Pat::Lit(l) => match &l.lit {
                            syn::Lit::Str(s) => v.push(s.value()),
                            _ => return Err("non-string keyword".into()),
                        },
                        _ => return Err("non-literal in or-pattern".into()),
                    }
                }
                v
            }
            syn::Pat::Wild(_) => {
                if k + 1 != m.arms.len() {
                    return Err("`_` arm is not last".into());
                }
                let b = toks(&a.body);
                let mut hit = None;
                for (needle, name) in fallbacks {
                    if b.contains(needle) {
                        hit = Some(name.to_string());
                        break;
                    }
                }
                fallback = Some(hit.ok_or(format!("{func}: fallback arm not recognised: {b}"))?);
                continue;
            }
            p => return Err(format!("unrecognised keyword pattern {}", toks(p))),
        };
        let ar = match peel(&a.body) {
            syn::Expr::Match(tm) if toks(&*tm.expr) == "tail" => arities(tm)?,
            _ => "None".to_string(),
        };
        for n in names {
            rows.push(format!("({}, {}) (* {} *)", nlist(&n), ar, comment_safe(&n)));
        }
    }
    let fallback = fallback.ok_or(format!("{func}: no fallback arm"))?;
    Ok(format!(
        "(* Parser::{func}: `match head.as_str()` — heads in source order with the tail lengths accepted by the\n   arm's `match tail` (None: the arm is not a plain `match tail`), and what the `_` arm does *)\nDefinition {def}_heads : list (list N * option (list arity)) :=\n  [{}].\nDefinition {def}_fallback : kw_fallback := {}.\n",
        rows.join(";\n   "),
        fallback
    ))
}

pub fn generate(repo: &std::path::Path) -> (String, Vec<String>) {
    let mut text = String::from(
        "(* GENERATED by /verif/translator (x_syntax.rs) from egglog-ast/src/generic_ast_helpers.rs and\n   src/ast/parse.rs — do not edit. Text = code points (N). *)\nFrom Coq Require Import List NArith.\nImport ListNotations.\nLocal Open Scope N_scope.\n\nInductive lex_res := LRBool (b : bool) | LRNaN | LRInf | LRNegInf.\nInductive lex_class := LCWord (w : list N) (r : lex_res) | LCInt | LCFloatFinite | LCAtom.\nInductive arity := AExact (n : nat) | AAtLeast (n : nat).\nInductive kw_fallback := FBAction | FBExpr | FBError.\n\n",
    );
    let mut report = vec![];
    let items: Vec<(&str, &str, Result<String, String>)> = vec![
        ("printer_escape", HELPERS, printer_escape(repo)),
        ("lexer_string", PARSE, lexer_string(repo)),
        ("lexer_classify", PARSE, lexer_classify(repo)),
        (
            "command_heads",
            PARSE,
            heads(repo, "parse_command", "command", &[("parse_action", "FBAction")]),
        ),
        ("action_heads", PARSE, heads(repo, "parse_action", "action", &[("parse_expr", "FBExpr")])),
        (
            "schedule_heads",
            PARSE,
            heads(repo, "parse_schedule", "schedule", &[("return error !", "FBError")]),
        ),
        ("fact_heads", PARSE, heads(repo, "parse_fact", "fact", &[("parse_expr", "FBExpr")])),
    ];
    for (name, file, r) in items {
        match r {
            Ok(t) => {
                text.push_str(&t);
                text.push('\n');
                report.push(format!("{{\"item\":\"SyntaxFacts.{name}\",\"file\":\"{file}\",\"ok\":true}}"));
            }
            Err(e) => {
                text.push_str(&format!("(* {name}: NOT REGENERATED *)\n\n"));
                let e = e.replace('\\', "\\\\").replace('"', "\\\"").replace('\n', " ");
                report.push(format!(
                    "{{\"item\":\"SyntaxFacts.{name}\",\"file\":\"{file}\",\"ok\":false,\"error\":\"{e}\"}}"
                ));
            }
        }
    }
    (text, report)
}
