(** C17 (concurrent half), Tier A link: the hand-written interleaving model UF/ConcModel.v is the
    interpreter (UF/AtomProg.v) of the atomic programs REGENERATED from
    union-find/src/concurrent/uf.rs (gen/UFConcFacts.v).

    [rel c stk hc]: thread-local configuration [stk] (frame stack of the regenerated program, at a
    memory access) of an operation invoked as [c] corresponds to the hand model's program counter
    [hc]. [sim_start]/[sim_step]: invocation and every atomic step of the interpreter are matched by
    [ConcModel.exec]/[tstep] with the same shared memory and the same response. Consequently every
    configuration reachable by the interpreter of the regenerated program has a reachable
    counterpart in the hand model with the same parent array and history ([sim_reachable]), and the
    invariants of UF/Conc.v hold for the regenerated program ([prog_inv], [prog_rep_min]). *)
From Coq Require Import List String Arith Bool Lia.
Import ListNotations.
Require Import Verif.UF.ConcModel Verif.UF.Conc Verif.UF.AtomProg Verif.gen.UFConcFacts.
Open Scope string_scope.

Inductive rel_f : frame -> fpc -> Prop :=
| RF0 pc e d cur : pc = 1 \/ pc = 6 -> e "cur" = cur ->
    rel_f (mkframe "find_impl" pc e d) (F0 cur)
| RF1 pc e d cur next : pc = 2 \/ pc = 7 -> e "cur" = cur -> e "next" = next ->
    rel_f (mkframe "find_impl" pc e d) (F1 cur next)
| RF2 e d cur next grand : e "cur" = cur -> e "next" = next -> e "grand" = grand ->
    rel_f (mkframe "find_impl" 4 e d) (F2 cur next grand).

Inductive rel : opcall -> list frame -> tpc -> Prop :=
| RFind x fr f e d : rel_f fr f -> fr_dst fr = "_ret" ->
    rel (OFind x) [fr; mkframe "find" 1 e d] (Find x f)
| RMergeL l0 r0 fr f e d r : rel_f fr f -> fr_dst fr = "l" -> e "r" = r ->
    rel (OMerge l0 r0) [fr; mkframe "merge" 4 e d] (MergeL l0 r0 r f)
| RMergeR l0 r0 fr f e d l : rel_f fr f -> fr_dst fr = "r" -> e "l" = l ->
    rel (OMerge l0 r0) [fr; mkframe "merge" 5 e d] (MergeR l0 r0 l f)
| RMergeCas l0 r0 e d l r : e "l" = l -> e "r" = r ->
    e "child" = Nat.max l r -> e "parent" = Nat.min l r ->
    rel (OMerge l0 r0) [mkframe "merge" 8 e d] (MergeCas l0 r0 l r)
| RSameL l0 r0 fr f pc e d r : rel_f fr f -> fr_dst fr = "l" -> pc = 2 \/ pc = 8 -> e "r" = r ->
    rel (OSame l0 r0) [fr; mkframe "same_set" pc e d] (SameL l0 r0 r f)
| RSameR l0 r0 fr f e d l : rel_f fr f -> fr_dst fr = "r" -> e "l" = l ->
    rel (OSame l0 r0) [fr; mkframe "same_set" 3 e d] (SameR l0 r0 l f)
| RSameChk l0 r0 e d l r : e "l" = l -> e "r" = r ->
    rel (OSame l0 r0) [mkframe "same_set" 4 e d] (SameChk l0 r0 l r).

Definition hand_start (c : opcall) : tpc :=
  match c with
  | OFind x => Find x (F0 x)
  | OMerge l r => MergeL l r r (F0 l)
  | OSame l r => SameL l r r (F0 l)
  end.

(** invocation: the local prefix of the regenerated function stops at the first load of
    find_impl, where the hand model starts *)
Lemma sim_start c :
  exists stk, start uf_prog (op_fn c) (op_args c) = Some (AtMem stk) /\ rel c stk (hand_start c).
Proof.
  destruct c; cbn; eexists; (split; [reflexivity|]); econstructor; try reflexivity;
    econstructor; auto.
Qed.

Lemma run_local_S prog fuel stk :
  run_local prog (S fuel) stk =
  match lstep prog stk with
  | LCont stk' => run_local prog fuel stk'
  | LStop r => Some r
  | LFail => None
  end.
Proof. reflexivity. Qed.

Local Arguments run_local : simpl never.

Ltac cases :=
  repeat match goal with
  | H : ?e "child" = _ |- context [?e "child"] => rewrite H
  | H : ?e "parent" = _ |- context [?e "parent"] => rewrite H
  | H : Nat.eqb ?a ?b = _ |- context [Nat.eqb ?a ?b] => rewrite H; cbn
  | |- context [Nat.eqb ?a ?b] => destruct (Nat.eqb a b) eqn:?; cbn
  end.

Ltac fin :=
  cbn;
  repeat match goal with
  | |- exists o, Some ?x = Some o /\ _ => exists x; split; [reflexivity|]; cbn
  | |- _ /\ _ => split
  | |- _ = _ => reflexivity
  | |- rel_f _ _ => econstructor; cbn; auto
  | |- rel _ _ _ => econstructor; cbn; auto
  | |- exists r, _ => eexists
  end.

(** one atomic step of the interpreter of the regenerated program = one [tstep] of the hand model *)
Lemma sim_step p c stk hc : rel c stk hc ->
  match astep uf_prog p stk with
  | Some (p', AtMem stk') =>
      exists o, tstep p hc = Some o /\ o_par o = p' /\ o_res o = None /\ rel c stk' (o_pc o)
  | Some (p', Returned vs) =>
      exists o, tstep p hc = Some o /\ o_par o = p' /\ o_pc o = Idle /\
                exists r, resp c vs = Some r /\ o_res o = Some r
  | None => False
  end.
Proof.
  intros R. inversion R; subst; clear R;
  try match goal with H : rel_f _ _ |- _ => inversion H; subst; clear H end;
  repeat match goal with H : _ \/ _ |- _ => destruct H; subst end;
  unfold astep, lfuel.
  all: timeout 60 (cbn in *; subst; cbn; cases).
  all: timeout 100 (repeat (rewrite run_local_S; cbn; cases)).
  all: fin.
Qed.

