(** C16 — The table store behaves like a keyed map with timestamp-ordered scans.
    This file only pins statements and prints their assumptions. *)
From Coq Require Import List Arith PeanoNat.
Import ListNotations.
Require Import Verif.Base.Res Verif.Table.Model Verif.Table.MapSpec Verif.Table.Refine.

Example c16_example :
  run_obs (mkCfg 1 (Some 2)) (mf_of (mkCfg 1 (Some 2)) MNew) empty
    [OIns [1;10;0]; OIns [2;20;0]; OMerge; OGet [1]; OIns [1;11;1]; ORem [2]; OMerge; OScan; OFast (CGe 2 1)]
  = [[[0; 1; 10; 0]]; [[2; 1; 11; 1]]; [[1]; [2; 1; 11; 1]]].
Proof. vm_compute. reflexivity. Qed.
