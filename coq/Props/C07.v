(** C07 — Extraction returns a member of the class, at the minimum cost.
    This file only pins statements and prints their assumptions.

    Model: Extract/Model.v (hand-written from /repo/src/extract.rs, tied to the implementation by
    harness/src/bin/h_extract.rs, which compares [extract]/[extract_variants] with the engine's
    `(extract e)` / `(extract e k)` on generated e-graphs, including the chosen term).
    [repr g t c]: term [t] evaluates, bottom-up through rows of [g] that are present, not subsumed
    and of extractable constructors, into class [c].  [tree_cost]: cost of the term as a tree
    under the :cost annotations with u64 saturating addition (base values cost 1). *)
From Coq Require Import List Arith NArith ZArith PeanoNat Bool.
Import ListNotations.
Require Import Verif.Base.Res Verif.Extract.Model Verif.Extract.Proofs.

(** A successful extraction returns a term of the class built only from allowed rows. *)
Theorem c07_member : forall fuel g root cost t,
  extract fuel g root = Ok (Some (cost, t)) -> repr g t root.
Proof. exact extract_member. Qed.
Print Assumptions c07_member.

(** Its tree cost under the declared costs (saturating u64 sum) is the reported cost. *)
Theorem c07_cost_exact : forall fuel g root cost t,
  extract fuel g root = Ok (Some (cost, t)) -> tree_cost g t = cost.
Proof. exact extract_cost_exact. Qed.
Print Assumptions c07_cost_exact.

(** No allowed term of the class is cheaper (for every e-graph and row order, with or without
    saturation): the relaxation loop stops exactly at the least fixpoint. *)
Theorem c07_optimal : forall fuel g root cost t,
  extract fuel g root = Ok (Some (cost, t)) ->
  forall t', repr g t' root -> (cost <= tree_cost g t')%N.
Proof. exact extract_optimal. Qed.
Print Assumptions c07_optimal.

(** Extraction reports failure only when the class has no allowed term at all. *)
Theorem c07_fails_only_if_empty : forall fuel g root,
  extract fuel g root = Ok None -> ~ exists t, repr g t root.
Proof. exact extract_none_empty. Qed.
Print Assumptions c07_fails_only_if_empty.

(** The final cost table is the least cost of the allowed terms of every class. *)
Theorem c07_costs_are_least : forall g fuel s cnt,
  bellman_ford fuel g empty_cs 0 = Ok (s, cnt) ->
  forall c, match s c with
            | Some (v, _) => (exists t, repr g t c /\ tree_cost g t = v) /\
                             forall t, repr g t c -> (v <= tree_cost g t)%N
            | None => forall t, ~ repr g t c
            end.
Proof. exact costs_are_least. Qed.
Print Assumptions c07_costs_are_least.

(** The `while !ensure_fixpoint` loop terminates on every e-graph. *)
Theorem c07_relaxation_terminates : forall g,
  exists fuel s cnt, bellman_ford fuel g empty_cs 0 = Ok (s, cnt).
Proof. exact bellman_ford_terminates. Qed.
Print Assumptions c07_relaxation_terminates.

(** Reconstruction terminates (ranks strictly decrease along parent edges) and every class whose
    cost is below the saturation bound has a parent edge. *)
Theorem c07_acyclic : forall g s cnt, Inv g s cnt -> stable g s ->
  forall fuel c v k, s c = Some (v, k) -> (v < MAXC)%N -> k < fuel ->
  exists t, reconstruct fuel g s c = Ok t.
Proof. exact reconstruct_total. Qed.
Print Assumptions c07_acyclic.

(** The hypotheses of [c07_acyclic] are what the relaxation loop establishes: its result satisfies
    the loop invariant (every entry is witnessed by a term and by a row snapshot with older ranks)
    and is a fixpoint of relaxation. *)
Theorem c07_loop_result : forall g fuel s cnt,
  bellman_ford fuel g empty_cs 0 = Ok (s, cnt) -> Inv g s cnt /\ stable g s.
Proof. intros g fuel s cnt H. exact (bellman_ford_ok g fuel _ _ _ _ (inv_empty g) H). Qed.
Print Assumptions c07_loop_result.

(** c07_total ("a class that has an allowed term is always extracted") is FALSE for the faithful
    model: under cost saturation the rank guard leaves a class without parent edge and the code
    panics at src/extract.rs:491 (finding F4).  Witness = [f4_graph], root class 2. *)
Theorem c07_total_refuted :
  exists g root, (exists t, repr g t root) /\
    forall fuel, 3 <= fuel -> extract fuel g root = Panic.
Proof. exact extract_total_refuted. Qed.
Print Assumptions c07_total_refuted.

(** ... and it holds whenever the class has an allowed term of cost below 2^64-1: extraction then
    neither panics nor fails, for all sufficiently large fuel. *)
Theorem c07_total_partial : forall g root t0, repr g t0 root -> (tree_cost g t0 < MAXC)%N ->
  exists fuel, forall fuel', fuel <= fuel' ->
    exists cost t, extract fuel' g root = Ok (Some (cost, t)).
Proof. exact extract_total_unsaturated. Qed.
Print Assumptions c07_total_partial.

(** Each variant of `(extract e k)` is a member of the class through allowed rows, with its
    reported cost; the variants are rooted at pairwise distinct e-nodes; there are at most k. *)
Theorem c07_variants : forall fuel g root k out, extract_variants fuel g root k = Ok out ->
  exists rs : list row,
    Forall2 (fun r ct => In r (g_rows g) /\ allowed g r = true /\ r_cls r = root /\
               exists ts, snd ct = TApp (r_fn r) ts /\ repr_args g ts (r_args r) /\
                          repr g (snd ct) root /\ tree_cost g (snd ct) = fst ct) rs out /\
    (NoDup (g_rows g) -> NoDup rs) /\ length out <= k.
Proof. exact variants_ok. Qed.
Print Assumptions c07_variants.

(** The function evaluated by the correspondence check is the proved [extract]. *)
Theorem c07_check_case_link : forall g roots vars, check_case (g, roots, vars) = true ->
  (forall root o, In (root, o) roots -> obs_matches (extract (case_fuel g) g root) o = true) /\
  (forall root k o, In (root, k, o) vars ->
      vobs_matches (extract_variants (case_fuel g) g root k) o = true).
Proof. exact check_case_uses_extract. Qed.
Print Assumptions c07_check_case_link.

(** ---- Tier A (gen/ExtractFns.v, regenerated from src/extract.rs on every run) ----
    The model's arithmetic is the regenerated one ([c07_model_uses_regenerated]); the statements
    below pin what the regenerated functions must be for the theorems above to mean what the
    property says ([tree_cost] is written with an explicit saturating u64 sum). *)

(** `Cost::combine` for u64 is the saturating sum (not wrapping, not unbounded). *)
Theorem c07_src_combine_saturating : forall a b, cost_combine a b = N.min (a + b) MAXC.
Proof. exact src_combine_saturating. Qed.
Print Assumptions c07_src_combine_saturating.

(** `TreeAdditiveCostModel::fold` = head cost plus the children costs (saturating). *)
Theorem c07_src_fold_head_plus_children : forall cs h,
  tac_fold cs h = fold_left (fun s c => N.min (s + c) MAXC) cs h.
Proof. exact src_fold_head_plus_children. Qed.
Print Assumptions c07_src_fold_head_plus_children.

(** default `CostModel::container_cost` = saturating sum of the elements, from 0. *)
Theorem c07_src_container_cost_sum : forall cs,
  container_cost_default cs = fold_left (fun s c => N.min (s + c) MAXC) cs 0%N.
Proof. exact src_container_cost_sum. Qed.
Print Assumptions c07_src_container_cost_sum.

(** the relaxation test of `bellman_ford`: a class without cost always takes the new cost; a
    class with a cost only a STRICTLY smaller one. *)
Theorem c07_src_relax_strict : relax_vacant_updates = true /\ forall n o, relax_improves n o = true <-> (n < o)%N.
Proof. exact src_relax_strict. Qed.
Print Assumptions c07_src_relax_strict.

(** `save_best_parent_edge`: the row's cost equals the class's cost, the children's max rank is
    STRICTLY below the class's rank, the first such row wins. *)
Theorem c07_src_parent_tests :
  (forall best oc, parent_cost_matches best oc = true <-> oc = Some best) /\
  (forall t e, rank_guard t e = true <-> e < t) /\ parent_first_wins = true.
Proof. exact src_parent_tests. Qed.
Print Assumptions c07_src_parent_tests.

(** `compute_topo_rnk_*`: max over the children starting from 0, primitives rank 0; base values
    cost 1 and the identity of the cost monoid is 0. *)
Theorem c07_src_rank_and_units :
  (rank_init = 0 /\ rank_prim = 0 /\ forall a b, rank_combine a b = Nat.max a b) /\
  (base_value_cost_default = 1%N /\ cost_identity = 0%N).
Proof. exact (conj src_rank src_base_value_cost). Qed.
Print Assumptions c07_src_rank_and_units.

(** the model's row cost, update test and parent-edge test are the regenerated functions. *)
Theorem c07_model_uses_regenerated :
  (forall g s r, row_cost g s r =
     match children_costs s (r_args r) with
     | Some cs => Some (tac_fold cs (fn_cost g (r_fn r))) | None => None end) /\
  (forall s z, child_cost s (CPrim z) = Some base_value_cost_default) /\
  (forall g b r nc oc k, allowed g r = true -> row_cost g (b_cs b) r = Some nc ->
     b_cs b (r_cls r) = Some (oc, k) ->
     relax_row g b r = if relax_improves nc oc
                       then mkBF (cs_set (b_cs b) (r_cls r) (nc, S (b_cnt b))) (S (b_cnt b)) true
                       else b) /\
  (forall g s c r best rk mr, allowed g r = true -> r_cls r = c -> s c = Some (best, rk) ->
     max_rank s rank_init (r_args r) = Some mr ->
     is_parent g s c r = parent_cost_matches best (row_cost g s r) && rank_guard rk mr).
Proof. exact model_uses_regenerated. Qed.
Print Assumptions c07_model_uses_regenerated.

(** non-vacuity: a cyclic e-graph with a zero-cost constructor, a tie, a subsumed row and an
    unextractable constructor.  Classes: 0 = {A, G(1)}, 1 = {F(0), B (subsumed), H(0) (unextr.)},
    costs A=2, B=0, F=0, G=1, H=0.  Class 1 is extracted as F(A) with cost 2 although the subsumed B
    and the unextractable H(0) are cheaper or equal. *)
Definition c07_ex : graph :=
  mkG [mkF 2 false; mkF 0 false; mkF 0 false; mkF 1 false; mkF 0 true]
      [mkRow 0 [] 0 false; mkRow 1 [] 1 true; mkRow 2 [CClass 0] 1 false;
       mkRow 3 [CClass 1] 0 false; mkRow 4 [CClass 0] 1 false].
Example c07_example :
  extract 5 c07_ex 1 = Ok (Some (2%N, TApp 2 [TApp 0 []])) /\
  extract 5 c07_ex 0 = Ok (Some (2%N, TApp 0 [])) /\
  extract_variants 5 c07_ex 0 3 = Ok [(2%N, TApp 0 []); (3%N, TApp 3 [TApp 2 [TApp 0 []]])].
Proof. vm_compute. repeat split. Qed.

(** the saturation witness as the engine sees it: class 1 extracts, class 2 panics *)
Example c07_f4_example :
  extract 5 f4_graph 1 = Ok (Some (9223372036854775808%N, TApp 4 [TApp 3 []])) /\
  extract 5 f4_graph 2 = Panic.
Proof. vm_compute. split; reflexivity. Qed.
