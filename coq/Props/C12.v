(** C12 — Every provable fact gets a proof the checker accepts, and only those.
    This file only pins statements and prints their assumptions.

    [check_proof] (ProofChk/Checker.v) is the Gallina re-implementation of the in-tree
    [ProofStore::check_proof] for the step kinds Fiat, Rule, Trans, Sym, Congr; the harness
    `h_proofs` evaluates it in the kernel on the proof objects returned by the real `(prove ...)`
    and compares its verdict with the in-tree checker's, on the returned proof and on every
    single-point alteration. *)
From Coq Require Import List Arith ZArith Bool PeanoNat.
Import ListNotations.
Require Import Verif.Egg.Model Verif.Egg.CCDefs Verif.ProofChk.Checker Verif.ProofChk.Sound.
Require Import Verif.gen.ProofChkFacts Verif.ProofChk.Dispatch.

(** Soundness, for EVERY program and EVERY proof object: what the checker accepts is derivable
    from the un-instrumented program (its top-level actions, instances of its rules whose premises
    are derivable, symmetry, transitivity, congruence; no free reflexivity). *)
Theorem c12_checker_sound : forall (prog : program) (p : proof) (t1 t2 : term),
  check_proof prog p = Some (t1, t2) -> Derivable prog t1 t2.
Proof. exact checker_sound. Qed.
Print Assumptions c12_checker_sound.

(** Completeness of the proof format, for every program the checker accepts at all (distinct rule
    names, evaluable top-level actions): every derivable equality has a proof object that the
    checker accepts. With soundness: the accepted propositions are exactly the derivable ones. *)
Theorem c12_checker_complete : forall prog g, ctx_new prog = Some g ->
  forall a b, Derivable prog a b -> exists p, check g prog p = Some (a, b).
Proof. exact checker_complete. Qed.
Print Assumptions c12_checker_complete.

Theorem c12_accepted_iff_derivable : forall prog g, ctx_new prog = Some g ->
  forall a b, (exists p, check_proof prog p = Some (a, b)) <-> Derivable prog a b.
Proof. exact accepted_iff_derivable. Qed.
Print Assumptions c12_accepted_iff_derivable.

(** The checker answers with exactly the proposition the root node claims. *)
Theorem c12_checker_claims : forall g prog p phi,
  check g prog p = Some phi -> claimed p = Some phi.
Proof. exact check_claims. Qed.
Print Assumptions c12_checker_claims.

(** What [Derivable] means on the rule-free part: nothing beyond the congruence closure (the [CC]
    of C01) of the unions asserted at top level. *)
Theorem c12_derivable_in_congruence_closure : forall prog, rules_of prog = [] ->
  forall a b, Derivable prog a b -> CC (global_unions prog) a b.
Proof. exact derivable_in_CC. Qed.
Print Assumptions c12_derivable_in_congruence_closure.

(** A proof is accepted only if every node of it is: one unjustified step anywhere in the proof
    makes the checker reject the whole proof. *)
Theorem c12_mutation_rejected_anywhere : forall prog q p,
  subproof q p -> check_proof prog q = None -> check_proof prog p = None.
Proof. exact rejected_node_rejects_proof. Qed.
Print Assumptions c12_mutation_rejected_anywhere.

(** Removing a rule from the checking program: every proof with a Rule step that names it is
    rejected. *)
Theorem c12_mutation_rejected_rule : forall prog p l r n prems sub,
  subproof (PRule l r n prems sub) p -> check_proof (remove_rule prog n) p = None.
Proof. exact mutation_rejected_rule_removed. Qed.
Print Assumptions c12_mutation_rejected_rule.

(** Removing / altering a top-level action: every proof with a Fiat step whose equality the
    altered program no longer asserts is rejected. *)
Theorem c12_mutation_rejected_fiat : forall prog' p l r,
  subproof (PFiat l r) p ->
  ~ In (l, r) (gprops prog') -> (forall z, l = TI z -> r <> TI z) ->
  check_proof prog' p = None.
Proof. exact mutation_rejected_fiat. Qed.
Print Assumptions c12_mutation_rejected_fiat.

(** A dropped premise. *)
Theorem c12_mutation_rejected_premise_count : forall g prog l r n prems sub rl,
  find_rule prog n = Some rl -> length prems <> length (rbody rl) ->
  check g prog (PRule l r n prems sub) = None.
Proof. exact mutation_rejected_premise_count. Qed.
Print Assumptions c12_mutation_rejected_premise_count.

(** A Rule step whose claimed conclusion is not an equation of the instantiated head. *)
Theorem c12_mutation_rejected_rule_head : forall g prog l r n prems sub rl w' props,
  find_rule prog n = Some rl ->
  process_actions (sub ++ gbind g) (rhead rl) = Some (w', props) -> ~ In (l, r) props ->
  check g prog (PRule l r n prems sub) = None.
Proof. exact mutation_rejected_rule_head. Qed.
Print Assumptions c12_mutation_rejected_rule_head.

(** Trans with non-matching middle terms; swapped operands. *)
Theorem c12_mutation_rejected_trans_middle : forall g prog l r p q a b b' c,
  check g prog p = Some (a, b) -> check g prog q = Some (b', c) -> b <> b' ->
  check g prog (PTrans l r p q) = None.
Proof. exact mutation_rejected_trans_middle. Qed.
Print Assumptions c12_mutation_rejected_trans_middle.

Theorem c12_mutation_rejected_trans_swap : forall g prog l r p q phi,
  check g prog (PTrans l r p q) = Some phi -> l <> r ->
  check g prog (PTrans l r q p) = None.
Proof. exact mutation_rejected_trans_swap. Qed.
Print Assumptions c12_mutation_rejected_trans_swap.

(** Congr: child index out of range, base not an application, child proof about another child,
    claimed right-hand side with another head / other children. *)
Theorem c12_mutation_rejected_congr_range : forall g prog l r p i c bl f cs,
  check g prog p = Some (bl, T f cs) -> length cs <= i ->
  check g prog (PCongr l r p i c) = None.
Proof. exact mutation_rejected_congr_range. Qed.
Print Assumptions c12_mutation_rejected_congr_range.

Theorem c12_mutation_rejected_congr_not_app : forall g prog l r p i c bl z,
  check g prog p = Some (bl, TI z) -> check g prog (PCongr l r p i c) = None.
Proof. exact mutation_rejected_congr_not_app. Qed.
Print Assumptions c12_mutation_rejected_congr_not_app.

Theorem c12_mutation_rejected_congr_child : forall g prog l r p i c bl f cs x cl cr,
  check g prog p = Some (bl, T f cs) -> check g prog c = Some (cl, cr) ->
  nth_error cs i = Some x -> x <> cl ->
  check g prog (PCongr l r p i c) = None.
Proof. exact mutation_rejected_congr_child. Qed.
Print Assumptions c12_mutation_rejected_congr_child.

Theorem c12_mutation_rejected_congr_head : forall g prog l r p i c bl f cs cl cr,
  check g prog p = Some (bl, T f cs) -> check g prog c = Some (cl, cr) ->
  r <> T f (set_child cs i cr) ->
  check g prog (PCongr l r p i c) = None.
Proof. exact mutation_rejected_congr_head. Qed.
Print Assumptions c12_mutation_rejected_congr_head.

(** A substituted term: the conclusion of Trans / Sym / Congr is determined by the sub-proofs. *)
Theorem c12_mutation_rejected_subst_trans : forall g prog l r l' r' p q phi,
  check g prog (PTrans l r p q) = Some phi -> (l', r') <> (l, r) ->
  check g prog (PTrans l' r' p q) = None.
Proof. exact mutation_rejected_subst_trans. Qed.
Print Assumptions c12_mutation_rejected_subst_trans.

Theorem c12_mutation_rejected_subst_sym : forall g prog l r l' r' p phi,
  check g prog (PSym l r p) = Some phi -> (l', r') <> (l, r) ->
  check g prog (PSym l' r' p) = None.
Proof. exact mutation_rejected_subst_sym. Qed.
Print Assumptions c12_mutation_rejected_subst_sym.

Theorem c12_mutation_rejected_subst_congr : forall g prog l r l' r' p i c phi,
  check g prog (PCongr l r p i c) = Some phi -> (l', r') <> (l, r) ->
  check g prog (PCongr l' r' p i c) = None.
Proof. exact mutation_rejected_subst_congr. Qed.
Print Assumptions c12_mutation_rejected_subst_congr.

(** Tier A: the dispatch table of the in-tree checker, regenerated from
    src/proofs/proof_checker.rs / proof_format.rs on every run (gen/ProofChkFacts.v).
    [check_tbl] runs, for a node of kind K, exactly the conditions the Rust arm of K lists (one per
    ProofCheckErrorKind / helper call, in source order; an unknown name fails) and demands the
    arm's number of recursive calls; it IS the hand-written checker, for all inputs. *)
Theorem c12_dispatch_table_drives_checker : forall g prog p, check_tbl g prog p = check g prog p.
Proof. exact check_tbl_eq. Qed.
Print Assumptions c12_dispatch_table_drives_checker.

Theorem c12_tbl_accepted_iff_derivable : forall prog g, ctx_new prog = Some g ->
  forall a b, (exists p, check_proof_tbl prog p = Some (a, b)) <-> Derivable prog a b.
Proof. exact tbl_accepted_iff_derivable. Qed.
Print Assumptions c12_tbl_accepted_iff_derivable.

(** ... and every extracted feature of the checker's source (proof-node kinds and their fields; per
    arm of check_proof_with_context / process_actions / check_fact_matches_proposition / the two
    evaluators: pattern, guard, recursive calls, error kinds, comparisons with both operands, helper
    calls; the bodies of ProofCheckContext::new, run_merge, check_rule_produces_equality) is the one
    the model was written against, including the arms that are link-only. *)
Theorem c12_dispatch_pinned :
  justification_kinds = model_justification_kinds /\
  checker_arms = model_checker_arms /\
  action_arms = model_action_arms /\
  fact_arms = model_fact_arms /\
  eval_props_arms = model_eval_props_arms /\
  eval_term_arms = model_eval_term_arms /\
  ctx_new_shape = model_ctx_new_shape /\
  run_merge_shape = model_run_merge_shape /\
  rule_produces_shape = model_rule_produces_shape.
Proof. exact dispatch_pinned. Qed.
Print Assumptions c12_dispatch_pinned.

(** non-vacuity: a proof using a global action, a rule instance, Sym, Trans and Congr is
    accepted; the alterations of the theorems above are rejected on it *)
Example c12_example_accepted :
  check_proof Example.prog Example.pr = Some (Example.F (Example.F Example.K0), Example.K1).
Proof. vm_compute. reflexivity. Qed.

Example c12_example_accepted_tbl :
  check_proof_tbl Example.prog Example.pr = Some (Example.F (Example.F Example.K0), Example.K1).
Proof. vm_compute. reflexivity. Qed.

Example c12_example_rule_removed : check_proof (remove_rule Example.prog 0) Example.pr = None.
Proof. vm_compute. reflexivity. Qed.

Example c12_example_action_removed : check_proof (remove_action Example.prog 1) Example.pr = None.
Proof. vm_compute. reflexivity. Qed.

Example c12_example_congr_index :
  check_proof Example.prog
    (PCongr (Example.F (Example.F Example.K0)) (Example.F Example.K0)
       (PFiat (Example.F (Example.F Example.K0)) (Example.F (Example.F Example.K0))) 1 Example.pr_rule) = None.
Proof. vm_compute. reflexivity. Qed.
