//! C02: a rule run fires for exactly the set of matches of its body.
//!
//! (a) executor-vs-spec differential test on the REAL engine: generated conjunctive queries (chains,
//!     stars, cycles, cliques, repeated variables within and across atoms, constants, column
//!     constraints, functional-dependency duplicates; 1-6 atoms over 1-4 relations of arity 1-4) on
//!     several data distributions, run through `egglog_core_relations` (`Database`,
//!     `RuleSetBuilder`/`QueryBuilder`) with every `PlanStrategy` and tree decomposition on/off, with
//!     an action inserting the bound variables into an output table; the output set is compared with
//!     a naive nested-loop matcher (the predicate on the implementation). The same through egglog
//!     text (`(rule (...) ((Out ..)) [:no-decomp])` + `(run 1)`).
//! (b) hook H1: every compiled `Plan` is dumped; every single-bag plan is written, with the query
//!     the harness built, as a Coq term whose checker is `plan_ok` (coq/Query/PlanOk.v) — a
//!     per-instance obligation that, by `c02_plan_sound`, certifies the plan for all databases and
//!     all run-time stage orders. Decomposed plans are counted as uncertified (link-only).
use egglog_core_relations::{
    ColumnId, Constraint, Database, PlanStrategy, QueryEntry, RuleSetBuilder, SortedWritesTable, Value,
};
use egglog_numeric_id::NumericId;
use egglog_reports::ReportLevel;
use serde_json::{json, Value as J};
use std::collections::{BTreeMap, BTreeSet, HashSet};
use verif_harness::util::*;
use verif_harness::Opts;

#[derive(Clone, Debug, PartialEq, Eq, Hash)]
enum Arg {
    Var(usize),
    Const(u32),
}

#[derive(Clone, Debug, PartialEq, Eq, Hash)]
enum Cs {
    EqConst(usize, u32),
    LtConst(usize, u32),
    GtConst(usize, u32),
    LeConst(usize, u32),
    GeConst(usize, u32),
}

impl Cs {
    fn holds(&self, r: &[u32]) -> bool {
        match *self {
            Cs::EqConst(c, k) => r[c] == k,
            Cs::LtConst(c, k) => r[c] < k,
            Cs::GtConst(c, k) => r[c] > k,
            Cs::LeConst(c, k) => r[c] <= k,
            Cs::GeConst(c, k) => r[c] >= k,
        }
    }
    fn coq(&self) -> String {
        match *self {
            Cs::EqConst(c, k) => format!("CEqConst {c} {k}"),
            Cs::LtConst(c, k) => format!("CLtConst {c} {k}"),
            Cs::GtConst(c, k) => format!("CGtConst {c} {k}"),
            Cs::LeConst(c, k) => format!("CLeConst {c} {k}"),
            Cs::GeConst(c, k) => format!("CGeConst {c} {k}"),
        }
    }
    fn json(&self) -> J {
        match *self {
            Cs::EqConst(c, k) => json!(["EqConst", c, k]),
            Cs::LtConst(c, k) => json!(["LtConst", c, k]),
            Cs::GtConst(c, k) => json!(["GtConst", c, k]),
            Cs::LeConst(c, k) => json!(["LeConst", c, k]),
            Cs::GeConst(c, k) => json!(["GeConst", c, k]),
        }
    }
    fn from_json(j: &J) -> Cs {
        let a = j.as_array().unwrap();
        let c = a[1].as_u64().unwrap() as usize;
        let k = a[2].as_u64().unwrap() as u32;
        match a[0].as_str().unwrap() {
            "EqConst" => Cs::EqConst(c, k),
            "LtConst" => Cs::LtConst(c, k),
            "GtConst" => Cs::GtConst(c, k),
            "LeConst" => Cs::LeConst(c, k),
            _ => Cs::GeConst(c, k),
        }
    }
    fn engine(&self) -> Constraint {
        let col = |c: usize| ColumnId::from_usize(c);
        match *self {
            Cs::EqConst(c, k) => Constraint::EqConst { col: col(c), val: Value::new(k) },
            Cs::LtConst(c, k) => Constraint::LtConst { col: col(c), val: Value::new(k) },
            Cs::GtConst(c, k) => Constraint::GtConst { col: col(c), val: Value::new(k) },
            Cs::LeConst(c, k) => Constraint::LeConst { col: col(c), val: Value::new(k) },
            Cs::GeConst(c, k) => Constraint::GeConst { col: col(c), val: Value::new(k) },
        }
    }
}

#[derive(Clone, Debug, PartialEq, Eq, Hash)]
struct AtomD {
    table: usize,
    args: Vec<Arg>,
    cs: Vec<Cs>,
}

#[derive(Clone, Debug, PartialEq, Eq, Hash)]
struct TableD {
    arity: usize,
    n_keys: usize,
    sorted: bool, // sort_by = last column; rows arrive in batches of increasing value
    rows: Vec<Vec<u32>>,
}

#[derive(Clone, Debug, PartialEq, Eq, Hash)]
struct Case {
    tables: Vec<TableD>,
    atoms: Vec<AtomD>,
    nvars: usize,
    out: Vec<usize>,
    shape: String,
    dist: String,
}

#[derive(Clone, Copy, Debug, PartialEq, Eq, Hash)]
enum Strat {
    Gj,
    PureSize,
    MinCover,
}
impl Strat {
    fn name(&self) -> &'static str {
        match self {
            Strat::Gj => "Gj",
            Strat::PureSize => "PureSize",
            Strat::MinCover => "MinCover",
        }
    }
    fn from(s: &str) -> Strat {
        match s {
            "PureSize" => Strat::PureSize,
            "MinCover" => Strat::MinCover,
            _ => Strat::Gj,
        }
    }
    fn engine(&self) -> PlanStrategy {
        match self {
            Strat::Gj => PlanStrategy::Gj,
            Strat::PureSize => PlanStrategy::PureSize,
            Strat::MinCover => PlanStrategy::MinCover,
        }
    }
}

impl Case {
    /// kernel cases are written with nat numerals, so only for small literals
    fn small_literals(&self) -> bool {
        self.atoms.iter().all(|a| {
            a.args.iter().all(|g| !matches!(g, Arg::Const(k) if *k >= 5000))
                && a.cs.iter().all(|c| match c {
                    Cs::EqConst(_, k) | Cs::LtConst(_, k) | Cs::GtConst(_, k) | Cs::LeConst(_, k) | Cs::GeConst(_, k) => *k < 5000,
                })
        })
    }
    fn json(&self) -> J {
        json!({
            "tables": self.tables.iter().map(|t| json!({"arity": t.arity, "n_keys": t.n_keys, "sorted": t.sorted, "rows": t.rows})).collect::<Vec<_>>(),
            "atoms": self.atoms.iter().map(|a| json!({
                "table": a.table,
                "args": a.args.iter().map(|g| match g { Arg::Var(x) => json!(["v", x]), Arg::Const(k) => json!(["c", k]) }).collect::<Vec<_>>(),
                "cs": a.cs.iter().map(|c| c.json()).collect::<Vec<_>>()})).collect::<Vec<_>>(),
            "nvars": self.nvars, "out": self.out, "shape": self.shape, "dist": self.dist,
        })
    }
    fn from_json(j: &J) -> Case {
        Case {
            tables: j["tables"]
                .as_array()
                .unwrap()
                .iter()
                .map(|t| TableD {
                    arity: t["arity"].as_u64().unwrap() as usize,
                    n_keys: t["n_keys"].as_u64().unwrap() as usize,
                    sorted: t["sorted"].as_bool().unwrap_or(false),
                    rows: t["rows"]
                        .as_array()
                        .unwrap()
                        .iter()
                        .map(|r| r.as_array().unwrap().iter().map(|v| v.as_u64().unwrap() as u32).collect())
                        .collect(),
                })
                .collect(),
            atoms: j["atoms"]
                .as_array()
                .unwrap()
                .iter()
                .map(|a| AtomD {
                    table: a["table"].as_u64().unwrap() as usize,
                    args: a["args"]
                        .as_array()
                        .unwrap()
                        .iter()
                        .map(|g| {
                            let g = g.as_array().unwrap();
                            if g[0].as_str().unwrap() == "v" {
                                Arg::Var(g[1].as_u64().unwrap() as usize)
                            } else {
                                Arg::Const(g[1].as_u64().unwrap() as u32)
                            }
                        })
                        .collect(),
                    cs: a["cs"].as_array().unwrap().iter().map(Cs::from_json).collect(),
                })
                .collect(),
            nvars: j["nvars"].as_u64().unwrap() as usize,
            out: j["out"].as_array().unwrap().iter().map(|v| v.as_u64().unwrap() as usize).collect(),
            shape: j["shape"].as_str().unwrap_or("replay").to_string(),
            dist: j["dist"].as_str().unwrap_or("replay").to_string(),
        }
    }
    fn query_coq(&self) -> String {
        format!(
            "(mkQuery {} {})",
            coq_list(&self.atoms, |a| format!(
                "mkAtom {} {} {}",
                a.table,
                coq_list(&a.args, |g| match g {
                    Arg::Var(x) => format!("AVar {x}"),
                    Arg::Const(k) => format!("AConst {k}"),
                }),
                coq_list(&a.cs, |c| c.coq())
            )),
            coq_nat_list(&self.out)
        )
    }
    fn db_coq(&self) -> String {
        coq_list(&self.tables, |t| coq_list(&t.rows, |r| coq_list(r, |v| v.to_string())))
    }
    fn total_rows(&self) -> usize {
        self.tables.iter().map(|t| t.rows.len()).sum()
    }
}

// ------------------------------------------------------------------------------------------
// the reference: naive nested-loop matcher (bind-or-compare, atoms in the order written)

fn reference(case: &Case, budget: &mut u64) -> Option<BTreeSet<Vec<u32>>> {
    fn go(case: &Case, i: usize, env: &mut Vec<Option<u32>>, out: &mut BTreeSet<Vec<u32>>, budget: &mut u64) -> bool {
        if i == case.atoms.len() {
            out.insert(case.out.iter().map(|x| env[*x].expect("out var bound")).collect());
            return true;
        }
        let a = &case.atoms[i];
        'rows: for r in &case.tables[a.table].rows {
            if *budget == 0 {
                return false;
            }
            *budget -= 1;
            if !a.cs.iter().all(|c| c.holds(r)) {
                continue;
            }
            let mut bound_here: Vec<usize> = Vec::new();
            for (c, g) in a.args.iter().enumerate() {
                let ok = match g {
                    Arg::Const(k) => r[c] == *k,
                    Arg::Var(x) => match env[*x] {
                        Some(v) => v == r[c],
                        None => {
                            env[*x] = Some(r[c]);
                            bound_here.push(*x);
                            true
                        }
                    },
                };
                if !ok {
                    for x in bound_here {
                        env[x] = None;
                    }
                    continue 'rows;
                }
            }
            let fin = go(case, i + 1, env, out, budget);
            for x in bound_here {
                env[x] = None;
            }
            if !fin {
                return false;
            }
        }
        true
    }
    let mut out = BTreeSet::new();
    let mut env = vec![None; case.nvars];
    if go(case, 0, &mut env, &mut out, budget) {
        Some(out)
    } else {
        None
    }
}

// ------------------------------------------------------------------------------------------
// the real engine, through the core-relations API

struct EngineOut {
    rows: BTreeSet<Vec<u32>>,
    plans: Vec<String>,
}

struct MultiOut {
    rows: Vec<BTreeSet<Vec<u32>>>,
    plans: Vec<String>,
}

fn run_engine(case: &Case, strat: Strat, no_decomp: bool, threads: usize) -> Result<EngineOut, String> {
    let mut m = run_engine_multi(std::slice::from_ref(case), strat, no_decomp, threads)?;
    Ok(EngineOut { rows: m.rows.pop().unwrap(), plans: m.plans })
}

/// All `cases` share the tables of `cases[0]`; every case is one rule with its own output table;
/// all rules are built into ONE RuleSet and run by ONE `run_rule_set` (so trie roots / cached
/// trie nodes are shared across the rules' plans, as in one iteration of an egglog ruleset).
fn run_engine_multi(cases: &[Case], strat: Strat, no_decomp: bool, threads: usize) -> Result<MultiOut, String> {
    let f = || -> MultiOut {
        let tables = &cases[0].tables;
        let mut db = Database::default();
        let keep_old = || -> Box<egglog_core_relations::MergeFn> { Box::new(|_, _, _, _| false) };
        let mut tids = Vec::new();
        for t in tables {
            let sort_by = if t.sorted { Some(ColumnId::from_usize(t.arity - 1)) } else { None };
            let tbl = SortedWritesTable::new(t.n_keys, t.arity, sort_by, vec![], keep_old());
            tids.push(db.add_table(tbl, std::iter::empty(), std::iter::empty()));
        }
        let mut out_ids = Vec::new();
        for case in cases {
            let out_arity = case.out.len() + 1;
            let out_tbl = SortedWritesTable::new(out_arity, out_arity, None, vec![], keep_old());
            out_ids.push(db.add_table(out_tbl, std::iter::empty(), std::iter::empty()));
        }
        for (t, id) in tables.iter().zip(tids.iter()) {
            if t.sorted {
                // rows arrive in batches of increasing sort value (the timestamp discipline)
                let mut vals: Vec<u32> = t.rows.iter().map(|r| r[t.arity - 1]).collect();
                vals.sort();
                vals.dedup();
                for v in vals {
                    {
                        let mut buf = db.new_buffer(*id);
                        for r in t.rows.iter().filter(|r| r[t.arity - 1] == v) {
                            let row: Vec<Value> = r.iter().map(|x| Value::new(*x)).collect();
                            buf.stage_insert(&row);
                        }
                    }
                    db.merge_all();
                }
            } else {
                let mut buf = db.new_buffer(*id);
                for r in &t.rows {
                    let row: Vec<Value> = r.iter().map(|x| Value::new(*x)).collect();
                    buf.stage_insert(&row);
                }
            }
        }
        db.merge_all();
        #[cfg(egglog_verif)]
        egglog_core_relations::verif_plan_sink_start();
        let rule_set = {
            let mut rsb = RuleSetBuilder::new(&mut db);
            for (ci, case) in cases.iter().enumerate() {
                let mut qb = rsb.new_rule();
                qb.set_plan_strategy(strat.engine());
                qb.set_no_decomp(no_decomp);
                let vars: Vec<_> = (0..case.nvars).map(|_| qb.new_var()).collect();
                for (i, v) in vars.iter().enumerate() {
                    assert_eq!(v.index(), i);
                }
                for a in &case.atoms {
                    let entries: Vec<QueryEntry> = a
                        .args
                        .iter()
                        .map(|g| match g {
                            Arg::Var(x) => vars[*x].into(),
                            Arg::Const(k) => Value::new(*k).into(),
                        })
                        .collect();
                    let cs: Vec<Constraint> = a.cs.iter().map(|c| c.engine()).collect();
                    qb.add_atom(tids[a.table], &entries, cs.iter()).expect("add_atom");
                }
                let mut rb = qb.build();
                let mut row: Vec<QueryEntry> = vec![Value::new(1).into()];
                for x in &case.out {
                    row.push(vars[*x].into());
                }
                rb.insert(out_ids[ci], &row).expect("insert");
                rb.build_with_description(format!("rule{ci}"));
            }
            rsb.build()
        };
        #[cfg(egglog_verif)]
        let plans = egglog_core_relations::verif_plan_sink_take();
        #[cfg(not(egglog_verif))]
        let plans = Vec::new();
        db.run_rule_set(&rule_set, ReportLevel::TimeOnly, None);
        let mut rows = Vec::new();
        for out_id in &out_ids {
            let tbl = db.get_table(*out_id);
            let all = tbl.all();
            let scanned = tbl.scan(all.as_ref());
            rows.push(scanned.iter().map(|(_, row)| row[1..].iter().map(|v| v.rep()).collect::<Vec<u32>>()).collect());
        }
        MultiOut { rows, plans }
    };
    let res = std::panic::catch_unwind(std::panic::AssertUnwindSafe(|| {
        if threads <= 1 {
            f()
        } else {
            let pool = egglog_concurrency::ThreadPool::new(threads);
            pool.install(&f)
        }
    }));
    res.map_err(|p| {
        if let Some(s) = p.downcast_ref::<String>() {
            s.clone()
        } else if let Some(s) = p.downcast_ref::<&str>() {
            s.to_string()
        } else {
            "panic".to_string()
        }
    })
}

// ------------------------------------------------------------------------------------------
// multi-rule rule sets over shared tables with heavy join groups: several rules (or several atoms
// of one rule) scan the SAME table on the SAME column with DIFFERENT slow constraints (different
// repeated-variable patterns / different bounds on an unsorted column), and every join value has
// more than 16 (often more than 32) rows, so the executor's shared trie roots and per-node child
// caches (get_cached_trie_node) are exercised across plans.

fn gen_multi(r: &mut Rng) -> Vec<Case> {
    // table 0: the heavy relation T (arity 3 or 4, join column 0); table 1: unary S of join values;
    // table 2: a second heavy binary relation
    let arity = if r.chance(2, 3) { 3 } else { 4 };
    let njoin = r.range(1, 3) as u32;
    let mut rows: Vec<Vec<u32>> = Vec::new();
    for v in 1..=njoin {
        let n = *r.pick(&[18usize, 20, 24, 34, 40, 48]);
        for _ in 0..n {
            let z = 100 + r.below(40) as u32;
            let y = 100 + r.below(40) as u32;
            let mut row = match r.below(6) {
                0 => vec![v, v, z],
                1 => vec![v, z, z],
                2 => vec![v, z, v],
                3 => vec![v, v, v],
                _ => vec![v, y, z],
            };
            while row.len() < arity {
                let last = *row.last().unwrap();
                row.push(if r.chance(1, 2) { last } else { 100 + r.below(40) as u32 });
            }
            rows.push(row);
        }
    }
    // a few light groups too (<= 16 rows: the uncached refine path)
    for v in (njoin + 1)..=(njoin + 2) {
        for _ in 0..r.range(1, 6) {
            let z = 100 + r.below(6) as u32;
            let mut row = if r.chance(1, 2) { vec![v, v, z] } else { vec![v, z, z] };
            while row.len() < arity {
                row.push(z);
            }
            rows.push(row);
        }
    }
    let mut seen = HashSet::new();
    rows.retain(|row| seen.insert(row.clone()));
    let svals: Vec<Vec<u32>> = (1..=(njoin + 2)).filter(|_| r.chance(5, 6)).map(|v| vec![v]).collect();
    let mut brow: Vec<Vec<u32>> = Vec::new();
    for v in 1..=njoin {
        for k in 0..r.range(17, 36) {
            brow.push(vec![v, 100 + k as u32]);
        }
    }
    let tables = vec![
        TableD { arity, n_keys: arity, sorted: false, rows },
        TableD { arity: 1, n_keys: 1, sorted: false, rows: svals },
        TableD { arity: 2, n_keys: 2, sorted: false, rows: brow },
    ];
    // an atom over T: join variable 0 in column 0, the rest a random repeated-variable pattern
    let pattern = |r: &mut Rng, base: usize| -> (Vec<Arg>, usize) {
        // returns args and the number of variables used beyond `base`
        let mut args = vec![Arg::Var(0)];
        let mut fresh = 0usize;
        for _c in 1..arity {
            let k = r.below(10);
            if k < 3 {
                args.push(Arg::Var(0));
            } else if k < 6 && fresh > 0 {
                args.push(Arg::Var(base + r.below(fresh)));
            } else {
                args.push(Arg::Var(base + fresh));
                fresh += 1;
            }
        }
        (args, fresh)
    };
    let nrules = r.range(2, 4);
    let mut cases = Vec::new();
    for _ in 0..nrules {
        let mut atoms = Vec::new();
        let mut nvars = 1usize;
        let n_t_atoms = if r.chance(1, 3) { 2 } else { 1 };
        for _ in 0..n_t_atoms {
            let (args, fresh) = pattern(r, nvars);
            nvars += fresh;
            let mut cs = Vec::new();
            if r.chance(1, 3) {
                // a bound on an unsorted column: a slow constraint with a rule-specific constant
                let c = r.range(1, arity - 1);
                let k = 100 + r.below(40) as u32;
                cs.push(if r.chance(1, 2) { Cs::LtConst(c, k) } else { Cs::GeConst(c, k) });
            }
            atoms.push(AtomD { table: 0, args, cs });
        }
        match r.below(4) {
            0 => {}
            1 | 2 => atoms.push(AtomD { table: 1, args: vec![Arg::Var(0)], cs: vec![] }),
            _ => {
                atoms.push(AtomD { table: 2, args: vec![Arg::Var(0), Arg::Var(nvars)], cs: vec![] });
                nvars += 1;
            }
        }
        if atoms.len() == 1 || r.chance(1, 2) {
            // make sure the join variable is intersected across two atoms
            atoms.push(AtomD { table: 1, args: vec![Arg::Var(0)], cs: vec![] });
        }
        if r.chance(1, 2) {
            atoms.reverse();
        }
        let mut out: Vec<usize> = (0..nvars).filter(|_| r.chance(4, 5)).collect();
        out.truncate(6);
        cases.push(Case { tables: tables.clone(), atoms, nvars, out, shape: "multi".into(), dist: "heavy-groups".into() });
    }
    cases
}

/// the same rule set as egglog text (relations over i64, one ruleset, one `(run 1)`); constraints
/// on columns are written as primitive guards
fn multi_text(cases: &[Case], no_decomp: bool, delta: bool) -> String {
    let mut s = String::new();
    for (i, t) in cases[0].tables.iter().enumerate() {
        s.push_str(&format!("(relation R{i} ({}))\n", vec!["i64"; t.arity].join(" ")));
    }
    for (k, c) in cases.iter().enumerate() {
        s.push_str(&format!("(relation Out{k} ({}))\n", vec!["i64"; c.out.len().max(1)].join(" ")));
    }
    // with `delta`: the second half of every table arrives after a first (run 1), so the second
    // run evaluates the rules semi-naively on the new rows
    let mut late = String::new();
    for (i, t) in cases[0].tables.iter().enumerate() {
        for (ri, row) in t.rows.iter().enumerate() {
            let v: Vec<String> = row.iter().map(|x| x.to_string()).collect();
            let line = format!("(R{i} {})\n", v.join(" "));
            if delta && ri >= t.rows.len() / 2 {
                late.push_str(&line);
            } else {
                s.push_str(&line);
            }
        }
    }
    for (k, c) in cases.iter().enumerate() {
        let mut body = Vec::new();
        for a in &c.atoms {
            let v: Vec<String> = a
                .args
                .iter()
                .map(|g| match g {
                    Arg::Var(x) => format!("v{x}"),
                    Arg::Const(k) => k.to_string(),
                })
                .collect();
            body.push(format!("(R{} {})", a.table, v.join(" ")));
            for cs in &a.cs {
                let (c, kk, ge) = match cs {
                    Cs::LtConst(c, kk) => (*c, *kk, false),
                    Cs::GeConst(c, kk) => (*c, *kk, true),
                    _ => continue,
                };
                if let Arg::Var(x) = &a.args[c] {
                    body.push(if ge { format!("(>= v{x} {kk})") } else { format!("(< v{x} {kk})") });
                }
            }
        }
        let outs: Vec<String> = if c.out.is_empty() { vec!["0".to_string()] } else { c.out.iter().map(|x| format!("v{x}")).collect() };
        s.push_str(&format!("(rule ({}) ((Out{k} {})){})\n", body.join(" "), outs.join(" "), if no_decomp { " :no-decomp" } else { "" }));
    }
    s.push_str("(run 1)\n");
    if delta {
        s.push_str(&late);
        s.push_str("(run 1)\n");
    }
    s
}

// ------------------------------------------------------------------------------------------
// boundary-value data: column values around the byte boundaries of the value representation
// (radix passes of the sorted indexes, u8/u16/u24/u31 limits), in blocks of >= 64 and >= 256 rows
// in non-sorted order, with constant-narrowed atoms (sparse subsets -> on-the-fly sorted column
// index), timestamp-narrowed atoms (dense tail subsets), whole-table scans (cached column index)
// and size-skewed joins so that the big atom is the probed side.

const BOUNDARY: &[u32] = &[0, 1, 255, 256, 257, 65535, 65536, 65537, 16777215, 16777216, 16777217, 2147483648, 4294967294];

fn gen_boundary(r: &mut Rng) -> Vec<Case> {
    // the largest value of the join column is a boundary value (that is where off-by-one bounds bite)
    let mx = BOUNDARY[r.range(2, BOUNDARY.len() - 1)];
    let pool: Vec<u32> = BOUNDARY.iter().copied().filter(|b| *b <= mx).collect();
    let val = |r: &mut Rng| -> u32 {
        let k = r.below(10);
        if k < 3 {
            *r.pick(&pool)
        } else if k < 8 {
            (r.below(1000) as u32).min(mx)
        } else {
            ((r.next() % (mx as u64 + 1)) as u32).min(mx)
        }
    };
    let ntags = r.range(2, 3) as u32;
    let per_tag = *r.pick(&[64usize, 70, 100, 130, 256, 300]);
    // T(tag, x, y): tags interleaved, x unsorted, the maximum placed at a random position
    let mut t_rows: Vec<Vec<u32>> = Vec::new();
    let mut xs_by_tag: Vec<Vec<u32>> = Vec::new();
    for _ in 0..ntags {
        let mut xs: Vec<u32> = (0..per_tag).map(|_| val(r)).collect();
        let pos = r.below(per_tag);
        xs[pos] = mx;
        if r.chance(1, 2) {
            // mostly descending: certainly not in ascending order
            xs.sort();
            xs.reverse();
            let p2 = r.below(per_tag);
            xs.swap(0, p2);
        }
        xs_by_tag.push(xs);
    }
    for i in 0..per_tag {
        for tag in 0..ntags {
            t_rows.push(vec![tag + 1, xs_by_tag[tag as usize][i], i as u32]);
        }
    }
    let mut seen = HashSet::new();
    t_rows.retain(|row| seen.insert(row.clone()));
    // S(x): a few probes: the maximum, present and absent values
    let mut s_rows: Vec<Vec<u32>> = vec![vec![mx]];
    for _ in 0..r.range(1, 4) {
        s_rows.push(vec![*r.pick(&xs_by_tag[0])]);
    }
    s_rows.push(vec![mx.saturating_sub(1)]);
    if mx < 4294967294 {
        s_rows.push(vec![mx + 1]);
    }
    s_rows.push(vec![12345]);
    let mut seen = HashSet::new();
    s_rows.retain(|row| seen.insert(row.clone()));
    // U(x, z): a medium table sharing x values
    let mut u_rows: Vec<Vec<u32>> = Vec::new();
    for k in 0..r.range(3, 12) {
        let x = if k == 0 { mx } else { val(r) };
        u_rows.push(vec![x, k as u32]);
    }
    // W(tag, x, ts): the same rows with a timestamp column (API: sorted table, fast range
    // constraints select a dense tail)
    let nts = 4u32;
    let mut w_rows: Vec<Vec<u32>> = t_rows.iter().enumerate().map(|(i, row)| vec![row[0], row[1], (i as u32 * nts) / (t_rows.len() as u32)]).collect();
    let mut seen = HashSet::new();
    w_rows.retain(|row| seen.insert(row.clone()));
    w_rows.sort_by_key(|row| row[2]);
    let tables = vec![
        TableD { arity: 3, n_keys: 3, sorted: false, rows: t_rows },
        TableD { arity: 1, n_keys: 1, sorted: false, rows: s_rows },
        TableD { arity: 2, n_keys: 2, sorted: false, rows: u_rows },
        TableD { arity: 3, n_keys: 3, sorted: true, rows: w_rows },
    ];
    let nrules = r.range(1, 3);
    let mut cases = Vec::new();
    for _ in 0..nrules {
        let tag = Arg::Const(r.range(1, ntags as usize) as u32);
        let (atoms, nvars): (Vec<AtomD>, usize) = match r.below(7) {
            // constant-narrowed big atom probed by a small one
            0 | 1 => (vec![AtomD { table: 0, args: vec![tag, Arg::Var(0), Arg::Var(1)], cs: vec![] }, AtomD { table: 1, args: vec![Arg::Var(0)], cs: vec![] }], 2),
            // whole big table probed by a small one
            2 => (vec![AtomD { table: 0, args: vec![Arg::Var(2), Arg::Var(0), Arg::Var(1)], cs: vec![] }, AtomD { table: 1, args: vec![Arg::Var(0)], cs: vec![] }], 3),
            // narrowed big atom joined with the medium table
            3 => (vec![AtomD { table: 2, args: vec![Arg::Var(0), Arg::Var(2)], cs: vec![] }, AtomD { table: 0, args: vec![tag, Arg::Var(0), Arg::Var(1)], cs: vec![] }], 3),
            // two narrowed copies of the big table joined on x, and the probe
            4 => (
                vec![
                    AtomD { table: 0, args: vec![Arg::Const(1), Arg::Var(0), Arg::Var(1)], cs: vec![] },
                    AtomD { table: 0, args: vec![Arg::Const(2), Arg::Var(0), Arg::Var(2)], cs: vec![] },
                    AtomD { table: 1, args: vec![Arg::Var(0)], cs: vec![] },
                ],
                3,
            ),
            // timestamp-narrowed (dense tail of a sorted table), optionally also tag-narrowed
            5 => {
                let lo = r.range(1, (nts - 1) as usize) as u32;
                let a0 = if r.chance(1, 2) { tag } else { Arg::Var(2) };
                (vec![AtomD { table: 3, args: vec![a0, Arg::Var(0), Arg::Var(1)], cs: vec![Cs::GeConst(2, lo)] }, AtomD { table: 1, args: vec![Arg::Var(0)], cs: vec![] }], 3)
            }
            // a literal boundary value as an argument
            _ => (vec![AtomD { table: 0, args: vec![Arg::Var(0), Arg::Const(mx), Arg::Var(1)], cs: vec![] }, AtomD { table: 2, args: vec![Arg::Const(mx), Arg::Var(2)], cs: vec![] }], 3),
        };
        let mut atoms = atoms;
        if r.chance(1, 3) {
            atoms.reverse();
        }
        let used: Vec<usize> = (0..nvars).filter(|x| atoms.iter().any(|a| a.args.contains(&Arg::Var(*x)))).collect();
        let out: Vec<usize> = used.iter().copied().filter(|_| r.chance(5, 6)).collect();
        cases.push(Case { tables: tables.clone(), atoms, nvars, out, shape: "boundary".into(), dist: format!("boundary-max-{mx}") });
    }
    cases
}

// ------------------------------------------------------------------------------------------
// plan dump (hook H1) -> Coq term

fn cs_coq_j(c: &J) -> String {
    let k = c["k"].as_str().unwrap();
    if k == "Eq" {
        format!("CEq {} {}", c["l"], c["r"])
    } else {
        format!("C{} {} {}", k, c["col"], c["val"])
    }
}
fn cs_list_coq_j(cs: &J) -> String {
    coq_list(cs.as_array().unwrap(), cs_coq_j)
}
fn nums_coq_j(xs: &J) -> String {
    coq_list(xs.as_array().unwrap(), |x| x.to_string())
}

/// Some(term) for a single-bag plan made of Intersect / FusedIntersect stages only
fn plan_coq(p: &J) -> Option<String> {
    if p["kind"].as_str()? != "single" {
        return None;
    }
    let atoms = p["atoms"].as_array()?;
    // atom ids are dense 0..n in the order added
    for (i, a) in atoms.iter().enumerate() {
        if a["id"].as_u64()? as usize != i {
            return None;
        }
    }
    let tabs = coq_list(atoms, |a| a["table"].to_string());
    let headers = coq_list(p["headers"].as_array()?, |h| format!("mkHeader {} {}", h["atom"], cs_list_coq_j(&h["cs"])));
    let mut stages = Vec::new();
    for st in p["stages"].as_array()? {
        match st["kind"].as_str()? {
            "Intersect" => stages.push(format!(
                "Intersect {} {}",
                st["var"],
                coq_list(st["scans"].as_array()?, |s| format!("mkScan {} {} {}", s["atom"], s["col"], cs_list_coq_j(&s["cs"])))
            )),
            "FusedIntersect" => stages.push(format!(
                "Fused {} {} {} {}",
                st["cover"]["atom"],
                cs_list_coq_j(&st["cover"]["cs"]),
                coq_list(st["bind"].as_array()?, |b| format!("({}, {})", b[0], b[1])),
                coq_list(st["to_intersect"].as_array()?, |t| format!(
                    "mkMScan {} {} {} {}",
                    t["scan"]["atom"],
                    nums_coq_j(&t["scan"]["cols"]),
                    nums_coq_j(&t["key"]),
                    cs_list_coq_j(&t["scan"]["cs"])
                ))
            )),
            _ => return None,
        }
    }
    Some(format!("(mkPlan {} {} {})", tabs, headers, coq_list(&stages, |s| s.clone())))
}


fn stage_coq(st: &J) -> Option<String> {
    match st["kind"].as_str()? {
        "Intersect" => Some(format!(
            "Intersect {} {}",
            st["var"],
            coq_list(st["scans"].as_array()?, |s| format!("mkScan {} {} {}", s["atom"], s["col"], cs_list_coq_j(&s["cs"])))
        )),
        "FusedIntersect" => Some(format!(
            "Fused {} {} {} {}",
            st["cover"]["atom"],
            cs_list_coq_j(&st["cover"]["cs"]),
            coq_list(st["bind"].as_array()?, |b| format!("({}, {})", b[0], b[1])),
            mscans_coq(&st["to_intersect"])?
        )),
        _ => None,
    }
}
fn mscans_coq(ti: &J) -> Option<String> {
    Some(coq_list(ti.as_array()?, |t| {
        format!("mkMScan {} {} {} {}", t["scan"]["atom"], nums_coq_j(&t["scan"]["cols"]), nums_coq_j(&t["key"]), cs_list_coq_j(&t["scan"]["cs"]))
    }))
}
fn mode_coq(m: &J) -> Option<String> {
    Some(match m["m"].as_str()? {
        "Full" => "MoFull".to_string(),
        "KeyOnly" => "MoKeyOnly".to_string(),
        "Value" => format!("(MoValue {})", nums_coq_j(&m["vars"])),
        "Lookup" => format!("(MoLookup {})", nums_coq_j(&m["vars"])),
        _ => return None,
    })
}
fn stage_atoms_j(st: &J, out: &mut BTreeSet<u64>) {
    if let Some(a) = st["scans"].as_array() {
        for s in a {
            out.extend(s["atom"].as_u64());
        }
    }
    out.extend(st["cover"]["atom"].as_u64());
    if let Some(a) = st["to_intersect"].as_array() {
        for t in a {
            out.extend(t["scan"]["atom"].as_u64());
        }
    }
}

/// Ok(term) for a decomposed plan inside the certified fragment of coq/Query/Decomp.v; Err(reason)
/// for the shapes that stay uncertified (reported in the evidence, never silently skipped):
/// the classification is syntactic only, everything semantic is decided by `dplan_ok` in the kernel.
fn dplan_coq(p: &J, case: &Case) -> Result<String, String> {
    if p["kind"].as_str() != Some("decomposed") {
        return Err("not a decomposed plan".into());
    }
    let bad = || "malformed dump".to_string();
    let atoms = p["atoms"].as_array().ok_or_else(bad)?;
    for (i, a) in atoms.iter().enumerate() {
        if a["id"].as_u64() != Some(i as u64) {
            return Err("sparse atom ids".into());
        }
    }
    let blocks = p["blocks"].as_array().ok_or_else(bad)?;
    let mut touched = BTreeSet::new();
    let mut bcoq = Vec::new();
    for b in blocks {
        let mut sts = Vec::new();
        for st in b["stages"].as_array().ok_or_else(bad)? {
            stage_atoms_j(st, &mut touched);
            if st["kind"] == "FusedIntersectMat" {
                let m = st["mode"]["m"].as_str().unwrap_or("?");
                if m != "KeyOnly" {
                    return Err(format!("bag block reads a materialisation in mode {m}"));
                }
                sts.push(format!(
                    "DMat {} {} {} {}",
                    st["mat"],
                    mode_coq(&st["mode"]).ok_or_else(bad)?,
                    coq_list(st["bind"].as_array().ok_or_else(bad)?, |b| format!("({}, {})", b[0], b[1])),
                    mscans_coq(&st["to_intersect"]).ok_or_else(bad)?
                ));
            } else {
                sts.push(format!("DPlain ({})", stage_coq(st).ok_or_else(bad)?));
            }
        }
        bcoq.push(format!("mkBSpec {} {} {}", coq_list(&sts, |s| s.clone()), nums_coq_j(&b["msg_vars"]), nums_coq_j(&b["val_vars"])));
    }
    if (0..atoms.len() as u64).any(|k| !touched.contains(&k)) {
        return Err("an atom belongs to no bag (variable-free atom; known API-only finding)".into());
    }
    let mut visited = BTreeSet::new();
    let mut rcoq = Vec::new();
    for st in p["result"].as_array().ok_or_else(bad)? {
        if st["kind"] != "FusedIntersectMat" {
            return Err("result block has a non-materialisation stage".into());
        }
        if !st["to_intersect"].as_array().map(|a| a.is_empty()).unwrap_or(false) {
            return Err("result stage with probes".into());
        }
        let m = st["mode"]["m"].as_str().unwrap_or("?");
        if m != "Full" && m != "Value" {
            return Err(format!("result stage in mode {m}"));
        }
        let j = st["mat"].as_u64().ok_or_else(bad)? as usize;
        let vals = blocks.get(j).ok_or_else(bad)?["val_vars"].as_array().ok_or_else(bad)?;
        let bind = st["bind"].as_array().ok_or_else(bad)?;
        if bind.len() != vals.len() || bind.iter().zip(vals.iter()).enumerate().any(|(i, (b, v))| b[0].as_u64() != Some(i as u64) || b[1] != *v) {
            return Err("result stage binds only part of the value variables".into());
        }
        visited.insert(j);
        rcoq.push(format!(
            "mkRStage {} {} {}",
            j,
            mode_coq(&st["mode"]).ok_or_else(bad)?,
            coq_list(bind, |b| format!("({}, {})", b[0], b[1]))
        ));
    }
    for (j, b) in blocks.iter().enumerate() {
        let n = b["msg_vars"].as_array().map(|a| a.len()).unwrap_or(0) + b["val_vars"].as_array().map(|a| a.len()).unwrap_or(0);
        if n > 0 && !visited.contains(&j) {
            return Err("semijoin-only bag (passes variables on but is not scanned by the result block)".into());
        }
    }
    Ok(format!(
        "(mkDPlan {} {} {} {} {})",
        case.tables.len(),
        coq_list(atoms, |a| a["table"].to_string()),
        coq_list(p["headers"].as_array().ok_or_else(bad)?, |h| format!("mkHeader {} {}", h["atom"], cs_list_coq_j(&h["cs"]))),
        coq_list(&bcoq, |s| s.clone()),
        coq_list(&rcoq, |s| s.clone())
    ))
}

fn plan_stage_kinds(p: &J, hist: &mut BTreeMap<String, usize>) {
    let mut visit = |stages: &J, pre: &str| {
        if let Some(a) = stages.as_array() {
            for st in a {
                let mut k = format!("{pre}{}", st["kind"].as_str().unwrap_or("?"));
                if st["kind"] == "FusedIntersect" {
                    k.push_str(if st["to_intersect"].as_array().map(|x| x.is_empty()).unwrap_or(true) { "(scan)" } else { "(probe)" });
                }
                if st["kind"] == "FusedIntersectMat" {
                    k.push_str(&format!("({})", st["mode"]["m"].as_str().unwrap_or("?")));
                }
                *hist.entry(k).or_insert(0) += 1;
            }
        }
    };
    visit(&p["stages"], "");
    if let Some(bs) = p["blocks"].as_array() {
        for b in bs {
            visit(&b["stages"], "bag:");
        }
    }
    visit(&p["result"], "result:");
}

// ------------------------------------------------------------------------------------------
// generator

const SHAPES: &[&str] = &["chain", "star", "cycle", "clique", "random", "selfloop", "fd-dup", "single"];
const DISTS: &[&str] = &["empty", "singleton", "small", "skewed", "dense", "large"];

fn gen_tables(r: &mut Rng, dist: &str) -> Vec<TableD> {
    let nrel = r.range(1, 4);
    let mut tables = Vec::new();
    let dom = match dist {
        "dense" => 3,
        "large" => r.range(5, 9),
        "skewed" => r.range(3, 5),
        _ => r.range(2, 4),
    } as u32;
    let empty_ix = if dist == "empty" { r.below(nrel) } else { usize::MAX };
    for ti in 0..nrel {
        let arity = r.range(1, 4);
        let k = r.below(10);
        let (n_keys, sorted) = if k < 6 || arity == 1 {
            (arity, false)
        } else if k < 8 {
            (arity - 1, false)
        } else {
            (arity, true)
        };
        let mut rows: Vec<Vec<u32>> = Vec::new();
        let n = match dist {
            "empty" => {
                if ti == empty_ix {
                    0
                } else {
                    r.range(1, 5)
                }
            }
            "singleton" => 1,
            "small" => r.range(2, 6),
            "skewed" => r.range(10, 30),
            "dense" => usize::MAX,
            _ => r.range(40, 110),
        };
        if n == usize::MAX {
            let d = if arity == 4 { 2u32 } else { 3u32 };
            let total = (d as usize).pow(arity as u32);
            for i in 0..total {
                let mut x = i;
                let mut row = Vec::new();
                for _ in 0..arity {
                    row.push((x % d as usize) as u32);
                    x /= d as usize;
                }
                if !r.chance(1, 10) {
                    rows.push(row);
                }
            }
        } else {
            for _ in 0..n {
                let row: Vec<u32> = (0..arity)
                    .map(|_| if dist == "skewed" && r.chance(7, 10) { 0 } else { r.below(dom as usize) as u32 })
                    .collect();
                rows.push(row);
            }
        }
        // set semantics; functional tables: one row per key
        let mut seen = HashSet::new();
        rows.retain(|row| seen.insert(row[..n_keys].to_vec()));
        if sorted {
            rows.sort_by_key(|row| row[arity - 1]);
        }
        tables.push(TableD { arity, n_keys, sorted, rows });
    }
    tables
}

fn gen_case(r: &mut Rng, force_shape: Option<&str>, force_dist: Option<&str>) -> Case {
    let dist = force_dist.map(|s| s.to_string()).unwrap_or_else(|| r.pick(DISTS).to_string());
    let shape = force_shape.map(|s| s.to_string()).unwrap_or_else(|| r.pick(SHAPES).to_string());
    let tables = gen_tables(r, &dist);
    let max_atoms = if dist == "large" || dist == "dense" { 4 } else { 6 };
    let natoms = match shape.as_str() {
        "single" => 1,
        "clique" => {
            if max_atoms >= 6 && r.chance(1, 3) {
                6
            } else {
                3
            }
        }
        _ => r.range(2, max_atoms),
    };
    let mut nvars = 0usize;
    let mut cores: Vec<Vec<usize>> = Vec::new();
    match shape.as_str() {
        "chain" => {
            for i in 0..natoms {
                cores.push(vec![i, i + 1]);
            }
            nvars = natoms + 1;
        }
        "star" => {
            for i in 0..natoms {
                cores.push(vec![0, i + 1]);
            }
            nvars = natoms + 1;
        }
        "cycle" => {
            for i in 0..natoms {
                cores.push(vec![i, (i + 1) % natoms]);
            }
            nvars = natoms;
        }
        "clique" => {
            let k = if natoms == 6 { 4 } else { 3 };
            for a in 0..k {
                for b in (a + 1)..k {
                    cores.push(vec![a, b]);
                }
            }
            nvars = k;
        }
        "selfloop" => {
            for i in 0..natoms {
                cores.push(if r.chance(1, 2) { vec![i, i] } else { vec![i, i + 1] });
            }
            nvars = natoms + 1;
        }
        "random" | "single" | "fd-dup" => {
            nvars = r.range(1, 5);
            for _ in 0..natoms {
                cores.push(vec![]);
            }
        }
        _ => unreachable!(),
    }
    let dom = tables.iter().flat_map(|t| t.rows.iter().flat_map(|r| r.iter().copied())).max().unwrap_or(2) as usize + 1;
    let mut atoms: Vec<AtomD> = Vec::new();
    for core in cores.iter() {
        let table = r.below(tables.len());
        let arity = tables[table].arity;
        let mut args: Vec<Option<Arg>> = vec![None; arity];
        // place the core variables in random distinct slots
        let mut slots: Vec<usize> = (0..arity).collect();
        for v in core {
            if slots.is_empty() {
                break;
            }
            let s = slots.remove(r.below(slots.len()));
            args[s] = Some(Arg::Var(*v));
        }
        let random_shape = core.is_empty();
        // literals mostly taken from the data of that column, so that they select something
        let pick_const = |r: &mut Rng, c: usize| -> u32 {
            let rows = &tables[table].rows;
            if !rows.is_empty() && r.chance(4, 5) {
                rows[r.below(rows.len())][c]
            } else {
                r.below(dom) as u32
            }
        };
        for s in slots {
            let k = r.below(100);
            args[s] = Some(if random_shape {
                if k < 80 {
                    Arg::Var(r.below(nvars))
                } else {
                    Arg::Const(pick_const(r, s))
                }
            } else if k < 55 {
                nvars += 1;
                Arg::Var(nvars - 1)
            } else if k < 80 {
                Arg::Var(r.below(nvars))
            } else {
                Arg::Const(pick_const(r, s))
            });
        }
        let mut cs = Vec::new();
        // (an atom without variables is touched by no stage; the API-only probe below covers it)
        let has_var = args.iter().any(|a| matches!(a, Some(Arg::Var(_))));
        if has_var && r.chance(1, 4) {
            let c = if tables[table].sorted && r.chance(2, 3) { arity - 1 } else { r.below(arity) };
            let k = if r.chance(1, 2) { pick_const(r, c) } else { r.below(dom + 1) as u32 };
            cs.push(match r.below(5) {
                0 => Cs::EqConst(c, k),
                1 => Cs::LtConst(c, k),
                2 => Cs::GtConst(c, k),
                3 => Cs::LeConst(c, k),
                _ => Cs::GeConst(c, k),
            });
        }
        atoms.push(AtomD { table, args: args.into_iter().map(|a| a.unwrap()).collect(), cs });
    }
    if shape == "fd-dup" {
        // duplicate an atom: identically, or (functional table) same keys with a fresh value variable
        let i = r.below(atoms.len());
        let mut dup = atoms[i].clone();
        let t = &tables[dup.table];
        if t.n_keys < t.arity && r.chance(2, 3) {
            dup.args[t.arity - 1] = Arg::Var(nvars);
            nvars += 1;
        }
        dup.cs.clear();
        let at = r.below(atoms.len() + 1);
        atoms.insert(at, dup);
    }
    // only variables that occur in some atom may be read by the action
    let mut occ = vec![false; nvars];
    for a in &atoms {
        for g in &a.args {
            if let Arg::Var(x) = g {
                occ[*x] = true;
            }
        }
    }
    let mut out: Vec<usize> = (0..nvars).filter(|x| occ[*x] && r.chance(3, 5)).collect();
    out.truncate(6);
    Case { tables, atoms, nvars, out, shape, dist }
}

// ------------------------------------------------------------------------------------------
// egglog text path

struct TextCase {
    text_decl: String,
    text_facts: String,
    rule: String,
    case: Case,                      // atoms over tables; functions are tables with n_keys = arity-1
    filters: Vec<(char, Arg, Arg)>,  // '<' or '!' over bound variables / constants
}

fn gen_text_case(r: &mut Rng, no_decomp: bool) -> TextCase {
    let dist = *r.pick(&["small", "skewed", "dense", "large", "singleton", "empty"]);
    let shape = *r.pick(&["chain", "star", "cycle", "clique", "random", "selfloop", "fd-dup"]);
    let mut case = gen_case(r, Some(shape), Some(dist));
    for t in case.tables.iter_mut() {
        t.sorted = false;
    }
    for a in case.atoms.iter_mut() {
        a.cs.clear();
    }
    if case.out.is_empty() {
        // Out needs at least one column
        for a in &case.atoms {
            for g in &a.args {
                if let Arg::Var(x) = g {
                    if case.out.is_empty() {
                        case.out.push(*x);
                    }
                }
            }
        }
    }
    let mut decl = String::new();
    for (i, t) in case.tables.iter().enumerate() {
        if t.n_keys == t.arity {
            decl.push_str(&format!("(relation R{i} ({}))\n", vec!["i64"; t.arity].join(" ")));
        } else {
            decl.push_str(&format!("(function R{i} ({}) i64 :no-merge)\n", vec!["i64"; t.arity - 1].join(" ")));
        }
    }
    decl.push_str(&format!("(relation Out ({}))\n", vec!["i64"; case.out.len().max(1)].join(" ")));
    let mut facts = String::new();
    for (i, t) in case.tables.iter().enumerate() {
        for row in &t.rows {
            let s: Vec<String> = row.iter().map(|v| v.to_string()).collect();
            if t.n_keys == t.arity {
                facts.push_str(&format!("(R{i} {})\n", s.join(" ")));
            } else {
                facts.push_str(&format!("(set (R{i} {}) {})\n", s[..t.arity - 1].join(" "), s[t.arity - 1]));
            }
        }
    }
    let gtxt = |g: &Arg| match g {
        Arg::Var(x) => format!("v{x}"),
        Arg::Const(k) => k.to_string(),
    };
    let mut body: Vec<String> = Vec::new();
    for a in &case.atoms {
        let t = &case.tables[a.table];
        let s: Vec<String> = a.args.iter().map(gtxt).collect();
        if t.n_keys == t.arity {
            body.push(format!("(R{} {})", a.table, s.join(" ")));
        } else {
            body.push(format!("(= {} (R{} {}))", s[t.arity - 1], a.table, s[..t.arity - 1].join(" ")));
        }
    }
    // primitive guards over variables bound by atoms
    let mut bound: Vec<usize> = Vec::new();
    for a in &case.atoms {
        for g in &a.args {
            if let Arg::Var(x) = g {
                if !bound.contains(x) {
                    bound.push(*x);
                }
            }
        }
    }
    let mut filters = Vec::new();
    if !bound.is_empty() {
        let nf = if r.chance(1, 2) { 0 } else { r.range(1, 2) };
        for _ in 0..nf {
            let a = Arg::Var(*r.pick(&bound));
            let b = if r.chance(2, 3) { Arg::Var(*r.pick(&bound)) } else { Arg::Const(r.below(5) as u32) };
            let op = if r.chance(1, 2) { '<' } else { '!' };
            body.push(format!("({} {} {})", if op == '<' { "<" } else { "!=" }, gtxt(&a), gtxt(&b)));
            filters.push((op, a, b));
        }
    }
    let outs: Vec<String> = case.out.iter().map(|x| format!("v{x}")).collect();
    let rule = format!("(rule ({}) ((Out {})){})", body.join(" "), outs.join(" "), if no_decomp { " :no-decomp" } else { "" });
    TextCase { text_decl: decl, text_facts: facts, rule, case, filters }
}

fn text_reference(tc: &TextCase, budget: &mut u64) -> Option<BTreeSet<Vec<i64>>> {
    // matches of the atoms on all variables, then the guards
    let mut c = tc.case.clone();
    let mut all: Vec<usize> = Vec::new();
    for a in &c.atoms {
        for g in &a.args {
            if let Arg::Var(x) = g {
                if !all.contains(x) {
                    all.push(*x);
                }
            }
        }
    }
    let pos: BTreeMap<usize, usize> = all.iter().enumerate().map(|(i, x)| (*x, i)).collect();
    c.out = all.clone();
    let ms = reference(&c, budget)?;
    let val = |m: &Vec<u32>, g: &Arg| -> i64 {
        match g {
            Arg::Var(x) => m[pos[x]] as i64,
            Arg::Const(k) => *k as i64,
        }
    };
    let mut out = BTreeSet::new();
    for m in ms {
        if tc.filters.iter().all(|(op, a, b)| if *op == '<' { val(&m, a) < val(&m, b) } else { val(&m, a) != val(&m, b) }) {
            out.insert(tc.case.out.iter().map(|x| m[pos[x]] as i64).collect());
        }
    }
    Some(out)
}

fn run_text(tc: &TextCase) -> Result<(BTreeSet<Vec<i64>>, Vec<String>), String> {
    use verif_harness::egg;
    let mut eg = egglog::EGraph::default();
    let (res, _) = egg::step(&mut eg, &format!("{}{}", tc.text_decl, tc.text_facts));
    res.map_err(|e| format!("setup: {e}"))?;
    #[cfg(egglog_verif)]
    egglog_core_relations::verif_plan_sink_start();
    let (res, _) = egg::step(&mut eg, &format!("{}\n(run 1)\n", tc.rule));
    #[cfg(egglog_verif)]
    let plans = egglog_core_relations::verif_plan_sink_take();
    #[cfg(not(egglog_verif))]
    let plans = Vec::new();
    res.map_err(|e| format!("run: {e}"))?;
    let mut rows = BTreeSet::new();
    let r = std::panic::catch_unwind(std::panic::AssertUnwindSafe(|| {
        let mut rows = BTreeSet::new();
        eg.constructor_enodes("Out", |e| {
            rows.insert(e.children.iter().map(|v| eg.value_to_base::<i64>(*v)).collect::<Vec<i64>>());
        })
        .map_err(|e| format!("{e}"))?;
        Ok::<_, String>(rows)
    }));
    match r {
        Ok(Ok(x)) => rows.extend(x),
        Ok(Err(e)) => return Err(format!("read Out: {e}")),
        Err(_) => return Err("panic reading Out".into()),
    }
    Ok((rows, plans))
}

// ------------------------------------------------------------------------------------------

struct Viol {
    what: String,
    key: String,
    input: J,
}

struct Stats {
    shape_hist: BTreeMap<String, usize>,
    dist_hist: BTreeMap<String, usize>,
    natoms_hist: BTreeMap<String, usize>,
    config_hist: BTreeMap<String, usize>,
    plan_kind_hist: BTreeMap<String, usize>,
    bags_hist: BTreeMap<String, usize>,
    stage_kind_hist: BTreeMap<String, usize>,
    result_size_hist: BTreeMap<String, usize>,
    feature_hist: BTreeMap<String, usize>,
    plans_certified: usize,
    dplans_certified: usize,
    dplans_exec: usize,
    dplan_bags_hist: BTreeMap<String, usize>,
    plans_uncertified: usize,
    uncertified_why: BTreeMap<String, usize>,
    exec_cases: usize,
    engine_runs: usize,
    skipped_budget: usize,
    text_runs: usize,
    text_plan_kind_hist: BTreeMap<String, usize>,
    text_stage_kind_hist: BTreeMap<String, usize>,
    resort_candidates: usize,
    multi_rule_sets: usize,
    multi_rules: usize,
    multi_nontrivial: usize,
    plans_large_literals: usize,
    boundary_rule_sets: usize,
    boundary_max_hist: BTreeMap<String, usize>,
    multi_heavy_groups_hist: BTreeMap<String, usize>,
}

fn bump(h: &mut BTreeMap<String, usize>, k: &str) {
    *h.entry(k.to_string()).or_insert(0) += 1;
}

fn size_bucket(n: usize) -> &'static str {
    match n {
        0 => "0",
        1 => "1",
        2..=9 => "2-9",
        10..=99 => "10-99",
        _ => "100+",
    }
}

fn features(case: &Case, st: &mut Stats) {
    let mut rep_in = false;
    let mut consts = false;
    let mut cs = false;
    for a in &case.atoms {
        let vs: Vec<&Arg> = a.args.iter().filter(|g| matches!(g, Arg::Var(_))).collect();
        let set: HashSet<&&Arg> = vs.iter().collect();
        if set.len() < vs.len() {
            rep_in = true;
        }
        if a.args.iter().any(|g| matches!(g, Arg::Const(_))) {
            consts = true;
        }
        if !a.cs.is_empty() {
            cs = true;
        }
    }
    let dup_atom = (0..case.atoms.len()).any(|i| (0..i).any(|j| case.atoms[i].table == case.atoms[j].table && case.atoms[i].args == case.atoms[j].args));
    if rep_in {
        bump(&mut st.feature_hist, "repeated-var-in-atom");
    }
    if consts {
        bump(&mut st.feature_hist, "constant-arg");
    }
    if cs {
        bump(&mut st.feature_hist, "column-constraint");
    }
    if dup_atom {
        bump(&mut st.feature_hist, "duplicate-atom");
    }
    if case.atoms.iter().any(|a| case.tables[a.table].n_keys < case.tables[a.table].arity) {
        bump(&mut st.feature_hist, "functional-table");
    }
    if case.atoms.iter().any(|a| case.tables[a.table].sorted) {
        bump(&mut st.feature_hist, "sorted-table(fast range constraints)");
    }
    if case.out.len() < case.nvars {
        bump(&mut st.feature_hist, "unused-variables");
    }
}

/// run one API case under one configuration; returns the violation if the engine's output differs
#[allow(clippy::too_many_arguments)]
fn api_case(
    case: &Case,
    strat: Strat,
    no_decomp: bool,
    threads: usize,
    want: &BTreeSet<Vec<u32>>,
    st: &mut Stats,
    w: &mut CaseWriter,
    seen_plans: &mut HashSet<String>,
    emit_exec: bool,
) -> Option<Viol> {
    st.engine_runs += 1;
    bump(&mut st.config_hist, &format!("{}{}{}", strat.name(), if no_decomp { "/no-decomp" } else { "/decomp" }, if threads > 1 { "/threads" } else { "" }));
    let input = json!({"path": "api", "case": case.json(), "strategy": strat.name(), "no_decomp": no_decomp, "threads": threads});
    let key = format!("c02-api-{}-{}", strat.name(), if no_decomp { "nodecomp" } else { "decomp" });
    match run_engine(case, strat, no_decomp, threads) {
        Err(msg) => Some(Viol { what: format!("engine panicked running the rule: {}", msg.chars().take(200).collect::<String>()), key: format!("{key}-panic"), input }),
        Ok(out) => {
            for pj in &out.plans {
                let p: J = serde_json::from_str(pj).expect("plan json");
                let kind = p["kind"].as_str().unwrap_or("?").to_string();
                bump(&mut st.plan_kind_hist, &format!("{}:{}", strat.name(), kind));
                bump(&mut st.bags_hist, &p["bags"].to_string());
                plan_stage_kinds(&p, &mut st.stage_kind_hist);
                let nst = p["stages"].as_array().map(|a| a.len()).unwrap_or(0);
                if nst >= 3 && case.tables.iter().any(|t| t.rows.len() > 32) {
                    st.resort_candidates += 1;
                }
                let q = case.query_coq();
                match plan_coq(&p) {
                    Some(pc) => {
                        let small = case.total_rows() <= 40 && want.len() <= 60;
                        if emit_exec && small && out.rows == *want {
                            let rows: Vec<Vec<u32>> = want.iter().cloned().collect();
                            w.push(format!("CS (CExec {} {} {} {})", q, pc, case.db_coq(), coq_list(&rows, |r| coq_list(r, |v| v.to_string()))));
                            st.exec_cases += 1;
                            st.plans_certified += 1;
                        } else if seen_plans.insert(format!("{q}|{pc}")) {
                            w.push(format!("CS (CPlan {} {})", q, pc));
                            st.plans_certified += 1;
                        }
                    }
                    None => match dplan_coq(&p, case) {
                        Ok(dc) if case.small_literals() => {
                            let small = case.total_rows() <= 40 && want.len() <= 60;
                            if emit_exec && small && out.rows == *want {
                                let rows: Vec<Vec<u32>> = want.iter().cloned().collect();
                                DCASES.lock().unwrap().push(format!("CDExec {} {} {} {}", q, dc, case.db_coq(), coq_list(&rows, |r| coq_list(r, |v| v.to_string()))));
                                st.dplans_exec += 1;
                                st.dplans_certified += 1;
                                bump(&mut st.dplan_bags_hist, &format!("{} bags", p["bags"]));
                            } else if seen_plans.insert(format!("{q}|{dc}")) {
                                DCASES.lock().unwrap().push(format!("CDPlan {} {}", q, dc));
                                st.dplans_certified += 1;
                                bump(&mut st.dplan_bags_hist, &format!("{} bags", p["bags"]));
                            }
                        }
                        Ok(_) => {
                            st.plans_large_literals += 1;
                        }
                        Err(why) => {
                            st.plans_uncertified += 1;
                            bump(&mut st.uncertified_why, &format!("{}:{} bags: {}", kind, p["bags"], why));
                        }
                    },
                }
            }
            if out.rows != *want {
                let extra: Vec<&Vec<u32>> = out.rows.difference(want).take(3).collect();
                let missing: Vec<&Vec<u32>> = want.difference(&out.rows).take(3).collect();
                Some(Viol {
                    what: format!(
                        "rule fired for a set of substitutions different from the matches of its body ({} {}): engine {} rows, nested-loop matcher {} rows; fired-but-no-match e.g. {:?}; match-but-not-fired e.g. {:?}",
                        strat.name(),
                        if no_decomp { "no-decomp" } else { "decomp" },
                        out.rows.len(),
                        want.len(),
                        extra,
                        missing
                    ),
                    key,
                    input,
                })
            } else {
                None
            }
        }
    }
}

/// one multi-rule rule set through the API under the given configurations
#[allow(clippy::too_many_arguments)]
fn multi_api(
    cases: &[Case],
    idx: usize,
    st: &mut Stats,
    w: &mut CaseWriter,
    viols: &mut Vec<Viol>,
    seen_plans: &mut HashSet<String>,
    api_only_count: &mut usize,
    only: Option<(Strat, bool, usize)>,
) {
    let mut wants = Vec::new();
    for c in cases {
        let mut budget = 4_000_000u64;
        match reference(c, &mut budget) {
            Some(x) => wants.push(x),
            None => {
                st.skipped_budget += 1;
                return;
            }
        }
    }
    st.multi_rule_sets += 1;
    if wants.iter().filter(|w| !w.is_empty()).count() >= 2 {
        st.multi_nontrivial += 1;
    }
    st.multi_rules += cases.len();
    // rows per join value of the heavy table
    let mut per: BTreeMap<u32, usize> = BTreeMap::new();
    for r in &cases[0].tables[0].rows {
        *per.entry(r[0]).or_insert(0) += 1;
    }
    let mx = per.values().copied().max().unwrap_or(0);
    bump(&mut st.multi_heavy_groups_hist, if mx > 32 { "max group > 32 rows" } else if mx > 16 { "max group 17-32 rows" } else { "max group <= 16 rows" });
    let configs: Vec<(Strat, bool, usize)> = match only {
        Some(c) => vec![c],
        None => vec![
            (Strat::Gj, false, if idx % 3 == 0 { 4 } else { 1 }),
            (Strat::Gj, true, if idx % 3 == 1 { 4 } else { 1 }),
            (Strat::MinCover, true, 1),
            (Strat::PureSize, true, 1),
        ],
    };
    for (s, nd, threads) in configs {
        st.engine_runs += 1;
        bump(&mut st.config_hist, &format!("multi:{}{}{}", s.name(), if nd { "/no-decomp" } else { "/decomp" }, if threads > 1 { "/threads" } else { "" }));
        let varfree = cases.iter().any(|c| c.atoms.iter().any(|a| a.args.iter().all(|g| matches!(g, Arg::Const(_)))));
        let in_scope = s == Strat::Gj && !varfree;
        let input = json!({"path": "api-multi", "cases": cases.iter().map(|c| c.json()).collect::<Vec<_>>(), "strategy": s.name(), "no_decomp": nd, "threads": threads});
        let key = format!("c02-api-multi-{}-{}", s.name(), if nd { "nodecomp" } else { "decomp" });
        let mut push = |v: Viol, viols: &mut Vec<Viol>| {
            if in_scope {
                viols.push(v);
            } else {
                *api_only_count += 1;
            }
        };
        match run_engine_multi(cases, s, nd, threads) {
            Err(msg) => push(Viol { what: format!("engine panicked running a rule set of {} rules: {}", cases.len(), msg.chars().take(200).collect::<String>()), key: format!("{key}-panic"), input }, viols),
            Ok(out) => {
                if out.plans.len() == cases.len() {
                    for (c, pj) in cases.iter().zip(out.plans.iter()) {
                        let p: J = serde_json::from_str(pj).expect("plan json");
                        bump(&mut st.plan_kind_hist, &format!("{}:{}", s.name(), p["kind"].as_str().unwrap_or("?")));
                        bump(&mut st.bags_hist, &p["bags"].to_string());
                        plan_stage_kinds(&p, &mut st.stage_kind_hist);
                        match plan_coq(&p) {
                            Some(_) if !c.small_literals() => {
                                st.plans_large_literals += 1;
                            }
                            Some(pc) => {
                                let q = c.query_coq();
                                if seen_plans.insert(format!("{q}|{pc}")) {
                                    w.push(format!("CS (CPlan {} {})", q, pc));
                                    st.plans_certified += 1;
                                }
                            }
                            None => match dplan_coq(&p, c) {
                                Ok(dc) if c.small_literals() => {
                                    let q = c.query_coq();
                                    if seen_plans.insert(format!("{q}|{dc}")) {
                                        DCASES.lock().unwrap().push(format!("CDPlan {} {}", q, dc));
                                        st.dplans_certified += 1;
                                        bump(&mut st.dplan_bags_hist, &format!("{} bags", p["bags"]));
                                    }
                                }
                                Ok(_) => {
                                    st.plans_large_literals += 1;
                                }
                                Err(why) => {
                                    st.plans_uncertified += 1;
                                    bump(&mut st.uncertified_why, &format!("{}:{} bags: {}", p["kind"].as_str().unwrap_or("?"), p["bags"], why));
                                }
                            },
                        }
                    }
                }
                for (k, (got, want)) in out.rows.iter().zip(wants.iter()).enumerate() {
                    if got != want {
                        let extra: Vec<&Vec<u32>> = got.difference(want).take(3).collect();
                        let missing: Vec<&Vec<u32>> = want.difference(got).take(3).collect();
                        push(
                            Viol {
                                what: format!(
                                    "rule {k} of a {}-rule rule set (one run_rule_set, {} {}) fired for a set of substitutions different from the matches of its body: engine {} rows, nested-loop matcher {} rows; fired-but-no-match e.g. {:?}; match-but-not-fired e.g. {:?}",
                                    cases.len(),
                                    s.name(),
                                    if nd { "no-decomp" } else { "decomp" },
                                    got.len(),
                                    want.len(),
                                    extra,
                                    missing
                                ),
                                key: key.clone(),
                                input: input.clone(),
                            },
                            viols,
                        );
                        break;
                    }
                }
            }
        }
    }
}

fn read_out_i64(eg: &egglog::EGraph, name: &str) -> Result<BTreeSet<Vec<i64>>, String> {
    let r = std::panic::catch_unwind(std::panic::AssertUnwindSafe(|| {
        let mut rows = BTreeSet::new();
        eg.constructor_enodes(name, |e| {
            rows.insert(e.children.iter().map(|v| eg.value_to_base::<i64>(*v)).collect::<Vec<i64>>());
        })
        .map_err(|e| format!("{e}"))?;
        Ok::<_, String>(rows)
    }));
    match r {
        Ok(x) => x,
        Err(_) => Err("panic reading table".into()),
    }
}

/// run an egglog program with output relations Out0..Out{n-1}; compare each with the expectation
fn text_multi_check(program: &str, expected: &[BTreeSet<Vec<i64>>], key: &str, st: &mut Stats, viols: &mut Vec<Viol>) {
    st.text_runs += 1;
    let input = json!({"path": "text-multi", "program": program, "expected": expected.iter().map(|s| s.iter().collect::<Vec<_>>()).collect::<Vec<_>>()});
    let mut eg = egglog::EGraph::default();
    // declarations and facts first, then (with the plan sink on) the rules and the run
    let split = program.find("(rule").unwrap_or(0);
    let (setup, rules) = program.split_at(split);
    let (res0, _) = verif_harness::egg::step(&mut eg, setup);
    #[cfg(egglog_verif)]
    egglog_core_relations::verif_plan_sink_start();
    let (res, _) = if res0.is_ok() { verif_harness::egg::step(&mut eg, rules) } else { (res0, false) };
    #[cfg(egglog_verif)]
    for pj in egglog_core_relations::verif_plan_sink_take() {
        if let Ok(p) = serde_json::from_str::<J>(&pj) {
            if p["atoms"].as_array().map(|a| a.is_empty()).unwrap_or(true) {
                continue; // top-level fact actions compile atom-less plans
            }
            bump(&mut st.text_plan_kind_hist, &format!("{}:{} bags", p["kind"].as_str().unwrap_or("?"), p["bags"]));
            plan_stage_kinds(&p, &mut st.text_stage_kind_hist);
        }
    }
    if let Err(e) = res {
        if e.contains("PANIC") || e.contains("panic") {
            viols.push(Viol { what: format!("engine panicked on an egglog rule-set run: {}", e.chars().take(200).collect::<String>()), key: format!("{key}-panic"), input });
        } else {
            bump(&mut st.text_plan_kind_hist, "rejected-program");
            if std::env::var("VERIF_DEBUG").is_ok() {
                eprintln!("rejected: {e}\n{program}");
            }
        }
        return;
    }
    for (k, want) in expected.iter().enumerate() {
        match read_out_i64(&eg, &format!("Out{k}")) {
            Err(e) => {
                viols.push(Viol { what: format!("reading Out{k}: {e}"), key: format!("{key}-read"), input });
                return;
            }
            Ok(got) => {
                if got != *want {
                    let extra: Vec<&Vec<i64>> = got.difference(want).take(3).collect();
                    let missing: Vec<&Vec<i64>> = want.difference(&got).take(3).collect();
                    viols.push(Viol {
                        what: format!(
                            "rule {k} of a {}-rule egglog ruleset (one (run 1)) fired for a set of substitutions different from the matches of its body: Out{k} has {} rows, nested-loop matcher {} rows; fired-but-no-match e.g. {:?}; match-but-not-fired e.g. {:?}",
                            expected.len(),
                            got.len(),
                            want.len(),
                            extra,
                            missing
                        ),
                        key: key.to_string(),
                        input,
                    });
                    return;
                }
            }
        }
    }
}

fn multi_text_run(cases: &[Case], no_decomp: bool, delta: bool, st: &mut Stats, viols: &mut Vec<Viol>) {
    let mut expected = Vec::new();
    for c in cases {
        let mut budget = 4_000_000u64;
        let Some(want) = reference(c, &mut budget) else {
            st.skipped_budget += 1;
            return;
        };
        let e: BTreeSet<Vec<i64>> = if c.out.is_empty() {
            if want.is_empty() {
                BTreeSet::new()
            } else {
                [vec![0i64]].into_iter().collect()
            }
        } else {
            want.iter().map(|r| r.iter().map(|v| *v as i64).collect()).collect()
        };
        expected.push(e);
    }
    let program = multi_text(cases, no_decomp, delta);
    text_multi_check(&program, &expected, &format!("c02-text-multi-{}{}", if no_decomp { "nodecomp" } else { "decomp" }, if delta { "-delta" } else { "" }), st, viols);
}

/// Decomposed-plan cases go to their own (informational) case files: `dplan_ok` still rejects a few
/// correct planner outputs, so they must not raise an alarm (DESIGN.md 10.8).
static DCASES: std::sync::Mutex<Vec<String>> = std::sync::Mutex::new(Vec::new());

fn main() {
    let o = verif_harness::parse_opts();
    std::process::exit(run(&o));
}

pub fn run(o: &Opts) -> i32 {
    let header = "From Coq Require Import List Arith NArith.\nImport ListNotations.\nRequire Import Verif.Base.Cases Verif.Query.Spec Verif.Query.Stages Verif.Query.PlanOk Verif.Query.Decomp.\n";
    let mut w = CaseWriter::new(&o.out, "cases_plans", header, "check_dcase", 60);
    let mut st = Stats {
        shape_hist: BTreeMap::new(),
        dist_hist: BTreeMap::new(),
        natoms_hist: BTreeMap::new(),
        config_hist: BTreeMap::new(),
        plan_kind_hist: BTreeMap::new(),
        bags_hist: BTreeMap::new(),
        stage_kind_hist: BTreeMap::new(),
        result_size_hist: BTreeMap::new(),
        feature_hist: BTreeMap::new(),
        plans_certified: 0,
        dplans_certified: 0,
        dplans_exec: 0,
        dplan_bags_hist: BTreeMap::new(),
        plans_uncertified: 0,
        uncertified_why: BTreeMap::new(),
        exec_cases: 0,
        engine_runs: 0,
        skipped_budget: 0,
        text_runs: 0,
        text_plan_kind_hist: BTreeMap::new(),
        text_stage_kind_hist: BTreeMap::new(),
        resort_candidates: 0,
        multi_rule_sets: 0,
        multi_rules: 0,
        multi_nontrivial: 0,
        plans_large_literals: 0,
        boundary_rule_sets: 0,
        boundary_max_hist: BTreeMap::new(),
        multi_heavy_groups_hist: BTreeMap::new(),
    };
    let mut viols: Vec<Viol> = Vec::new();
    let mut samples: Vec<J> = Vec::new();
    let mut distinct: HashSet<Case> = HashSet::new();
    let mut nontrivial = 0usize;
    let mut seen_plans: HashSet<String> = HashSet::new();
    // Gj is what the language uses for every multi-atom rule; MinCover for one-atom rules and the
    // two-atom rebuild rules; PureSize (and MinCover on >= 3 atoms) is reachable only through the
    // core-relations API. The free-join strategies do not support tree decomposition on >= 3 atoms
    // (the planner panics), so they run with no_decomp only; disagreements in API-only
    // configurations are recorded as observations, not as violations of the property.
    let configs: Vec<(Strat, bool)> = vec![(Strat::Gj, false), (Strat::Gj, true), (Strat::MinCover, true), (Strat::PureSize, true)];
    let mut api_only: Vec<J> = Vec::new();
    let mut api_only_count = 0usize;
    let mut api_only_probe = J::Null;
    let mut api_only_probe2 = J::Null;
    let mut api_full = |case: &Case, idx: usize, st: &mut Stats, w: &mut CaseWriter, viols: &mut Vec<Viol>, only: Option<(Strat, bool, usize)>| {
        let mut budget = 4_000_000u64;
        let Some(want) = reference(case, &mut budget) else {
            st.skipped_budget += 1;
            return;
        };
        bump(&mut st.shape_hist, &case.shape);
        bump(&mut st.dist_hist, &case.dist);
        bump(&mut st.natoms_hist, &case.atoms.len().to_string());
        bump(&mut st.result_size_hist, size_bucket(want.len()));
        features(case, st);
        if distinct.insert(case.clone()) && !want.is_empty() && case.atoms.len() >= 2 {
            nontrivial += 1;
        }
        if samples.len() < 3 && !want.is_empty() && case.atoms.len() >= 3 && case.total_rows() < 30 {
            samples.push(json!({"query": case.query_coq(), "tables": case.tables.iter().map(|t| t.rows.clone()).collect::<Vec<_>>(), "matches_on_out_vars": want.iter().take(5).collect::<Vec<_>>()}));
        }
        match only {
            Some((s, nd, th)) => {
                if let Some(v) = api_case(case, s, nd, th, &want, st, w, &mut seen_plans, true) {
                    viols.push(v);
                }
            }
            None => {
                let varfree = case.atoms.iter().any(|a| a.args.iter().all(|g| matches!(g, Arg::Const(_))));
                for (ci, (s, nd)) in configs.iter().enumerate() {
                    let threads = if (idx + ci) % 5 == 0 { 4 } else { 1 };
                    // every atom the language produces carries a variable (at least its timestamp
                    // column), so variable-free atoms are reachable through the API only
                    let in_scope = !varfree
                        && match s {
                            Strat::Gj => true,
                            Strat::MinCover => case.atoms.len() <= 2,
                            Strat::PureSize => false,
                        };
                    if let Some(v) = api_case(case, *s, *nd, threads, &want, st, w, &mut seen_plans, ci == idx % configs.len()) {
                        if in_scope {
                            viols.push(v);
                        } else {
                            api_only_count += 1;
                            if api_only.len() < 5 {
                                api_only.push(json!({"what": v.what, "input": v.input}));
                            }
                        }
                    }
                }
            }
        }
    };

    let run_text_case = |tc: &TextCase, no_decomp: bool, st: &mut Stats, viols: &mut Vec<Viol>| {
        let mut budget = 2_000_000u64;
        let Some(want) = text_reference(tc, &mut budget) else {
            st.skipped_budget += 1;
            return;
        };
        st.text_runs += 1;
        let program = format!("{}{}{}\n(run 1)\n", tc.text_decl, tc.text_facts, tc.rule);
        let input = json!({"path": "text", "program": program, "expected_out": want.iter().collect::<Vec<_>>()});
        let key = format!("c02-text-{}", if no_decomp { "nodecomp" } else { "decomp" });
        match run_text(tc) {
            Err(e) => {
                // a rejected program is not an observation about matching; a panic is
                if e.contains("PANIC") || e.contains("panic") {
                    viols.push(Viol { what: format!("engine panicked on an egglog rule run: {}", e.chars().take(200).collect::<String>()), key: format!("{key}-panic"), input });
                } else {
                    bump(&mut st.text_plan_kind_hist, "rejected-program");
                }
            }
            Ok((rows, plans)) => {
                for pj in &plans {
                    if let Ok(p) = serde_json::from_str::<J>(pj) {
                        bump(&mut st.text_plan_kind_hist, &format!("{}:{} bags", p["kind"].as_str().unwrap_or("?"), p["bags"]));
                        plan_stage_kinds(&p, &mut st.text_stage_kind_hist);
                    }
                }
                if rows != want {
                    let extra: Vec<&Vec<i64>> = rows.difference(&want).take(3).collect();
                    let missing: Vec<&Vec<i64>> = want.difference(&rows).take(3).collect();
                    viols.push(Viol {
                        what: format!(
                            "egglog rule fired for a set of substitutions different from the matches of its body: Out has {} rows, nested-loop matcher {} rows; fired-but-no-match e.g. {:?}; match-but-not-fired e.g. {:?}",
                            rows.len(),
                            want.len(),
                            extra,
                            missing
                        ),
                        key,
                        input,
                    });
                }
            }
        }
    };

    let replay_one = |j: &J, st: &mut Stats, w: &mut CaseWriter, viols: &mut Vec<Viol>, api_full: &mut dyn FnMut(&Case, usize, &mut Stats, &mut CaseWriter, &mut Vec<Viol>, Option<(Strat, bool, usize)>)| {
        let inp = if j.get("violation").is_some() { &j["violation"]["input"] } else if j.get("input").is_some() { &j["input"] } else { j };
        if inp["path"] == "api-multi" {
            let cases: Vec<Case> = inp["cases"].as_array().unwrap().iter().map(Case::from_json).collect();
            let only = inp["strategy"].as_str().map(|s| (Strat::from(s), inp["no_decomp"].as_bool().unwrap_or(false), inp["threads"].as_u64().unwrap_or(1) as usize));
            let mut seen = HashSet::new();
            let mut cnt = 0usize;
            multi_api(&cases, 0, st, w, viols, &mut seen, &mut cnt, only);
        } else if inp["path"] == "text-multi" {
            let program = inp["program"].as_str().unwrap_or("").to_string();
            let expected: Vec<BTreeSet<Vec<i64>>> = inp["expected"]
                .as_array()
                .map(|a| a.iter().map(|t| t.as_array().unwrap().iter().map(|r| r.as_array().unwrap().iter().map(|v| v.as_i64().unwrap()).collect()).collect()).collect())
                .unwrap_or_default();
            text_multi_check(&program, &expected, "c02-text-multi-replay", st, viols);
        } else if inp["path"] == "text" {
            // replay of a text case: run the program and compare with the recorded expectation
            let program = inp["program"].as_str().unwrap_or("").to_string();
            let want: BTreeSet<Vec<i64>> = inp["expected_out"]
                .as_array()
                .map(|a| a.iter().map(|r| r.as_array().unwrap().iter().map(|v| v.as_i64().unwrap()).collect()).collect())
                .unwrap_or_default();
            let mut eg = egglog::EGraph::default();
            let (res, _) = verif_harness::egg::step(&mut eg, &program);
            st.text_runs += 1;
            let mut rows = BTreeSet::new();
            if res.is_ok() {
                let _ = eg.constructor_enodes("Out", |e| {
                    rows.insert(e.children.iter().map(|v| eg.value_to_base::<i64>(*v)).collect::<Vec<i64>>());
                });
            }
            if res.is_err() || rows != want {
                viols.push(Viol { what: format!("replayed egglog program: Out has {} rows, expected {}", rows.len(), want.len()), key: "c02-text-replay".into(), input: inp.clone() });
            }
        } else {
            let case = Case::from_json(&inp["case"]);
            let only = inp["strategy"].as_str().map(|s| (Strat::from(s), inp["no_decomp"].as_bool().unwrap_or(false), inp["threads"].as_u64().unwrap_or(1) as usize));
            api_full(&case, 0, st, w, viols, only);
        }
    };

    if let Some(path) = &o.replay {
        let txt = std::fs::read_to_string(path).expect("replay file");
        let j: J = serde_json::from_str(&txt).expect("json");
        replay_one(&j, &mut st, &mut w, &mut viols, &mut api_full);
    } else {
        // corpus first
        if let Ok(rd) = std::fs::read_dir("/verif/corpus/C02") {
            let mut files: Vec<_> = rd.flatten().map(|e| e.path()).filter(|p| p.extension().map(|e| e == "json").unwrap_or(false)).collect();
            files.sort();
            for f in files {
                if let Ok(txt) = std::fs::read_to_string(&f) {
                    if let Ok(j) = serde_json::from_str::<J>(&txt) {
                        replay_one(&j, &mut st, &mut w, &mut viols, &mut api_full);
                    }
                }
            }
        }
        // API-only probe (not reachable from the language, where every atom carries a variable):
        // an atom whose arguments are all constants, with a constraint that is not index-backed
        // ("slow"), is visited by no stage, so the constraint is never evaluated.
        {
            let probe = Case {
                tables: vec![TableD { arity: 1, n_keys: 1, sorted: false, rows: vec![vec![0], vec![5]] }],
                atoms: vec![
                    AtomD { table: 0, args: vec![Arg::Const(0)], cs: vec![Cs::GtConst(0, 1)] },
                    AtomD { table: 0, args: vec![Arg::Var(0)], cs: vec![] },
                ],
                nvars: 1,
                out: vec![0],
                shape: "probe".into(),
                dist: "probe".into(),
            };
            let mut b = 1000u64;
            let want = reference(&probe, &mut b).unwrap();
            if let Ok(got) = run_engine(&probe, Strat::Gj, true, 1) {
                if got.rows != want {
                    api_only_probe = json!({"what": "variable-free atom with a slow constraint: the constraint is never evaluated (API-only; plan_ok rejects such plans)", "input": probe.json(), "engine_rows": got.rows.iter().collect::<Vec<_>>(), "matches": want.iter().collect::<Vec<_>>()});
                }
            }
        }
        // second API-only probe: tree decomposition puts an atom without variables in no bag, so
        // its header (here: the literal 0, absent from the table) is never applied
        {
            let at = |g: Arg| AtomD { table: 0, args: vec![g], cs: vec![] };
            let probe = Case {
                tables: vec![TableD { arity: 1, n_keys: 1, sorted: false, rows: vec![vec![1], vec![2]] }],
                atoms: vec![at(Arg::Var(0)), at(Arg::Const(0)), at(Arg::Var(0)), at(Arg::Const(0)), at(Arg::Var(1))],
                nvars: 2,
                out: vec![1],
                shape: "probe".into(),
                dist: "probe".into(),
            };
            let mut b = 1000u64;
            let want = reference(&probe, &mut b).unwrap();
            if let Ok(got) = run_engine(&probe, Strat::Gj, false, 1) {
                if got.rows != want {
                    api_only_probe2 = json!({"what": "variable-free atom dropped by tree decomposition (it belongs to no bag, its header is never applied); with no_decomp the same rule does not fire (API-only)", "input": probe.json(), "engine_rows": got.rows.iter().collect::<Vec<_>>(), "matches": want.iter().collect::<Vec<_>>()});
                }
            }
        }
        let n_api = if o.thorough { 2400 } else { 384 };
        for i in 0..n_api {
            let mut r = Rng::for_case(o.seed, i as u64);
            // cycle through shapes x distributions so every combination is hit
            let shape = SHAPES[i % SHAPES.len()];
            let dist = DISTS[(i / SHAPES.len()) % DISTS.len()];
            let case = gen_case(&mut r, Some(shape), Some(dist));
            api_full(&case, i, &mut st, &mut w, &mut viols, None);
        }
        let n_text = if o.thorough { 900 } else { 90 };
        for i in 0..n_text {
            let mut r = Rng::for_case(o.seed ^ 0x7e47, i as u64);
            let no_decomp = i % 2 == 1;
            let tc = gen_text_case(&mut r, no_decomp);
            run_text_case(&tc, no_decomp, &mut st, &mut viols);
        }
    }
    drop(api_full);
    if o.replay.is_none() {
        // multi-rule rule sets over shared tables with heavy join groups (API and egglog text)
        let n_multi = if o.thorough { 700 } else { 90 };
        let mut seen_multi: HashSet<String> = HashSet::new();
        for i in 0..n_multi {
            let mut r = Rng::for_case(o.seed ^ 0x3a17, i as u64);
            let cases = gen_multi(&mut r);
            multi_api(&cases, i, &mut st, &mut w, &mut viols, &mut seen_multi, &mut api_only_count, None);
            if i % 2 == 0 {
                multi_text_run(&cases, (i / 2) % 2 == 1, i % 4 == 0, &mut st, &mut viols);
            }
        }
    }
    if o.replay.is_none() {
        // boundary-value data (API: Gj decomp/no-decomp + free-join observations; text: plain and
        // with a second, semi-naive run over late-arriving rows)
        let n_b = if o.thorough { 500 } else { 70 };
        let mut seen_b: HashSet<String> = HashSet::new();
        for i in 0..n_b {
            let mut r = Rng::for_case(o.seed ^ 0xb0d1, i as u64);
            let cases = gen_boundary(&mut r);
            st.boundary_rule_sets += 1;
            bump(&mut st.boundary_max_hist, &cases[0].dist);
            multi_api(&cases, i, &mut st, &mut w, &mut viols, &mut seen_b, &mut api_only_count, None);
            multi_text_run(&cases, i % 2 == 1, i % 3 != 0, &mut st, &mut viols);
        }
    }
    w.flush();
    {
        let mut wd = CaseWriter::new(&o.out, "cases_dplans", header, "check_dcase", 60);
        for c in DCASES.lock().unwrap().drain(..) {
            wd.push(c);
        }
        wd.flush();
    }

    let hist = |h: &BTreeMap<String, usize>| serde_json::to_value(h).unwrap();
    let report = json!({
        "sub": "plans",
        "cases": w.total,
        "shards": w.shards,
        "distinct_nontrivial": nontrivial + st.multi_nontrivial,
        "rule": "[boundary-value stream: 1-3 rules over tables whose join column has its maximum exactly at 255/256/257/65535/65536/65537/2^24-1/2^24/2^24+1/2^31/2^32-2, blocks of 64-300 rows per tag in non-sorted order, constant-narrowed / timestamp-narrowed / whole-table atoms probed by small tables; API and egglog text, text also with a second semi-naive run over late rows] [multi-rule stream: rule sets of 2-4 rules (1-2 atoms each over one shared heavy table on the same column with different repeated-variable patterns / different slow bounds, joined with small tables) run by ONE run_rule_set / one (run 1), join groups of 17-48 rows, every rule's output compared with the nested-loop matcher, API + egglog text] conjunctive queries generated per (shape x data distribution) over 1-4 relations of arity 1-4 (all-key, functional and sorted tables), run on the real engine under 6 configurations (Gj/MinCover/PureSize x decomposition on/off, some under a 4-thread pool) and through egglog text; output table compared with a naive nested-loop matcher; a case is non-trivial iff it has >= 2 atoms and a non-empty match set (a multi-rule rule set: iff >= 2 of its rules have matches); distinct by (query, database); kernel cases = dumped single-bag plans (plan_ok), a sample with the database and the engine's rows (spec matcher and stage machine must reproduce them)",
        "samples": samples,
        "violations": viols.iter().take(20).map(|v| json!({"what": v.what, "key": v.key, "input": v.input})).collect::<Vec<_>>(),
        "shape_hist": hist(&st.shape_hist),
        "dist_hist": hist(&st.dist_hist),
        "natoms_hist": hist(&st.natoms_hist),
        "config_hist": hist(&st.config_hist),
        "feature_hist": hist(&st.feature_hist),
        "result_size_hist": hist(&st.result_size_hist),
        "plan_kind_hist": hist(&st.plan_kind_hist),
        "bags_hist": hist(&st.bags_hist),
        "stage_kind_hist": hist(&st.stage_kind_hist),
        "text_plan_kind_hist": hist(&st.text_plan_kind_hist),
        "text_stage_kind_hist": hist(&st.text_stage_kind_hist),
        "extra_coverage": {
            "engine_runs_api": st.engine_runs,
            "engine_runs_text": st.text_runs,
            "plans_certified_by_plan_ok": st.plans_certified,
            "decomposed_plans_certified_by_dplan_ok": st.dplans_certified,
            "decomposed_plans_with_exec_check": st.dplans_exec,
            "decomposed_certified_bags_hist": hist(&st.dplan_bags_hist),
            "plans_with_exec_check": st.exec_cases,
            "plans_uncertified_link_only": st.plans_uncertified,
            "uncertified_breakdown": hist(&st.uncertified_why),
            "cases_skipped_reference_budget": st.skipped_budget,
            "plans_with_3plus_stages_on_tables_over_32_rows": st.resort_candidates,
            "multi_rule_rule_sets": st.multi_rule_sets,
            "boundary_value_rule_sets": st.boundary_rule_sets,
            "boundary_value_column_max_hist": hist(&st.boundary_max_hist),
            "plans_not_written_as_kernel_cases_large_literals": st.plans_large_literals,
            "multi_rule_rules": st.multi_rules,
            "multi_rule_heavy_group_hist": hist(&st.multi_heavy_groups_hist),
            "api_only_config_disagreements": api_only_count,
            "api_only_config_samples": api_only,
            "api_only_probe_varfree_atom_slow_constraint": api_only_probe,
            "api_only_probe_varfree_atom_dropped_by_decomposition": api_only_probe2,
        },
    });
    std::fs::write(o.out.join("impl_report.json"), serde_json::to_string(&report).unwrap()).unwrap();
    0
}
