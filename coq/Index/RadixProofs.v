(** Correctness of the LSB radix sort at the bucket level (stable distribution passes):
    after k passes the block is ordered by (value mod 2^(8k), row id); [radix_passes_for max]
    passes cover every value <= max, hence the block is ordered by (value, row id). *)
From Coq Require Import List NArith Bool Lia Sorted Permutation.
Import ListNotations.
Require Import Verif.Base.Res Verif.Index.Prelude Verif.gen.PureFns Verif.Index.RadixModel Verif.Index.SortFacts.
Local Open Scope N_scope.

(* ---- the pass count regenerated from the source ---------------------------------------------- *)

(** THE obligation on [radix_passes_for]: enough 8-bit passes to cover every value up to [max] *)
Lemma radix_passes_for_covers max : max < 2 ^ 32 -> max < 2 ^ (radix_passes_for max * 8).
Proof.
  intros H. unfold radix_passes_for.
  repeat match goal with |- context [if ?c then _ else _] => destruct c eqn:? end;
  repeat match goal with
  | H : (_ <? _) = true |- _ => apply N.ltb_lt in H
  | H : (_ <? _) = false |- _ => apply N.ltb_ge in H
  | H : (_ <=? _) = true |- _ => apply N.leb_le in H
  | H : (_ <=? _) = false |- _ => apply N.leb_gt in H
  end;
  cbn in *; lia.
Qed.

(** ... and never more than the four bytes of a [u32] (the shift [pass * 8] stays below 32) *)
Lemma radix_passes_for_le4 max : radix_passes_for max <= 4.
Proof.
  unfold radix_passes_for.
  repeat match goal with |- context [if ?c then _ else _] => destruct c end; lia.
Qed.

Lemma radix_passes_for_ok max : max < 2 ^ 32 ->
  max < 2 ^ (radix_passes_for max * 8) /\ radix_passes_for max <= 4.
Proof. intros H. split; [apply radix_passes_for_covers; exact H | apply radix_passes_for_le4]. Qed.

(* ---- digits ---------------------------------------------------------------------------------- *)

Lemma digit_spec k v : digit k v = (v / 2 ^ (k * 8)) mod 256.
Proof.
  unfold digit. rewrite N.shiftr_div_pow2. change 255 with (N.ones 8). rewrite N.land_ones. reflexivity.
Qed.

Lemma digit_lt k v : digit k v < 256.
Proof. rewrite digit_spec. apply N.mod_lt. lia. Qed.

Lemma pow2_pos n : 0 < 2 ^ n.
Proof. apply N.neq_0_lt_0, N.pow_nonzero. lia. Qed.

Lemma mod_step k v : v mod 2 ^ ((k + 1) * 8) = digit k v * 2 ^ (k * 8) + v mod 2 ^ (k * 8).
Proof.
  rewrite digit_spec. replace ((k + 1) * 8) with (k * 8 + 8) by lia. rewrite N.pow_add_r.
  change (2 ^ 8) with 256. pose proof (pow2_pos (k * 8)).
  rewrite N.mod_mul_r by lia. lia.
Qed.

Lemma digit_in k v : In (digit k v) digits256.
Proof. apply in_map_seq_N. pose proof (digit_lt k v). lia. Qed.

Lemma digits256_sorted : StronglySorted N.lt digits256.
Proof. apply SS_lt_map_seq. Qed.

(* ---- one pass ---------------------------------------------------------------------------------- *)

(** order by (value mod M, row id) *)
Definition key_le (M : N) (a b : vr) : Prop :=
  fst a mod M < fst b mod M \/ (fst a mod M = fst b mod M /\ snd a <= snd b).

Lemma bucket_pass_eq k l :
  bucket_pass k l = flat_map (fun d => filter (fun p => digit k (fst p) =? d) l) digits256.
Proof.
  unfold bucket_pass. apply flat_map_ext. intros d.
  apply (tagged_filter (fun p => digit k (fst p))).
Qed.

Lemma bucket_pass_perm k l : Permutation l (bucket_pass k l).
Proof.
  rewrite bucket_pass_eq. apply (buckets_perm_all (fun p => digit k (fst p))).
  - apply NoDup_of_SS_lt, digits256_sorted.
  - intros a _. apply digit_in.
Qed.

Lemma bucket_pass_step k l :
  StronglySorted (key_le (2 ^ (k * 8))) l -> StronglySorted (key_le (2 ^ ((k + 1) * 8))) (bucket_pass k l).
Proof.
  intros H. rewrite bucket_pass_eq. apply SS_flat_map with (Rd := N.lt).
  - apply digits256_sorted.
  - intros d _. eapply SS_impl_in; [apply SS_filter; exact H|].
    intros a b Ha Hb Hab. apply filter_In in Ha, Hb. destruct Ha as [_ Ha], Hb as [_ Hb].
    apply N.eqb_eq in Ha, Hb. unfold key_le in *. rewrite !mod_step, Ha, Hb. lia.
  - intros d1 d2 a b Hlt Ha Hb. apply filter_In in Ha, Hb. destruct Ha as [_ Ha], Hb as [_ Hb].
    apply N.eqb_eq in Ha, Hb. left. rewrite !mod_step, Ha, Hb.
    pose proof (pow2_pos (k * 8)) as HM.
    assert (fst a mod 2 ^ (k * 8) < 2 ^ (k * 8)) by (apply N.mod_lt; lia).
    assert ((d1 + 1) * 2 ^ (k * 8) <= d2 * 2 ^ (k * 8)) by (apply N.mul_le_mono_r; lia).
    set (M := 2 ^ (k * 8)) in *. set (x := fst a mod M) in *. set (y := fst b mod M) in *.
    clearbody x y M. lia.
Qed.

Lemma bucket_passes_spec p : forall k l,
  StronglySorted (key_le (2 ^ (k * 8))) l ->
  StronglySorted (key_le (2 ^ ((k + N.of_nat p) * 8))) (bucket_passes p k l) /\ Permutation l (bucket_passes p k l).
Proof.
  induction p as [|p IH]; intros k l H.
  - simpl. replace (k + 0) with k by lia. split; auto.
  - cbn [bucket_passes]. destruct (IH (k + 1) (bucket_pass k l) (bucket_pass_step k l H)) as [I1 I2].
    replace (k + N.of_nat (S p)) with (k + 1 + N.of_nat p) by lia. split; auto.
    eapply Permutation_trans; [apply bucket_pass_perm | exact I2].
Qed.

(* ---- the assumption of the source comment: the block arrives in RowId-ascending order ----------- *)

Definition rowids_ascending (l : list vr) : Prop := StronglySorted (fun a b : vr => snd a <= snd b) l.

Lemma key_le_1 l : rowids_ascending l -> StronglySorted (key_le (2 ^ (0 * 8))) l.
Proof.
  intros H. eapply SS_impl_in; [exact H|]. intros a b _ _ Hab. right.
  change (2 ^ (0 * 8)) with 1. rewrite !N.mod_1_r. auto.
Qed.

Lemma key_le_full M l :
  Forall (fun p => fst p < M) l -> StronglySorted (key_le M) l -> StronglySorted vr_le l.
Proof.
  intros HF H. eapply SS_impl_in; [exact H|]. intros a b Ha Hb Hab.
  eapply Forall_forall in Ha; [|exact HF]. eapply Forall_forall in Hb; [|exact HF].
  unfold key_le in Hab. rewrite !N.mod_small in Hab by assumption. exact Hab.
Qed.

(** k stable passes order the block by (value mod 2^(8k), row id); with all values below
    2^(8k) that is the order by (value, row id) *)
Theorem bucket_passes_sort p l :
  rowids_ascending l -> Forall (fun q => fst q < 2 ^ (N.of_nat p * 8)) l ->
  StronglySorted vr_le (bucket_passes p 0 l) /\ Permutation l (bucket_passes p 0 l).
Proof.
  intros Hr HF. destruct (bucket_passes_spec p 0 l (key_le_1 l Hr)) as [H1 H2]. split; auto.
  eapply key_le_full; [|exact H1]. simpl in *.
  eapply Permutation_Forall; [exact H2 | exact HF].
Qed.

Theorem bucket_passes_for_max_sort max l :
  max < 2 ^ 32 -> Forall (fun q => fst q <= max) l -> rowids_ascending l ->
  StronglySorted vr_le (bucket_passes (N.to_nat (radix_passes_for max)) 0 l) /\
  Permutation l (bucket_passes (N.to_nat (radix_passes_for max)) 0 l).
Proof.
  intros Hm HF Hr. apply bucket_passes_sort; auto.
  rewrite N2Nat.id. pose proof (radix_passes_for_covers max Hm).
  eapply Forall_impl; [|exact HF]. simpl. intros; lia.
Qed.

(* ---- the comparison sort of the small case ------------------------------------------------------- *)

Lemma lex_insert_perm x l : Permutation (x :: l) (lex_insert x l).
Proof.
  induction l as [|y l IH]; simpl; auto.
  destruct (vr_leb x y); auto.
  eapply Permutation_trans; [apply perm_swap|]. constructor. exact IH.
Qed.

Lemma lex_insert_sorted x l : StronglySorted vr_le l -> StronglySorted vr_le (lex_insert x l).
Proof.
  induction 1 as [|y l Hs IH Hf]; simpl.
  - constructor; constructor.
  - destruct (vr_leb x y) eqn:E.
    + apply vr_leb_spec in E. constructor; [constructor; auto|].
      constructor; auto. eapply Forall_impl; [|exact Hf]. intros z Hz. eapply vr_le_trans; eauto.
    + apply vr_leb_false, vr_lt_le in E. constructor; auto.
      eapply Permutation_Forall; [apply lex_insert_perm|]. constructor; auto.
Qed.

Lemma lex_sort_perm l : Permutation l (lex_sort l).
Proof.
  induction l as [|x l IH]; simpl; auto.
  eapply Permutation_trans; [|apply lex_insert_perm]. constructor. exact IH.
Qed.

Lemma lex_sort_sorted l : StronglySorted vr_le (lex_sort l).
Proof. induction l; simpl; [constructor | apply lex_insert_sorted; auto]. Qed.

(** whatever correct sort [sort_unstable] is, it returns [lex_sort] *)
Lemma any_sort_is_lex_sort (f : list vr -> list vr) :
  (forall l, StronglySorted vr_le (f l) /\ Permutation l (f l)) -> forall l, f l = lex_sort l.
Proof.
  intros H l. destruct (H l) as [H1 H2]. apply sorted_perm_unique; auto using lex_sort_sorted.
  eapply Permutation_trans; [apply Permutation_sym; exact H2 | apply lex_sort_perm].
Qed.

(* ---- the scan at the top ----------------------------------------------------------------------------- *)

Lemma vals_sorted_from_spec l : forall prev, vals_sorted_from prev l = true ->
  Forall (fun p : vr => prev <= fst p) l /\ StronglySorted (fun a b : vr => fst a <= fst b) l.
Proof.
  induction l as [|x l IH]; intros prev H; simpl in H.
  - split; constructor.
  - apply andb_true_iff in H. destruct H as [H1 H2]. apply N.leb_le in H1.
    destruct (IH _ H2) as [I1 I2]. split.
    + constructor; auto. eapply Forall_impl; [|exact I1]. simpl; intros; lia.
    + constructor; auto.
Qed.

Lemma already_sorted l :
  vals_sorted_from 0 l = true -> rowids_ascending l -> StronglySorted vr_le l.
Proof.
  intros H Hr. destruct (vals_sorted_from_spec l 0 H) as [_ Hv].
  apply (SS_of_nth _ _ (0, 0)). intros i j Hij Hj.
  pose proof (SS_nth _ _ (0, 0) Hv i j Hij Hj) as V.
  pose proof (SS_nth _ _ (0, 0) Hr i j Hij Hj) as W. simpl in V, W.
  unfold vr_le. lia.
Qed.

Lemma max_val_ge (l : list vr) : forall m, m <= fold_left (fun m (p : vr) => N.max m (fst p)) l m /\
  Forall (fun q => fst q <= fold_left (fun m (p : vr) => N.max m (fst p)) l m) l.
Proof.
  induction l as [|x l IH]; intros m; simpl.
  - split; [lia | constructor].
  - destruct (IH (N.max m (fst x))) as [I1 I2]. split; [lia|]. constructor; auto. lia.
Qed.

Lemma max_val_bound (l : list vr) B : Forall (fun q => fst q <= B) l -> forall m, m <= B ->
  fold_left (fun m (p : vr) => N.max m (fst p)) l m <= B.
Proof.
  induction 1 as [|x l Hx Hl IH]; intros m Hm; simpl; auto. apply IH. lia.
Qed.

(* ---- the whole function, bucket level ------------------------------------------------------------------ *)

Theorem radix_sort_buckets_correct l :
  Forall (fun q => fst q < 2 ^ 32) l -> rowids_ascending l ->
  StronglySorted vr_le (radix_sort_buckets l) /\ Permutation l (radix_sort_buckets l).
Proof.
  intros HF Hr. unfold radix_sort_buckets, radix_sort_buckets_with.
  destruct (ulen_vr l <? 64).
  - split; [apply lex_sort_sorted | apply lex_sort_perm].
  - destruct (vals_sorted_from 0 l) eqn:E.
    + split; [apply already_sorted; auto | apply Permutation_refl].
    + apply bucket_passes_for_max_sort; auto.
      * apply N.le_lt_trans with (2 ^ 32 - 1); [|cbn; lia].
        apply max_val_bound; [|cbn; lia]. eapply Forall_impl; [|exact HF]. cbn. intros; lia.
      * apply max_val_ge.
Qed.

(** non-vacuity of the pass bound: with 3 passes a block whose largest value is 2^24 is NOT sorted
    (this is what the boundary [max < 2^24] of [radix_passes_for] protects against) *)
Definition witness_2pow24 : list vr :=
  (16777216, 0) :: map (fun i => (N.of_nat (100 - i), N.of_nat (S i))) (seq 0 70).

Fixpoint vr_sortedb (l : list vr) : bool :=
  match l with
  | a :: ((b :: _) as tl) => vr_leb a b && vr_sortedb tl
  | _ => true
  end.

Lemma vr_sortedb_complete l : StronglySorted vr_le l -> vr_sortedb l = true.
Proof.
  induction 1 as [|x l Hs IH Hf]; auto.
  destruct l as [|y l]; auto. cbn [vr_sortedb]. apply andb_true_iff. split; auto.
  apply vr_leb_spec. inversion Hf; auto.
Qed.

Lemma vr_sortedb_sound l : vr_sortedb l = true -> StronglySorted vr_le l.
Proof.
  induction l as [|x l IH]; intros H; [constructor|].
  destruct l as [|y l]; [constructor; constructor|].
  cbn [vr_sortedb] in H. apply andb_true_iff in H. destruct H as [H1 H2].
  apply vr_leb_spec in H1. specialize (IH H2). constructor; auto.
  constructor; auto. inversion IH; subst. eapply Forall_impl; [|eassumption].
  intros z Hz. eapply vr_le_trans; eauto.
Qed.

Lemma rowids_ascendingb_sound l :
  (fix asc (l : list vr) := match l with a :: ((b :: _) as tl) => (snd a <=? snd b) && asc tl | _ => true end) l = true ->
  rowids_ascending l.
Proof.
  induction l as [|x l IH]; intros H; [constructor|].
  destruct l as [|y l]; [constructor; constructor|].
  apply andb_true_iff in H. destruct H as [H1 H2]. apply N.leb_le in H1. specialize (IH H2).
  constructor; auto. constructor; auto. inversion IH; subst. eapply Forall_impl; [|eassumption].
  simpl. intros; lia.
Qed.

Theorem three_passes_do_not_sort_2pow24 :
  exists max l, max = 2 ^ 24 /\ Forall (fun q => fst q <= max) l /\ rowids_ascending l /\
    (64 <= length l)%nat /\ vals_sorted_from 0 l = false /\
    ~ StronglySorted vr_le (radix_sort_buckets_with (fun _ => 3) l).
Proof.
  exists 16777216, witness_2pow24. split; [reflexivity|]. split; [|split; [|split; [|split]]].
  - apply Forall_forall. intros q Hq. unfold witness_2pow24 in Hq. destruct Hq as [<-|Hq]; [cbn; lia|].
    apply in_map_iff in Hq. destruct Hq as (i & <- & Hi). apply in_seq in Hi. cbn [fst]. lia.
  - apply rowids_ascendingb_sound. vm_compute. reflexivity.
  - vm_compute. lia.
  - vm_compute. reflexivity.
  - intros H. apply vr_sortedb_complete in H. vm_compute in H. discriminate.
Qed.
