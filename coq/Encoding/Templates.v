(** C11: the maintenance rules of egglog's term encoding as Gallina DATA (functions of a
    constructor-only signature), the between-commands schedule, and the encoded session layer.
    Executable definitions only. Follows src/proofs/proof_encoding.rs ([declare_sort],
    [handle_congruence], [rebuilding_rules], [delete_and_subsume], [rebuild], [add_term_and_view],
    [union]) and the snapshot src/proofs/snapshots/*doc_example_add_function1.snap.

    A signature is one eq-sort [S] and a list of constructors into [S]; every constructor is given
    by the kinds of its argument columns ([true] = the eq-sort, [false] = a base sort such as i64).

    Tables of the encoded program:
      [tUF]        (function __UF_S (S S) Unit :merge old)      key (child, parent)
      [tUFf]       (function __UF_Sf (S) S :merge new)           key (child) -> parent
      [tView f]    (function __fView (args.. S) Unit :merge old) key (children.., leader)
      [tDel f]     (constructor __to_delete_f (args..) __view)   key (children..)
    The term table [f] itself (hash-consing of terms on raw child ids, never deleted from) lives in
    the session state [eterms]: the maintenance rules never read or write it.
    Not modelled: [__to_subsume_f] and [__delete_rule_subsume] (needs a subsumed flag on rows);
    proof columns (term mode: every output is [()]). *)
From Coq Require Import List Arith ZArith Bool PeanoNat.
Import ListNotations.
Require Import Verif.Base.Res Verif.Base.Cases Verif.Egg.Model Verif.Encoding.Datalog.

Definition tUF : nat := 0.
Definition tUFf : nat := 1.
Definition tView (f : nat) : nat := 2 + 2 * f.
Definition tDel (f : nat) : nat := 3 + 2 * f.

Definition enc_merges : list dmerge := [DOld; DNew].   (* every other table: [:merge old] *)

(* ---------------------------------------------------------------- per-sort rules *)

(** (rule ((__UF_S a b) (__UF_S b c) (!= b c))
          ((delete (__UF_S a b)) (set (__UF_S a c) ())) :ruleset __parent) *)
Definition r_uf_update : rule :=
  mkRule [mkAtom tUF [0; 1; 10]; mkAtom tUF [1; 2; 11]]
         [GNeq (EVar 1) (EVar 2)]
         [ADel tUF [EVar 0; EVar 1]; ASet tUF [EVar 0; EVar 2] EUnit].

(** (rule ((__UF_S a b) (__UF_S a c) (!= b c) (= (ordering-max b c) b))
          ((delete (__UF_S a b)) (set (__UF_S b c) ())) :ruleset __single_parent) *)
Definition r_single_parent : rule :=
  mkRule [mkAtom tUF [0; 1; 10]; mkAtom tUF [0; 2; 11]]
         [GNeq (EVar 1) (EVar 2); GEq (EMax (EVar 1) (EVar 2)) (EVar 1)]
         [ADel tUF [EVar 0; EVar 1]; ASet tUF [EVar 1; EVar 2] EUnit].

(** (rule ((__UF_S a b)) ((set (__UF_Sf a) b)) :ruleset __uf_function_index) *)
Definition r_uf_index : rule :=
  mkRule [mkAtom tUF [0; 1; 10]] [] [ASet tUFf [EVar 0] (EVar 1)].

(* ---------------------------------------------------------------- per-constructor rules *)

(** (rule ((= __v (__fView c0.. new)) (= __v1 (__fView c0.. old)) (!= old new)
           (= (ordering-max old new) new))
          ((set (__UF_S (ordering-max new old) (ordering-min new old)) ())) :ruleset __rebuilding)
    children are variables 0..n-1, new = n, old = n+1 *)
Definition r_congruence (f n : nat) : rule :=
  mkRule [mkAtom (tView f) (seq 0 n ++ [n; 2 * n + 2]);
          mkAtom (tView f) (seq 0 n ++ [S n; 2 * n + 3])]
         [GNeq (EVar (S n)) (EVar n); GEq (EMax (EVar (S n)) (EVar n)) (EVar n)]
         [ASet tUF [EMax (EVar n) (EVar (S n)); EMin (EVar n) (EVar (S n))] EUnit].

(** (rule ((= __v2 (__fView c0.. cn)) (= ci_leader (__UF_Sf ci)).. (guard (or (bool-!= ci ci_leader)..)))
          ((set (__fView c0'.. cn') ()) (delete (__fView c0.. cn))) :ruleset __rebuilding)
    one lookup per eq-sort column (the output column n is always one); column i is variable i, its
    leader variable n+1+i *)
Definition lead (n i : nat) : nat := n + 1 + i.

Fixpoint eq_cols (cols : list bool) (i : nat) : list nat :=
  match cols with
  | [] => []
  | b :: tl => (if b then [i] else []) ++ eq_cols tl (S i)
  end.

Fixpoint new_cols (n : nat) (cols : list bool) (i : nat) : list expr :=
  match cols with
  | [] => []
  | b :: tl => (if b then EVar (lead n i) else EVar i) :: new_cols n tl (S i)
  end.

Definition r_rebuild (f : nat) (kinds : list bool) : rule :=
  let n := length kinds in
  let cols := kinds ++ [true] in
  let eqs := eq_cols cols 0 in
  mkRule (mkAtom (tView f) (seq 0 (S n) ++ [2 * n + 2])
            :: map (fun i => mkAtom tUFf [i; lead n i]) eqs)
         [GAnyNeq (map (fun i => (EVar i, EVar (lead n i))) eqs)]
         [ASet (tView f) (new_cols n cols 0) EUnit; ADel (tView f) (map EVar (seq 0 (S n)))].

(** (rule ((__to_delete_f c0..) (__fView c0.. out))
          ((delete (__fView c0.. out)) (delete (__to_delete_f c0..))) :ruleset __delete_subsume_ruleset) *)
Definition r_delete (f n : nat) : rule :=
  mkRule [mkAtom (tDel f) (seq 0 n ++ [2 * n + 2]); mkAtom (tView f) (seq 0 n ++ [n; 2 * n + 3])]
         []
         [ADel (tView f) (map EVar (seq 0 (S n))); ADel (tDel f) (map EVar (seq 0 n))].

(* ---------------------------------------------------------------- program and schedule *)

Definition sigT := list (list bool).

Fixpoint rebuilding_rules (sg : sigT) (f : nat) : list rule :=
  match sg with
  | [] => []
  | kinds :: tl => r_congruence f (length kinds) :: r_rebuild f kinds :: rebuilding_rules tl (S f)
  end.

Fixpoint delete_rules (sg : sigT) (f : nat) : list rule :=
  match sg with
  | [] => []
  | kinds :: tl => r_delete f (length kinds) :: delete_rules tl (S f)
  end.

Definition rsParent := 0.
Definition rsSingleParent := 1.
Definition rsIndex := 2.
Definition rsRebuilding := 3.
Definition rsCleanup := 4.
Definition rsDelete := 5.

Definition enc_prog (sg : sigT) : prog :=
  mkProg enc_merges
    [ [r_uf_update]; [r_single_parent]; [r_uf_index]; rebuilding_rules sg 0;
      [] (* __rebuilding_cleanup: only merge functions contribute rules *);
      delete_rules sg 0 ].

(** (run-schedule (seq (saturate (seq (run __rebuilding_cleanup) (saturate (run __single_parent))
       (saturate (run __parent)) (saturate (run __uf_function_index)) (run __rebuilding)))
       (run __delete_subsume_ruleset))) *)
Definition maint_inner : sched :=
  SSeq [SRun rsCleanup; SSat (SRun rsSingleParent); SSat (SRun rsParent); SSat (SRun rsIndex);
        SRun rsRebuilding].
Definition maint_sched : sched := SSeq [SSat maint_inner; SRun rsDelete].

(* ---------------------------------------------------------------- encoded sessions *)

Record estate := mkE { edb : db; eterms : list (nat * list val) }.

Definition einit (n : nat) : estate := mkE (repeat [] (2 + 2 * n)) [].

Definition dbset (d : db) (t : nat) (k : list val) (v : val) : db :=
  sett d t (fst (tset (mergeof enc_merges t) (gett d t) k v)).

Fixpoint find_term (ts : list (nat * list val)) (f : nat) (vs : list val) (i : nat) : option nat :=
  match ts with
  | [] => None
  | (g, ws) :: tl => if Nat.eqb g f && vals_eqb ws vs then Some i else find_term tl f vs (S i)
  end.

(** [add_term_and_view]: (let v (f args)) (set (__fView args v) ()) (set (__UF_S v v) ()) *)
Definition enc_add_node (s : estate) (f : nat) (vs : list val) : estate * val :=
  let '(id, ts') := match find_term (eterms s) f vs 0 with
                    | Some i => (i, eterms s)
                    | None => (length (eterms s), eterms s ++ [(f, vs)])
                    end in
  let d1 := dbset (edb s) (tView f) (vs ++ [VId id]) unitv in
  let d2 := dbset d1 tUF [VId id; VId id] unitv in
  (mkE d2 ts', VId id).

Fixpoint enc_add_term (s : estate) (t : term) : estate * val :=
  match t with
  | TI z => (s, VInt z)
  | T f ts =>
      let fix adds (s : estate) (l : list term) : estate * list val :=
        match l with
        | [] => (s, [])
        | x :: tl => let '(s1, v) := enc_add_term s x in
                     let '(s2, vs) := adds s1 tl in (s2, v :: vs)
        end in
      let '(s', vs) := adds s ts in enc_add_node s' f vs
  end.

Definition enc_maint (fuel : nat) (sg : sigT) (s : estate) : Res estate :=
  bind (run_sched fuel (enc_prog sg) maint_sched (edb s)) (fun '(d, _) => Ok (mkE d (eterms s))).

(** one source command = its instrumented actions followed by the maintenance schedule *)
Definition enc_exec (fuel : nat) (sg : sigT) (s : estate) (c : cmd) : Res estate :=
  match c with
  | CAdd t => enc_maint fuel sg (fst (enc_add_term s t))
  | CUnion t1 t2 =>
      let '(s1, v1) := enc_add_term s t1 in
      let '(s2, v2) := enc_add_term s1 t2 in
      match v1, v2 with
      | VId a, VId b =>
          enc_maint fuel sg
            (mkE (dbset (edb s2) tUF [VId (Nat.max a b); VId (Nat.min a b)] unitv) (eterms s2))
      | _, _ => enc_maint fuel sg s2
      end
  end.

Fixpoint enc_run (fuel : nat) (sg : sigT) (s : estate) (cs : list cmd) : Res estate :=
  match cs with
  | [] => Ok s
  | c :: tl => bind (enc_exec fuel sg s c) (fun s' => enc_run fuel sg s' tl)
  end.

(** evaluation of a ground term through the view tables (what an instrumented [check] does) *)
Definition view_lookup (t : dtable) (vs : list val) : option val :=
  match List.find (fun r => vals_eqb (removelast (dkey r)) vs) t with
  | Some r => Some (last (dkey r) unitv)
  | None => None
  end.

Fixpoint enc_eval (d : db) (t : term) : option val :=
  match t with
  | TI z => Some (VInt z)
  | T f ts =>
      let fix evals (l : list term) : option (list val) :=
        match l with
        | [] => Some []
        | x :: tl => match enc_eval d x, evals tl with
                     | Some v, Some vs => Some (v :: vs)
                     | _, _ => None
                     end
        end in
      match evals ts with
      | Some vs => view_lookup (gett d (tView f)) vs
      | None => None
      end
  end.

(* ---------------------------------------------------------------- well-sorted commands *)

(** what the typechecker accepts for a constructor-only signature: constructor applications whose
    eq-sort arguments are constructor applications and whose base arguments are literals *)
Fixpoint args_ty (rec : term -> bool) (ks : list bool) (l : list term) {struct l} : bool :=
  match l, ks with
  | [], [] => true
  | x :: l', true :: ks' => rec x && args_ty rec ks' l'
  | TI _ :: l', false :: ks' => args_ty rec ks' l'
  | _, _ => false
  end.

Fixpoint term_ty (sg : sigT) (t : term) : bool :=
  match t with
  | TI _ => false
  | T f ts =>
      match nth_error sg f with
      | Some kinds =>
          (fix go (ks : list bool) (l : list term) {struct l} : bool :=
             match l, ks with
             | [], [] => true
             | x :: l', true :: ks' => term_ty sg x && go ks' l'
             | TI _ :: l', false :: ks' => go ks' l'
             | _, _ => false
             end) kinds ts
      | None => false
      end
  end.

Definition cmd_ty (sg : sigT) (c : cmd) : bool :=
  match c with
  | CAdd t => term_ty sg t
  | CUnion a b => term_ty sg a && term_ty sg b
  end.

Definition cmds_ty (sg : sigT) (cs : list cmd) : bool := forallb (cmd_ty sg) cs.

(* ---------------------------------------------------------------- cases written by h_modes *)

Definition oval_eqb (a b : option val) : bool :=
  match a, b with
  | Some x, Some y => val_eqb x y
  | _, _ => false
  end.

Fixpoint first_idx (vals : list (option val)) (v : option val) (i : Z) : Z :=
  match vals with
  | [] => (-1)%Z
  | w :: tl => if oval_eqb w v then i else first_idx tl v (i + 1)%Z
  end.

(** renaming-invariant observation: for every probe, the index of the first probe in its class
    (-1 when the probe is not represented) *)
Definition classes (vals : list (option val)) : list Z :=
  map (fun v => match v with None => (-1)%Z | Some _ => first_idx vals v 0%Z end) vals.

Record mcase := mkCase {
  c_sig : sigT;
  c_cmds : list cmd;
  c_probes : list term;
  c_classes : list Z       (* observed on the real term-encoding engine *)
}.

Definition case_fuel (c : mcase) : nat := 64 + 16 * length (c_cmds c).

Definition enc_classes (c : mcase) : option (list Z) :=
  match enc_run (case_fuel c) (c_sig c) (einit (length (c_sig c))) (c_cmds c) with
  | Ok s => Some (classes (map (enc_eval (edb s)) (c_probes c)))
  | _ => None
  end.

Definition native_classes (c : mcase) : option (list Z) :=
  let n := length (c_sig c) in
  match run (repeat MUnionId n) (init n) (c_cmds c) with
  | Ok s => Some (classes (map (eval s) (c_probes c)))
  | _ => None
  end.

(** the session is well-sorted (the hypothesis of the session theorems), and the class vectors of
    the encoded model and of the native model both equal the one observed on the real engine *)
Definition check_case (c : mcase) : bool :=
  cmds_ty (c_sig c) (c_cmds c) &&
  match enc_classes c, native_classes c with
  | Some a, Some b => list_eqb Z.eqb a (c_classes c) && list_eqb Z.eqb b (c_classes c)
  | _, _ => false
  end.
