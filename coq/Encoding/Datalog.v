(** C11: a small executable Datalog-with-functions semantics, sufficient for the maintenance rules
    that egglog's term encoding (src/proofs/proof_encoding.rs) generates. Executable definitions
    only.

    - a table maps a key (list of values) to one value; on a key collision the value is resolved by
      the table's [:merge old] / [:merge new];
    - a rule is a conjunctive query over table atoms (variables only, repeated variables join),
      guards [(!= a b)], [(= e1 e2)], [(guard (or (bool-!= a b) ..))] over expressions with
      [ordering-max] / [ordering-min], and actions [set] / [delete];
    - running a ruleset: ALL matches of ALL its rules are computed against the current database,
      then the staged deletes are applied, then the staged sets (core-relations: pending removals
      are merged before pending rows); the step reports whether the database changed;
    - schedules: [run], [seq], [saturate] with fuel ([OutOfFuel] is a distinct result: theorems
      state [= Ok _]). *)
From Coq Require Import List Arith ZArith Bool PeanoNat.
Import ListNotations.
Require Import Verif.Base.Res Verif.Egg.Model.

Record drow := mkD { dkey : list val; dval : val }.
Definition dtable := list drow.
Inductive dmerge := DOld | DNew.
Definition db := list dtable.

Definition unitv : val := VInt 0.
Definition tuple (r : drow) : list val := dkey r ++ [dval r].
Definition gett (d : db) (t : nat) : dtable := nth t d [].

(* ---------------------------------------------------------------- expressions, environments *)

Inductive expr :=
| EVar (x : nat)
| EMax (a b : expr)      (* ordering-max *)
| EMin (a b : expr)      (* ordering-min *)
| EUnit.                 (* () *)

Definition env := list (nat * val).

Fixpoint lookup (e : env) (x : nat) : option val :=
  match e with
  | [] => None
  | (y, v) :: tl => if Nat.eqb y x then Some v else lookup tl x
  end.

(** the "arbitrary ordering on terms based on insertion order": e-class ids are allocated in
    increasing order, so the order is the order of ids *)
Definition vmax (a b : val) : option val :=
  match a, b with VId i, VId j => Some (VId (Nat.max i j)) | _, _ => None end.
Definition vmin (a b : val) : option val :=
  match a, b with VId i, VId j => Some (VId (Nat.min i j)) | _, _ => None end.

Fixpoint eval_expr (e : env) (x : expr) : option val :=
  match x with
  | EVar v => lookup e v
  | EUnit => Some unitv
  | EMax a b => match eval_expr e a, eval_expr e b with
                | Some va, Some vb => vmax va vb | _, _ => None end
  | EMin a b => match eval_expr e a, eval_expr e b with
                | Some va, Some vb => vmin va vb | _, _ => None end
  end.

Fixpoint eval_exprs (e : env) (l : list expr) : option (list val) :=
  match l with
  | [] => Some []
  | x :: tl => match eval_expr e x, eval_exprs e tl with
               | Some v, Some vs => Some (v :: vs) | _, _ => None end
  end.

(* ---------------------------------------------------------------- rules *)

Record atom := mkAtom { atab : nat; avars : list nat }.

Inductive guard :=
| GNeq (a b : expr)                      (* (!= a b) *)
| GEq (a b : expr)                       (* (= a b) *)
| GAnyNeq (l : list (expr * expr)).      (* (guard (or (bool-!= a b) ...)) *)

Inductive action :=
| ASet (t : nat) (key : list expr) (v : expr)
| ADel (t : nat) (key : list expr).

Record rule := mkRule { rbody : list atom; rguards : list guard; racts : list action }.

Inductive op :=
| OSet (t : nat) (key : list val) (v : val)
| ODel (t : nat) (key : list val).

(** match a tuple against the variables of an atom, extending the environment *)
Fixpoint match_vars (vars : list nat) (vals : list val) (e : env) : option env :=
  match vars, vals with
  | [], [] => Some e
  | x :: xs, v :: vs =>
      match lookup e x with
      | Some w => if val_eqb w v then match_vars xs vs e else None
      | None => match_vars xs vs ((x, v) :: e)
      end
  | _, _ => None
  end.

(** nested-loop join *)
Fixpoint match_body (d : db) (body : list atom) (e : env) : list env :=
  match body with
  | [] => [e]
  | a :: tl =>
      flat_map (fun r => match match_vars (avars a) (tuple r) e with
                         | Some e' => match_body d tl e'
                         | None => []
                         end) (gett d (atab a))
  end.

Fixpoint any_neq (e : env) (l : list (expr * expr)) : option bool :=
  match l with
  | [] => Some false
  | (a, b) :: tl =>
      match eval_expr e a, eval_expr e b, any_neq e tl with
      | Some x, Some y, Some r => Some (negb (val_eqb x y) || r)
      | _, _, _ => None
      end
  end.

Definition guard_ok (e : env) (g : guard) : option bool :=
  match g with
  | GNeq a b => match eval_expr e a, eval_expr e b with
                | Some x, Some y => Some (negb (val_eqb x y)) | _, _ => None end
  | GEq a b => match eval_expr e a, eval_expr e b with
               | Some x, Some y => Some (val_eqb x y) | _, _ => None end
  | GAnyNeq l => any_neq e l
  end.

Fixpoint guards_ok (e : env) (gs : list guard) : option bool :=
  match gs with
  | [] => Some true
  | g :: tl => match guard_ok e g, guards_ok e tl with
               | Some a, Some b => Some (a && b) | _, _ => None end
  end.

Definition inst_act (e : env) (a : action) : option op :=
  match a with
  | ASet t k v => match eval_exprs e k, eval_expr e v with
                  | Some ks, Some x => Some (OSet t ks x) | _, _ => None end
  | ADel t k => match eval_exprs e k with Some ks => Some (ODel t ks) | None => None end
  end.

Fixpoint inst_acts (e : env) (l : list action) : option (list op) :=
  match l with
  | [] => Some []
  | a :: tl => match inst_act e a, inst_acts e tl with
               | Some o, Some os => Some (o :: os) | _, _ => None end
  end.

(** the operations one match stages; an unbound variable / ill-sorted ordering-max is a [Panic] *)
Definition env_ops (r : rule) (e : env) : Res (list op) :=
  match guards_ok e (rguards r) with
  | None => Panic
  | Some false => Ok []
  | Some true => match inst_acts e (racts r) with Some os => Ok os | None => Panic end
  end.

Fixpoint collect {A B} (f : A -> Res (list B)) (l : list A) : Res (list B) :=
  match l with
  | [] => Ok []
  | a :: tl => bind (f a) (fun x => bind (collect f tl) (fun y => Ok (x ++ y)))
  end.

Definition rule_ops (d : db) (r : rule) : Res (list op) :=
  collect (env_ops r) (match_body d (rbody r) []).

Definition rules_ops (d : db) (rs : list rule) : Res (list op) := collect (rule_ops d) rs.

(* ---------------------------------------------------------------- applying staged operations *)

Fixpoint tdel (t : dtable) (k : list val) : dtable * bool :=
  match t with
  | [] => ([], false)
  | r :: tl => if vals_eqb (dkey r) k then (tl, true)
               else let '(tl', c) := tdel tl k in (r :: tl', c)
  end.

Fixpoint tset (m : dmerge) (t : dtable) (k : list val) (v : val) : dtable * bool :=
  match t with
  | [] => ([mkD k v], true)
  | r :: tl =>
      if vals_eqb (dkey r) k then
        match m with
        | DOld => (r :: tl, false)
        | DNew => (mkD k v :: tl, negb (val_eqb (dval r) v))
        end
      else let '(tl', c) := tset m tl k v in (r :: tl', c)
  end.

Fixpoint sett (d : db) (t : nat) (x : dtable) : db :=
  match d, t with
  | [], _ => []
  | _ :: tl, O => x :: tl
  | h :: tl, S t' => h :: sett tl t' x
  end.

Definition mergeof (ms : list dmerge) (t : nat) : dmerge := nth t ms DOld.

Fixpoint apply_dels (d : db) (ops : list op) : db * bool :=
  match ops with
  | [] => (d, false)
  | ODel t k :: tl =>
      let '(x, c) := tdel (gett d t) k in
      let '(d', c') := apply_dels (sett d t x) tl in (d', c || c')
  | OSet _ _ _ :: tl => apply_dels d tl
  end.

Fixpoint apply_sets (ms : list dmerge) (d : db) (ops : list op) : db * bool :=
  match ops with
  | [] => (d, false)
  | OSet t k v :: tl =>
      let '(x, c) := tset (mergeof ms t) (gett d t) k v in
      let '(d', c') := apply_sets ms (sett d t x) tl in (d', c || c')
  | ODel _ _ :: tl => apply_sets ms d tl
  end.

Definition apply_ops (ms : list dmerge) (d : db) (ops : list op) : db * bool :=
  let '(d1, c1) := apply_dels d ops in
  let '(d2, c2) := apply_sets ms d1 ops in (d2, c1 || c2).

(** one iteration of a ruleset *)
Definition run_ruleset (ms : list dmerge) (rs : list rule) (d : db) : Res (db * bool) :=
  bind (rules_ops d rs) (fun ops => Ok (apply_ops ms d ops)).

(* ---------------------------------------------------------------- schedules *)

Inductive sched :=
| SRun (rs : nat)
| SSeq (l : list sched)
| SSat (s : sched).

Record prog := mkProg { pmerges : list dmerge; prulesets : list (list rule) }.

Fixpoint run_sched (fuel : nat) (P : prog) (s : sched) (d : db) {struct fuel} : Res (db * bool) :=
  match fuel with
  | O => OutOfFuel
  | S fuel =>
      match s with
      | SRun rs => run_ruleset (pmerges P) (nth rs (prulesets P) []) d
      | SSeq l =>
          (fix go (l : list sched) (d : db) : Res (db * bool) :=
             match l with
             | [] => Ok (d, false)
             | x :: tl =>
                 bind (run_sched fuel P x d) (fun '(d1, c1) =>
                 bind (go tl d1) (fun '(d2, c2) => Ok (d2, c1 || c2)))
             end) l d
      | SSat b =>
          bind (run_sched fuel P b d) (fun '(d1, c) =>
          if c then bind (run_sched fuel P (SSat b) d1) (fun '(d2, _) => Ok (d2, true))
          else Ok (d1, false))
      end
  end.
