"""C17C = the CONCURRENT half of C17, runnable on its own (`bin/check C17C`).

Delivered by the C19 agent for the lead to wire into C17's check: add to C17.py
  "model_targets": [..., "UF/ConcModel.vo"], "proof_targets": [..., "Props/C17c.vo"],
  "harness": [..., {"bin": "h_conc", "name": "h_conc_uf", "sub": "conc-uf", "extra": ["--only", "uf"],
                    "prefix": "cases_ufc", "timeout": 900}]
coq/Props/C17C.v is a symlink to C17c.v (bin/check upper-cases the property id)."""

CFG = {
        "tier_a": ["UFSeq"],
        "model_targets": ["UF/ConcModel.vo"],
        "proof_targets": ["Props/C17c.vo", "Props/C17C.vo"],
        "harness": [
            {"bin": "h_conc", "name": "h_conc_uf", "sub": "conc-uf", "extra": ["--only", "uf"],
             "prefix": "cases_ufc", "timeout": 900},
        ],
        "trusted": [
            "the interleaving semantics coq/UF/ConcModel.v was written by hand from union-find/src/concurrent/uf.rs "
            "(one modelled step per load/cas call of find_impl, merge, same_set)",
            "translator (the final-state oracle of cases_ufc is the translated sequential union-find gen/UFSeq.v)",
        ],
        "theorem_backed": "concurrent union-find PROTOCOL, all interleavings of loads and CASes (sequentially consistent), any "
                          "number of threads: parent[x] <= x; partition = closure of the merges that took effect; compression "
                          "never changes it; representative = least id; every find / same_set / union has a point inside its "
                          "interval where its answer (for union: its effect and the absorbed root) agrees with the partition; "
                          "REFUTED (with witness, reproduced on the real code with the H5 hook): the first component of union's "
                          "result can be a stale non-root, so histories are not linearizable w.r.t. the sequential union",
        "link_only": "memory ordering (Acquire/Release/AcqRel vs SC), Buffer growth under ReadOptimizedLock, u32 exhaustion, real "
                     "interleavings: stress only (final-state correspondence + interval-based necessary conditions of "
                     "linearizability on timestamped histories)",
        "assumptions": [
            "sequential consistency", "ids are unbounded nat; the array is total (growth not modelled)",
        ],
    }
