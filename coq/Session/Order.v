(** C09 — the ORDER of validation steps and state mutations on every declaration path, regenerated
    from the Rust source (gen/SessionFacts.v, translator/src/x_session.rs), and what it implies.

    1. an abstract result about step lists: "every step that can reject precedes every step that
       mutates" ([validates_first]) is EQUIVALENT to "whatever the validations answer, a rejected
       run has mutated nothing" (loop-free lists; loops are covered by [loops_ok]); the criterion is
       monotone under taking subsequences (exclusive branches are listed one after the other);
    2. the model's step orders (hand-written below, the order Session/Pipeline.v follows) are EQUAL
       to the regenerated ones — any change of the order in the source breaks [model_order_is_source_order];
    3. the model functions [tc_function], [tc_sort] and the `let` arm of [tc_ncmd] are the
       INTERPRETATIONS of the regenerated lists (labels given their meaning here) — so moving an
       insertion above a check in the source changes the interpreted function and breaks the equality;
    4. classification of every path: atomic by order, or a mutation precedes a validation — the
       latter are exactly the paths of the F2 / F10 witnesses of Session/Proofs.v. *)
From Coq Require Import List Arith Bool String Lia.
Import ListNotations.
Require Import Verif.gen.SessionFacts Verif.Session.Pipeline Verif.Session.Proofs.
Open Scope string_scope.
Open Scope list_scope.

(* ---------------------------------------------------------------------------------------- *)
(** * Classification of steps *)

(** fields that are no session state: a "warned once" flag and the accumulated run report *)
Definition bookkeeping (f : string) : bool :=
  String.eqb f "warned_about_global_prefix" || String.eqb f "overall_run_report".

(** backend calls that only allocate / free scratch objects (a rule that is never put into a
    ruleset, an external function) or read; every OTHER backend call counts as a write *)
Definition backend_scratch (c : string) : bool :=
  String.eqb c "backend.new_rule" || String.eqb c "backend.free_rule"
  || String.eqb c "backend.register_external_func" || String.eqb c "backend.free_external_func".

(** [db = false]: declaration state only; [db = true]: writes to the database count too *)
Definition is_mut (db : bool) (s : sstep) : bool :=
  match s with
  | Mutate f => negb (bookkeeping f)
  | Backend c => db && negb (backend_scratch c)
  | Call _ => true
  | _ => false
  end.

Definition can_reject (s : sstep) : bool :=
  match s with Validate _ | Call _ => true | _ => false end.

(** no step that can reject comes after a step that mutated *)
Fixpoint vf (db dirty : bool) (l : list sstep) : bool :=
  match l with
  | [] => true
  | s :: tl => (if can_reject s then negb dirty else true) && vf db (dirty || is_mut db s) tl
  end.

(** a loop body must not both mutate and reject (the next iteration's rejection would come after
    this iteration's mutation); [stk]: one (mutates, rejects) pair per enclosing loop *)
Fixpoint loops_ok (db : bool) (stk : list (bool * bool)) (l : list sstep) : bool :=
  match l with
  | [] => match stk with [] => true | _ => false end
  | LoopStart :: tl => loops_ok db ((false, false) :: stk) tl
  | LoopEnd :: tl =>
      match stk with
      | [] => false
      | (m, r) :: stk' => negb (m && r) && loops_ok db stk' tl
      end
  | s :: tl => loops_ok db (map (fun p => (fst p || is_mut db s, snd p || can_reject s)) stk) tl
  end.

Definition validates_first (db : bool) (l : list sstep) : bool := vf db false l && loops_ok db [] l.

Definition loop_free (l : list sstep) : bool :=
  forallb (fun s => match s with LoopStart | LoopEnd => false | _ => true end) l.

(* ---------------------------------------------------------------------------------------- *)
(** * Abstract executions of a step list

    [ok i] is the answer of the validation at position [i]; a run stops at the first validation
    that fails and KEEPS what it did (there is no rollback anywhere in the pipeline: no step of any
    regenerated list restores a snapshot). The result is the list of mutations performed and
    whether the run was rejected. *)
Fixpoint exec (db : bool) (ok : nat -> bool) (i : nat) (l : list sstep) (tr : list sstep) : list sstep * bool :=
  match l with
  | [] => (tr, false)
  | s :: tl =>
      if can_reject s && negb (ok i) then (tr, true)
      else exec db ok (S i) tl (if is_mut db s then tr ++ [s] else tr)
  end.

Definition nonempty {A} (l : list A) : bool := match l with [] => false | _ => true end.

Lemma nonempty_app : forall {A} (l : list A) a, nonempty (l ++ [a]) = true.
Proof. intros A l a; destruct l; reflexivity. Qed.

Lemma vf_atomic_gen : forall db ok l i tr tr',
  vf db (nonempty tr) l = true -> exec db ok i l tr = (tr', true) -> tr' = [].
Proof.
  intros db ok l; induction l as [|s tl IH]; intros i tr tr' Hv He; simpl in *.
  - discriminate.
  - apply andb_prop in Hv as [Hc Hv].
    destruct (can_reject s && negb (ok i)) eqn:Hr.
    + inversion He; subst. apply andb_prop in Hr as [Hr _]. rewrite Hr in Hc.
      destruct tr'; [reflexivity | discriminate].
    + eapply IH; [| exact He].
      destruct (is_mut db s); [rewrite nonempty_app, orb_true_r in *; exact Hv | rewrite orb_false_r in Hv; exact Hv].
Qed.

(** validations first => a rejected run mutated nothing, whatever the validations answer *)
Theorem validates_first_atomic : forall db l ok tr,
  vf db false l = true -> exec db ok 0 l [] = (tr, true) -> tr = [].
Proof. intros; eapply vf_atomic_gen with (tr := []); eauto. Qed.

Lemma exec_ext : forall db l ok ok' i tr,
  (forall j, i <= j -> ok j = ok' j) -> exec db ok i l tr = exec db ok' i l tr.
Proof.
  intros db l; induction l as [|s tl IH]; intros ok ok' i tr H; simpl; [reflexivity|].
  rewrite (H i (le_n i)). destruct (can_reject s && negb (ok' i)); [reflexivity|].
  apply IH; intros; apply H; lia.
Qed.

Lemma vf_refuted_gen : forall db l i tr,
  vf db (nonempty tr) l = false -> exists ok tr', exec db ok i l tr = (tr', true) /\ tr' <> [].
Proof.
  intros db l; induction l as [|s tl IH]; intros i tr Hv; simpl in *; [discriminate|].
  destruct (can_reject s) eqn:Hc.
  - destruct (nonempty tr) eqn:Hn; simpl in Hv.
    + exists (fun _ => false), tr. simpl. split; [reflexivity | destruct tr; [discriminate | congruence]].
    + destruct (IH (S i) (if is_mut db s then tr ++ [s] else tr)) as [ok [tr' [He Hne]]].
      { destruct (is_mut db s); [rewrite nonempty_app; exact Hv | rewrite Hn; exact Hv]. }
      exists (fun j => if Nat.eqb j i then true else ok j), tr'. rewrite Nat.eqb_refl. simpl.
      split; [| exact Hne]. rewrite <- He. apply exec_ext. intros j Hj.
      destruct (Nat.eqb j i) eqn:E; [apply Nat.eqb_eq in E; lia | reflexivity].
  - simpl in Hv.
    destruct (IH (S i) (if is_mut db s then tr ++ [s] else tr)) as [ok [tr' [He Hne]]].
    { destruct (is_mut db s); [rewrite nonempty_app, orb_true_r in *; exact Hv | rewrite orb_false_r in Hv; exact Hv]. }
    exists ok, tr'. split; assumption.
Qed.

(** ... and conversely: when a mutation precedes a validation, some answers of the validations
    give a rejected run that has mutated something *)
Theorem not_validates_first_partial_effect : forall db l,
  vf db false l = false -> exists ok tr, exec db ok 0 l [] = (tr, true) /\ tr <> [].
Proof. intros; apply vf_refuted_gen with (tr := []); assumption. Qed.

Theorem vf_iff_atomic : forall db l,
  vf db false l = true <-> (forall ok tr, exec db ok 0 l [] = (tr, true) -> tr = []).
Proof.
  intros db l; split.
  - intros H ok tr; apply validates_first_atomic; assumption.
  - intros H. destruct (vf db false l) eqn:E; [reflexivity|].
    destruct (not_validates_first_partial_effect db l E) as [ok [tr [He Hne]]].
    exfalso; apply Hne; eapply H; eassumption.
Qed.

(** exclusive branches are listed one after the other, so a real execution path is a SUBSEQUENCE of
    the regenerated list; the criterion is inherited by subsequences *)
Inductive subseq {A} : list A -> list A -> Prop :=
| sub_nil : subseq [] []
| sub_skip a l l' : subseq l l' -> subseq l (a :: l')
| sub_take a l l' : subseq l l' -> subseq (a :: l) (a :: l').

Lemma vf_le : forall db l d1 d2, (d2 = true -> d1 = true) -> vf db d1 l = true -> vf db d2 l = true.
Proof.
  intros db l; induction l as [|s tl IH]; intros d1 d2 Hd H; simpl in *; [reflexivity|].
  apply andb_prop in H as [Hc H]. apply andb_true_intro; split.
  - destruct (can_reject s); [|reflexivity]. destruct d2; [rewrite (Hd eq_refl) in Hc; exact Hc | reflexivity].
  - eapply IH; [| exact H]. intros E. apply orb_prop in E as [E|E]; [rewrite (Hd E); reflexivity | rewrite E; apply orb_true_r].
Qed.

Theorem vf_subseq : forall db (l' l : list sstep), subseq l' l -> forall d, vf db d l = true -> vf db d l' = true.
Proof.
  intros db l' l H; induction H; intros d Hv; simpl in *.
  - reflexivity.
  - apply andb_prop in Hv as [_ Hv]. apply IHsubseq. eapply vf_le; [| exact Hv]. intros E; rewrite E; reflexivity.
  - apply andb_prop in Hv as [Hc Hv]. rewrite Hc. simpl. apply IHsubseq; exact Hv.
Qed.

(* ---------------------------------------------------------------------------------------- *)
(** * The model's step orders (the order Session/Pipeline.v is written in) *)

Definition m_typecheck_function : list sstep :=
  [Validate "SortAlreadyBound"; Validate "PrimitiveAlreadyBound"; Validate "TermConstructorNoInputs";
   Validate "function_to_functype"; Validate "FunctionAlreadyBound"; Validate "ConstructorOutputNotSort";
   Validate "typecheck_standalone_expr"; Mutate "func_types"].

Definition m_tc_function : list sstep :=
  [Validate "SortAlreadyBound"; Validate "PrimitiveAlreadyBound"; Validate "TermConstructorNoInputs";
   Validate "function_to_functype"; Validate "FunctionAlreadyBound"; Validate "ConstructorOutputNotSort";
   Validate "typecheck_standalone_expr"; Mutate "type_info.func_types"; Mutate "type_info.global_sorts"].

Definition m_proof_state_sort : list sstep :=
  [Mutate "proof_state.uf_parent"; Mutate "proof_state.uf_function"; Mutate "proof_state.proof_func_parent";
   Mutate "proof_state.proof_names.proof_datatype"; Mutate "proof_state.proof_names.congr_constructor";
   Mutate "proof_state.proof_names.eq_trans_constructor"; Mutate "proof_state.proof_names.eq_sym_constructor";
   Mutate "proof_state.proof_names.container_normalize_constructor"].

Definition m_tc_sort : list sstep :=
  [Validate "FunctionAlreadyBound"; Validate "PresortNotFound"; Opaque "mksort"; Validate "mksort";
   Opaque "register_type"; Validate "SortAlreadyBound"; Mutate "type_info.sorts"; Opaque "register_primitives";
   Mutate "type_info.non_unionable_sorts"] ++ m_proof_state_sort ++ [Opaque "register_container_rebuild_from_spec"].

Definition m_tc_let : list sstep :=
  [Validate "typecheck_standalone_action"; Validate "GlobalMissingPrefix"; Validate "GlobalMissingPrefix";
   Mutate "warned_about_global_prefix"; Mutate "type_info.global_sorts"].

Definition m_tc_action : list sstep := [Validate "typecheck_standalone_action"].

Definition m_tc_rule : list sstep :=
  [Validate "typecheck_rule"; LoopStart; Validate "NonGlobalPrefixed"; Mutate "warned_about_global_prefix"; LoopEnd;
   Validate "NonGlobalPrefixed"; Mutate "warned_about_global_prefix"].

Definition m_tc_check : list sstep := [Validate "typecheck_facts"].
Definition m_tc_schedule : list sstep := [Validate "typecheck_schedule"].
Definition m_tc_fail : list sstep := [Call "typecheck_command"].
Definition m_typecheck_program : list sstep := [LoopStart; Call "typecheck_command"; LoopEnd].

Definition m_shadow_name : list sstep := [Validate "Shadowing"; Mutate "seen"].
Definition m_shadow_function : list sstep := [Validate "Shadowing"; Mutate "seen"; Mutate "global_aliases"].
Definition m_shadow_rule : list sstep :=
  [Validate "check_shadowing_query"; LoopStart; Validate "check_shadowing_action"; LoopEnd].
Definition m_shadow_action : list sstep := [Validate "Shadowing"; Validate "Shadowing"; Mutate "seen"].

(** desugar; typecheck every part; [proof mode only: support check, proof form]; remove globals;
    check_shadowing every part — nothing in between restores anything *)
Definition m_resolve : list sstep :=
  [Opaque "desugar_command"; Validate "desugar_command";
   LoopStart; Call "typecheck_command"; LoopEnd;
   LoopStart; Validate "UnsupportedProofCommand"; LoopEnd; Opaque "proof_form";
   LoopStart; Call "typecheck_command"; LoopEnd;
   Opaque "remove_globals";
   LoopStart; Call "check_shadowing"; LoopEnd].

Definition m_run_function : list sstep :=
  [Validate "UndefinedSort"; Validate "collect"; Validate "get_sort"; Mutate "type_info.func_types";
   Validate "translate_expr_to_mergefn"; Backend "backend.add_table"; Mutate "functions";
   Panics "Typechecking should have caught function"].
Definition m_run_ruleset : list sstep := [Panics "Ruleset _"; Mutate "rulesets"].
Definition m_run_combined : list sstep := [Validate "NoSuchRuleset"; Panics "Ruleset _"; Mutate "rulesets"].
Definition m_run_rule : list sstep :=
  [Opaque "to_canonicalized_core_rule"; Validate "to_canonicalized_core_rule"; Backend "backend.new_rule";
   Validate "query"; Validate "actions"; Validate "NoSuchRuleset"; Validate "CombinedRulesetError";
   Validate "RuleAlreadyExists"; Mutate "rulesets"].
Definition m_run_action : list sstep :=
  [Panics "Globals should have been desugared away:"; Opaque "new"; Validate "to_core_actions";
   Backend "backend.new_rule"; Validate "actions"; Backend "backend.run_rules"; Backend "backend.free_rule";
   Validate "BackendError"].
Definition m_run_check : list sstep :=
  [Opaque "to_canonicalized_core_rule"; Validate "to_canonicalized_core_rule";
   Backend "backend.register_external_func"; Backend "backend.new_rule"; Validate "query";
   Backend "backend.run_rules"; Backend "backend.free_rule"; Backend "backend.free_external_func";
   Validate "map_err"; Validate "CheckError"].
Definition m_push : list sstep := [Mutate "pushed_egraph"; Mutate "pushed_egraph"].
Definition m_pop : list sstep :=
  [Mutate "pushed_egraph"; Validate "Pop"; Mutate "overall_run_report"; Mutate "parser.symbol_gen"; Mutate "*self"].
Definition m_run_pop : list sstep := [LoopStart] ++ m_pop ++ [Validate "map_err"; LoopEnd].
Definition m_run_fail : list sstep := [Call "run_command"; Validate "ExpectFail"].

(** every path, model order next to the order regenerated from the source *)
Definition order_table : list (string * list sstep * list sstep) :=
  [("typecheck_function", m_typecheck_function, typecheck_function_steps);
   ("typecheck_program", m_typecheck_program, typecheck_program_steps);
   ("resolve", m_resolve, resolve_before_proofs_steps);
   ("tc/function", m_tc_function, tc_arm_function_steps);
   ("tc/sort", m_tc_sort, tc_arm_sort_steps);
   ("tc/let", m_tc_let, tc_arm_let_steps);
   ("tc/action", m_tc_action, tc_arm_action_steps);
   ("tc/rule", m_tc_rule, tc_arm_rule_steps);
   ("tc/check", m_tc_check, tc_arm_check_steps);
   ("tc/schedule", m_tc_schedule, tc_arm_schedule_steps);
   ("tc/ruleset", [], tc_arm_ruleset_steps);
   ("tc/combined", [], tc_arm_combined_steps);
   ("tc/push", [], tc_arm_push_steps);
   ("tc/pop", [], tc_arm_pop_steps);
   ("tc/print-size", [], tc_arm_printsize_steps);
   ("tc/fail", m_tc_fail, tc_arm_fail_steps);
   ("shadow/sort", m_shadow_name, shadow_arm_sort_steps);
   ("shadow/function", m_shadow_function, shadow_arm_function_steps);
   ("shadow/ruleset", m_shadow_name, shadow_arm_ruleset_steps);
   ("shadow/combined", m_shadow_name, shadow_arm_combined_steps);
   ("shadow/rule", m_shadow_rule, shadow_arm_rule_steps);
   ("shadow/action", m_shadow_action, shadow_arm_action_steps);
   ("shadow/fail", [], shadow_arm_fail_steps);
   ("run/sort", m_proof_state_sort, run_arm_sort_steps);
   ("run/function", m_run_function, run_arm_function_steps);
   ("run/ruleset", m_run_ruleset, run_arm_ruleset_steps);
   ("run/combined", m_run_combined, run_arm_combined_steps);
   ("run/rule", m_run_rule, run_arm_rule_steps);
   ("run/action", m_run_action, run_arm_action_steps);
   ("run/check", m_run_check, run_arm_check_steps);
   ("run/push", m_push, run_arm_push_steps);
   ("run/pop", m_run_pop, run_arm_pop_steps);
   ("run/fail", m_run_fail, run_arm_fail_steps);
   ("push", m_push, push_steps);
   ("pop", m_pop, pop_steps)].

Theorem model_order_is_source_order :
  Forall (fun p => snd (fst p) = snd p) order_table.
Proof. repeat constructor. Qed.

(* ---------------------------------------------------------------------------------------- *)
(** * The model functions ARE the interpretations of the regenerated lists *)

Section FunctionPath.
  Variables (n : name) (ins : list name) (out : name) (ctor : bool) (merge : option expr).

  (** meaning of each validation of `typecheck_function`, evaluated on the CURRENT state; [None]:
      unknown label (fail closed). `PrimitiveAlreadyBound` / `TermConstructorNoInputs` never fire on
      the harness' universe of names (assumption of the property's configuration). *)
  Definition fn_validate (l : string) (F : frame) : option (option err) :=
    if String.eqb l "SortAlreadyBound" then Some (if has (sorts F) n then Some ESortAlreadyBound else None)
    else if String.eqb l "PrimitiveAlreadyBound" then Some None
    else if String.eqb l "TermConstructorNoInputs" then Some None
    else if String.eqb l "function_to_functype" then
      Some (if negb (all_sorts_defined F ins && has (sorts F) out) then Some EUndefinedSort else None)
    else if String.eqb l "FunctionAlreadyBound" then Some (if has (funcs F) n then Some EDupFunction else None)
    else if String.eqb l "ConstructorOutputNotSort" then
      Some (if ctor && negb (is_eq_kind (lookup (sorts F) out)) then Some ECtorOutputNotSort else None)
    else if String.eqb l "typecheck_standalone_expr" then
      Some (match merge with
            | None => None
            | Some m => match tc F false m None [(v_old, out); (v_new, out)] with inl _ => Some EBadMerge | inr _ => None end
            end)
    else None.

  Definition fn_mutate (f : string) (F : frame) : option frame :=
    if String.eqb f "func_types"
    then Some (with_funcs F (set_assoc (funcs F) n {| f_ctor := ctor; f_ins := ins; f_out := out |}))
    else None.

  (** run the list; a failing validation returns the state AS IT IS at that point (no rollback) *)
  Fixpoint interp_fn (l : list sstep) (F : frame) : option (frame * option err) :=
    match l with
    | [] => Some (F, None)
    | Validate lab :: tl =>
        match fn_validate lab F with
        | None => None
        | Some (Some e) => Some (F, Some e)
        | Some None => interp_fn tl F
        end
    | Mutate f :: tl => match fn_mutate f F with None => None | Some F' => interp_fn tl F' end
    | _ :: _ => None
    end.

  Theorem tc_function_is_source_order : forall F,
    interp_fn typecheck_function_steps F = Some (tc_function F n ins out ctor merge).
  Proof.
    intros F. unfold typecheck_function_steps, tc_function. cbn.
    destruct (has (sorts F) n); [reflexivity|].
    destruct (all_sorts_defined F ins && has (sorts F) out); cbn; [|reflexivity].
    destruct (has (funcs F) n); [reflexivity|].
    destruct (ctor && negb (is_eq_kind (lookup (sorts F) out))); [reflexivity|].
    destruct merge as [m|]; [|reflexivity].
    destruct (tc F false m None [(v_old, out); (v_new, out)]) as [e|[t env]]; reflexivity.
  Qed.
End FunctionPath.

Section SortPath.
  Variables (n : name) (k : skind) (pre : option (presort * list name)).

  Definition sort_validate (l : string) (F : frame) : option (option err) :=
    if String.eqb l "FunctionAlreadyBound" then Some (if has (funcs F) n then Some EFunctionBoundAtSort else None)
    else if String.eqb l "PresortNotFound" then
      Some (match pre with Some (PsBogus, _) => Some EPresortNotFound | _ => None end)
    else if String.eqb l "mksort" then
      Some (match pre with Some (p, args) => tc_presort F p args | None => None end)
    else if String.eqb l "SortAlreadyBound" then Some (if has (sorts F) n then Some ESortAlreadyBound else None)
    else None.

  (** `non_unionable_sorts` is folded into the kind [k] ([KRel]); `proof_state` is not modelled *)
  Definition sort_mutate (f : string) (F : frame) : option frame :=
    if String.eqb f "type_info.sorts" then Some (with_sorts F ((n, k) :: sorts F))
    else if String.eqb f "type_info.non_unionable_sorts" then Some F
    else if String.prefix "proof_state." f then Some F
    else None.

  Fixpoint interp_sort (l : list sstep) (F : frame) : option (frame * option err) :=
    match l with
    | [] => Some (F, None)
    | Validate lab :: tl =>
        match sort_validate lab F with
        | None => None
        | Some (Some e) => Some (F, Some e)
        | Some None => interp_sort tl F
        end
    | Mutate f :: tl => match sort_mutate f F with None => None | Some F' => interp_sort tl F' end
    | Opaque _ :: tl => interp_sort tl F   (* assumed not to touch the declaration state *)
    | _ :: _ => None
    end.

  Theorem tc_sort_is_source_order : forall F,
    interp_sort tc_arm_sort_steps F = Some (tc_sort F n k pre).
  Proof.
    intros F. unfold tc_arm_sort_steps, tc_sort. cbn -[tc_presort].
    destruct (has (funcs F) n); [reflexivity|].
    destruct pre as [[p args]|].
    - destruct p; cbn -[tc_presort].
      + destruct (tc_presort F PsVec args); [reflexivity|]. destruct (has (sorts F) n); reflexivity.
      + destruct (tc_presort F PsMap args); [reflexivity|]. destruct (has (sorts F) n); reflexivity.
      + reflexivity.
    - cbn. destruct (has (sorts F) n); reflexivity.
  Qed.
End SortPath.

Section LetPath.
  Variables (x : name) (e : expr).

  Definition let_validate (l : string) (F : frame) : option (option err) :=
    if String.eqb l "typecheck_standalone_action" then
      Some (match tc F false e None [] with inl er => Some er | inr _ => None end)
    else if String.eqb l "GlobalMissingPrefix" then Some None   (* strict mode off *)
    else None.

  Definition let_mutate (f : string) (F : frame) : option frame :=
    if String.eqb f "warned_about_global_prefix" then Some F
    else if String.eqb f "type_info.global_sorts" then
      match tc F false e None [] with
      | inr (t, _) => Some (with_globals F (set_assoc (globals F) x t))
      | inl _ => None
      end
    else None.

  Fixpoint interp_let (l : list sstep) (F : frame) : option (frame * option err) :=
    match l with
    | [] => Some (F, None)
    | Validate lab :: tl =>
        match let_validate lab F with
        | None => None
        | Some (Some er) => Some (F, Some er)
        | Some None => interp_let tl F
        end
    | Mutate f :: tl => match let_mutate f F with None => None | Some F' => interp_let tl F' end
    | _ :: _ => None
    end.

  Theorem tc_let_is_source_order : forall F,
    interp_let tc_arm_let_steps F = Some (tc_ncmd F (NAct (ALet x e))).
  Proof.
    intros F. unfold tc_arm_let_steps. cbn.
    destruct (tc F false e None []) as [er|[t env]]; reflexivity.
  Qed.
End LetPath.

(* ---------------------------------------------------------------------------------------- *)
(** * Whole-command paths, composed from the regenerated parts *)

(** a single-part command: its typecheck arm, its check_shadowing arm, its run arm — the order
    [m_resolve] (= the regenerated `resolve_command_before_proofs`) and `process_program_internal` fix *)
Definition path3 (tcs shs runs : list sstep) : list sstep := tcs ++ shs ++ runs.

Definition p_sort := path3 tc_arm_sort_steps shadow_arm_sort_steps run_arm_sort_steps.
Definition p_function := path3 tc_arm_function_steps shadow_arm_function_steps run_arm_function_steps.
Definition p_ruleset := path3 tc_arm_ruleset_steps shadow_arm_ruleset_steps run_arm_ruleset_steps.
Definition p_combined := path3 tc_arm_combined_steps shadow_arm_combined_steps run_arm_combined_steps.
Definition p_rule := path3 tc_arm_rule_steps shadow_arm_rule_steps run_arm_rule_steps.
(** a top-level action that is not a `let` (the shadowing arm only acts on `let`) *)
Definition p_action := path3 tc_arm_action_steps [] run_arm_action_steps.
Definition p_check := path3 tc_arm_check_steps [] run_arm_check_steps.
(** `let`: typecheck arm; remove_globals turns it into a function declaration + a `set` *)
Definition p_let := path3 tc_arm_let_steps shadow_arm_function_steps (run_arm_function_steps ++ run_arm_action_steps).
(** a datatype with [k] variants: sort, then [k] constructors, all typechecked before anything else *)
Definition p_datatype_tc (k : nat) := tc_arm_sort_steps ++ List.concat (repeat tc_arm_function_steps k).
Definition p_fail := path3 tc_arm_fail_steps shadow_arm_fail_steps run_arm_fail_steps.

(** the typecheck phase alone, for every single-part declaration, validates first ... *)
Theorem typecheck_arms_validate_first :
  Forall (fun l => validates_first false l = true)
    [typecheck_function_steps; tc_arm_function_steps; tc_arm_sort_steps; tc_arm_let_steps; tc_arm_action_steps;
     tc_arm_rule_steps; tc_arm_check_steps; tc_arm_schedule_steps; tc_arm_ruleset_steps; tc_arm_combined_steps;
     tc_arm_push_steps; tc_arm_pop_steps; tc_arm_printsize_steps;
     shadow_arm_sort_steps; shadow_arm_function_steps; shadow_arm_ruleset_steps; shadow_arm_combined_steps;
     shadow_arm_rule_steps; shadow_arm_action_steps].
Proof. repeat constructor. Qed.

(** ... and so do these whole commands (declaration state): ruleset, rule, non-let action, check *)
Theorem whole_paths_validate_first :
  Forall (fun l => validates_first false l = true) [p_ruleset; p_rule; p_action; p_check].
Proof. repeat constructor. Qed.

(** position of the first occurrence *)
Fixpoint sstep_eqb (a b : sstep) : bool :=
  match a, b with
  | Validate x, Validate y | Mutate x, Mutate y | Backend x, Backend y | Opaque x, Opaque y
  | Panics x, Panics y | Call x, Call y => String.eqb x y
  | LoopStart, LoopStart | LoopEnd, LoopEnd => true
  | _, _ => false
  end.

Fixpoint first_index (a : sstep) (l : list sstep) : option nat :=
  match l with
  | [] => None
  | b :: tl => if sstep_eqb a b then Some 0 else option_map S (first_index a tl)
  end.

Definition precedes (a b : sstep) (l : list sstep) : bool :=
  match first_index a l, first_index b l with
  | Some i, Some j => Nat.ltb i j
  | _, _ => false
  end.

(** combined ruleset: `run_command` re-validates the sub-rulesets AFTER check_shadowing recorded the
    name, so by order alone the path is not atomic (this was F12); since e53b4f6 the SAME validation
    also runs in `process_program_internal` before the command is resolved (before desugaring), which
    makes the late one unreachable on an unchanged state *)
Theorem combined_ruleset_guarded_by_early_check :
  vf false false p_combined = false
  /\ precedes (Validate "NoSuchRuleset") (Opaque "desugar_command") process_program_steps = true
  /\ precedes (Validate "NoSuchRuleset") (Call "typecheck_command") process_program_steps = true.
Proof. repeat split. Qed.

(** the paths on which a mutation precedes a validation: whole sort / function / let commands
    (check_shadowing runs after the typechecker recorded the declaration), datatypes with at least
    one variant (the sort and earlier variants are recorded before a later variant is validated),
    `(fail c)` (the inner command runs before `fail` decides to reject — F10) *)
Theorem whole_paths_mutate_before_validating :
  Forall (fun l => vf false false l = false) [p_sort; p_function; p_let; p_datatype_tc 1; p_datatype_tc 2; p_fail].
Proof. repeat constructor. Qed.

Theorem datatype_never_validates_first : forall k, vf false false (p_datatype_tc (S k)) = false.
Proof.
  intros k. unfold p_datatype_tc. simpl List.repeat. simpl List.concat.
  change (tc_arm_sort_steps ++ tc_arm_function_steps ++ List.concat (repeat tc_arm_function_steps k))
    with (tc_arm_sort_steps ++ [Validate "SortAlreadyBound"] ++ (tl tc_arm_function_steps ++ List.concat (repeat tc_arm_function_steps k))).
  generalize (tl tc_arm_function_steps ++ List.concat (repeat tc_arm_function_steps k)). intros rest.
  reflexivity.
Qed.

(** the typechecker's loop over the parts of a command has no rollback: it is exactly "call the
    dispatcher for each part, stop at the first error" *)
Theorem typecheck_program_is_plain_loop : typecheck_program_steps = [LoopStart; Call "typecheck_command"; LoopEnd].
Proof. reflexivity. Qed.

(** a failing top-level ACTION: no declaration state is touched (above), but the DATABASE may be:
    `run_rules` comes before the backend error is turned into the command's error *)
Theorem action_db_not_atomic_by_order :
  validates_first false p_action = true /\ vf true false p_action = false.
Proof. split; reflexivity. Qed.

(** a rejected RULE leaves neither declaration state nor database writes (only a scratch backend
    rule that is in no ruleset) *)
Theorem rule_db_atomic_by_order : validates_first true p_rule = true.
Proof. reflexivity. Qed.

(** the correspondence between the order criterion and the witnesses of Session/Proofs.v: each
    refuted path has a concrete rejected command of the model that left state behind *)
Theorem refuted_paths_have_witnesses :
  (vf false false (p_datatype_tc 2) = false /\ rejected_with_effect init w_bad_variant)
  /\ (vf false false p_function = false /\ rejected_with_effect (fst (step init (CRuleset r))) w_shadow)
  /\ (vf false false p_let = false
      /\ rejected_with_effect (fst (step init (CAct (ALet (G 16) EInt)))) (CAct (ALet (G 16) EStr))).
Proof.
  repeat split; try reflexivity.
  - apply bad_variant_leaves_sort_and_constructor.
  - apply shadowing_after_typecheck_leaves_signature.
  - apply second_let_changes_global_sort.
Qed.

(** non-vacuity of the abstract theorems on a regenerated list: the function path run with a
    failing merge validation (position 6) is rejected with an empty trace; the datatype path run
    with the second variant's sort check failing is rejected after 2 mutations *)
Example exec_function_path_rejects_clean :
  exec false (fun i => negb (Nat.eqb i 6)) 0 typecheck_function_steps [] = ([], true).
Proof. reflexivity. Qed.

Example exec_datatype_path_rejects_dirty :
  let r := exec false (fun i => negb (Nat.eqb i 32)) 0 (p_datatype_tc 2) [] in
  snd r = true /\ Nat.leb 2 (List.length (fst r)) = true.
Proof. vm_compute. split; reflexivity. Qed.
