"""Shared machinery of /verif/bin/check.

Protocol (DESIGN.md 1.3): regenerate Tier-A Gallina from /repo, build the .vo closure of the
property's Props file (full .vo), count obligations and inspect `Print Assumptions`, build the
harness against /repo's working tree, run corpus + generated cases on the implementation (property
predicates) and on the Gallina model (kernel `vm_compute` over cases_*.v), decide, write evidence.
"""
import concurrent.futures
import hashlib
import json
import os
import re
import shutil
import subprocess
import sys
import time

VERIF = os.path.dirname(os.path.dirname(os.path.abspath(__file__)))
REPO = os.environ.get("VERIF_REPO", "/repo")
COQ = os.path.join(VERIF, "coq")
CACHE = os.path.join(VERIF, ".cache")
GUARD = "egglog_verif"
ENV = dict(os.environ)
ENV.update({"CARGO_NET_OFFLINE": "true", "CARGO_TERM_COLOR": "never"})

ALLOWED_AXIOMS = {
    # std-lib axioms a library may pull in; each must be named in the trusted base when it appears
    "functional_extensionality_dep",
    "FunctionalExtensionality.functional_extensionality_dep",
    "proof_irrelevance",
    "ProofIrrelevance.proof_irrelevance",
    "Eqdep.Eq_rect_eq.eq_rect_eq",
    "Eq_rect_eq.eq_rect_eq",
    "JMeq_eq",
    "JMeq.JMeq_eq",
    "Classical_Prop.classic",
    "classic",
}

BASE_TRUST = [
    "Coq 8.16.1 kernel (coqc, full .vo builds; vm_compute used for witness theorems and cases_*.v; no native_compute)",
    "no Axiom/Parameter/Admitted in /verif/coq (grep-checked on every run); Print Assumptions of every pinned theorem inspected",
    "the Rust harness (/verif/harness) is trusted to report what the implementation did; its generators bound what the correspondence has seen",
]


def sh(cmd, cwd=None, timeout=3600, env=None, stdin=None):
    """run a command, return (rc, stdout+stderr)"""
    try:
        p = subprocess.run(
            cmd, cwd=cwd, env=env or ENV, stdout=subprocess.PIPE, stderr=subprocess.STDOUT,
            timeout=timeout, shell=isinstance(cmd, str), input=stdin,
        )
        return p.returncode, p.stdout.decode("utf-8", "replace")
    except subprocess.TimeoutExpired as e:
        out = (e.stdout or b"").decode("utf-8", "replace")
        return 124, out + "\n[timeout after %ss]" % timeout


class Timer:
    def __init__(self):
        self.t0 = time.time()

    def s(self):
        return round(time.time() - self.t0, 2)


# ------------------------------------------------------------------------------------------
# translator (Tier A)

def build_translator():
    tgt = os.path.join(CACHE, "target-tr")
    binp = os.path.join(tgt, "release", "verif-translator")
    # fresh binary (newer than every source file of the translator): nothing to rebuild
    try:
        srcs = [os.path.join(VERIF, "translator", "Cargo.toml")]
        sd = os.path.join(VERIF, "translator", "src")
        srcs += [os.path.join(sd, f) for f in os.listdir(sd) if f.endswith(".rs")]
        if os.path.exists(binp) and os.path.getmtime(binp) > max(os.path.getmtime(f) for f in srcs):
            return binp
    except OSError:
        pass
    rc, out = sh(["cargo", "build", "--release", "--offline", "-q"], cwd=os.path.join(VERIF, "translator"),
                 env=dict(ENV, CARGO_TARGET_DIR=tgt), timeout=3000)
    if rc != 0:
        raise RuntimeError("translator build failed:\n" + out[-3000:])
    return binp


def regenerate():
    """run the translator on /repo's working tree -> coq/gen; returns the per-item report"""
    binp = build_translator()
    gen = os.path.join(COQ, "gen")
    os.makedirs(gen, exist_ok=True)
    rc, out = sh([binp, REPO, gen], timeout=300)
    if rc != 0:
        raise RuntimeError("translator failed:\n" + out[-3000:])
    with open(os.path.join(gen, "translator_report.json")) as f:
        return json.load(f)


# ------------------------------------------------------------------------------------------
# Coq

def coq_makefile():
    mk = os.path.join(COQ, "Makefile")
    cp = os.path.join(COQ, "_CoqProject")
    if not os.path.exists(mk) or os.path.getmtime(mk) < os.path.getmtime(cp):
        rc, out = sh(["coq_makefile", "-f", "_CoqProject", "-o", "Makefile"], cwd=COQ)
        if rc != 0:
            raise RuntimeError("coq_makefile failed: " + out)


def coq_make(targets, timeout=2400):
    """full .vo build of the given targets; returns (ok, log, failing_file)"""
    if not targets:
        return True, "", None
    coq_makefile()
    rc, out = sh(["make", "-j16", "-k"] + targets, cwd=COQ, timeout=timeout)
    failing = None
    if rc != 0:
        m = re.search(r'File "\./([^"]+)", line (\d+)', out)
        if m:
            failing = "%s:%s" % (m.group(1), m.group(2))
    return rc == 0, out, failing


def coqc_file(path, timeout=900):
    return sh(["coqc", "-noglob", "-Q", COQ, "Verif", path], cwd=COQ, timeout=timeout)


def props_obligations(prop):
    """parse Props/<prop>.v: pinned theorem names, and compile it capturing Print Assumptions"""
    path = os.path.join(COQ, "Props", prop + ".v")
    with open(path) as f:
        src = f.read()
    names = re.findall(r"^\s*(?:Theorem|Lemma|Example|Corollary)\s+([A-Za-z0-9_']+)", src, re.M)
    # recompile the (tiny) Props file to capture its output; dependencies were built by make
    rc, out = coqc_file(path)
    res = {"names": names, "compiled": rc == 0, "log": out, "axioms": {}, "bad_axioms": []}
    if rc != 0:
        return res
    # split the output per Print Assumptions, in order of appearance in the file
    printed = re.findall(r"Print Assumptions\s+([A-Za-z0-9_']+)", src)
    blocks = re.split(r"(?m)^(?=Closed under the global context|Axioms:)", out)
    blocks = [b for b in blocks if b.startswith("Closed under") or b.startswith("Axioms:")]
    for name, blk in zip(printed, blocks):
        if blk.startswith("Closed"):
            res["axioms"][name] = []
        else:
            axs = re.findall(r"(?m)^([A-Za-z0-9_.']+)\s*:", blk)
            res["axioms"][name] = axs
            for a in axs:
                if a not in ALLOWED_AXIOMS and a.split(".")[-1] not in ALLOWED_AXIOMS:
                    res["bad_axioms"].append((name, a))
    if len(blocks) != len(printed):
        res["bad_axioms"].append(("?", "Print Assumptions output count mismatch"))
    return res


FORBIDDEN = re.compile(
    r"\b(Admitted|admit|Axiom|Axioms|Parameter|Parameters|Conjecture|Conjectures|Admit Obligations)\b"
    r"|Unset\s+Guard|bypass_check|type-in-type|impredicative-set|Unset\s+Universe\s+Checking|Unset\s+Positivity")


def strip_coq_comments(s):
    out, depth, i = [], 0, 0
    while i < len(s):
        if s.startswith("(*", i):
            depth += 1
            i += 2
        elif s.startswith("*)", i) and depth > 0:
            depth -= 1
            i += 2
        else:
            if depth == 0:
                out.append(s[i])
            i += 1
    return "".join(out)


def grep_forbidden():
    """no Admitted/admit/Axiom/Parameter/... anywhere in the development (comments and strings ignored)"""
    hits = []
    for root, _, files in os.walk(COQ):
        for fn in files:
            if fn.endswith(".v"):
                p = os.path.join(root, fn)
                with open(p) as f:
                    s = strip_coq_comments(f.read())
                s = re.sub(r'"[^"]*"', '""', s)
                for m in FORBIDDEN.finditer(s):
                    hits.append("%s: %s" % (os.path.relpath(p, COQ), m.group(0)))
    with open(os.path.join(COQ, "_CoqProject")) as f:
        if re.search(r"type-in-type|impredicative-set|-vos|-vok", f.read()):
            hits.append("_CoqProject: forbidden flag")
    return hits


def run_case_files(run_dir, prefix, timeout=900):
    """evaluate every <prefix>_NNN.v with coqc (16 in parallel); returns (failing indices, errors, n_files)"""
    files = sorted(f for f in os.listdir(run_dir) if f.startswith(prefix) and f.endswith(".v"))
    failing, errors = [], []

    def one(fn):
        rc, out = coqc_file(os.path.join(run_dir, fn), timeout=timeout)
        return fn, rc, out

    with concurrent.futures.ThreadPoolExecutor(max_workers=16) as ex:
        for fn, rc, out in ex.map(one, files):
            if rc != 0:
                errors.append("%s: %s" % (fn, out.strip()[-600:]))
                continue
            m = re.search(r"=\s*\[(.*?)\]\s*:\s*list N", out, re.S)
            if not m:
                errors.append("%s: unparsable output %r" % (fn, out[-300:]))
                continue
            body = m.group(1).strip()
            if body:
                failing += [int(x.replace("%N", "").strip()) for x in body.split(";") if x.strip()]
    # clean compiled leftovers
    for f in os.listdir(run_dir):
        if f.endswith((".vo", ".vok", ".vos", ".glob", ".aux")):
            try:
                os.remove(os.path.join(run_dir, f))
            except OSError:
                pass
    return sorted(failing), errors, len(files)


# ------------------------------------------------------------------------------------------
# harness

def build_harness(hooks=True, bins=None):
    """build the named harness binaries (src/bin/<name>.rs) against /repo's working tree"""
    tgt = os.path.join(CACHE, "target")
    env = dict(ENV, CARGO_TARGET_DIR=tgt)
    if hooks:
        env["RUSTFLAGS"] = "--cfg " + GUARD
    hdir = os.path.join(VERIF, "harness")
    # always use /repo's lock file so the dependency versions are the repository's own
    lock_src = os.path.join(REPO, "Cargo.lock")
    cmd = ["cargo", "build", "--release", "--offline"]
    for b in bins or []:
        cmd += ["--bin", b]
    rc, out = sh(cmd, cwd=hdir, env=env, timeout=3000)
    if rc != 0 and os.path.exists(lock_src) and "lock file" in out:
        shutil.copy(lock_src, os.path.join(hdir, "Cargo.lock"))
        rc, out = sh(cmd, cwd=hdir, env=env, timeout=3000)
    return rc == 0, out, os.path.join(tgt, "release")


def run_harness(bindir, binname, run_dir, seed, tier, extra=None, timeout=3000, env=None):
    os.makedirs(run_dir, exist_ok=True)
    cmd = [os.path.join(bindir, binname), "--out", run_dir, "--seed", str(seed), "--tier", tier] + (extra or [])
    rc, out = sh(cmd, timeout=timeout, env=env)
    rep = None
    rp = os.path.join(run_dir, "impl_report.json")
    if rc == 0 and os.path.exists(rp):
        with open(rp) as f:
            rep = json.load(f)
    return rc, out, rep


# ------------------------------------------------------------------------------------------
# findings / evidence / verdict

def load_known_findings():
    p = os.path.join(VERIF, "known_findings.json")
    if not os.path.exists(p):
        return {"findings": [], "fixed": []}
    with open(p) as f:
        return json.load(f)


def write_replay(prop, name, payload):
    d = os.path.join(VERIF, "evidence", "replays")
    os.makedirs(d, exist_ok=True)
    path = os.path.join(d, "%s_%s.json" % (prop, name))
    payload = dict(payload)
    payload.setdefault("property", prop)
    payload.setdefault("replay_cmd", "bin/check %s --replay %s" % (prop, path))
    with open(path, "w") as f:
        json.dump(payload, f, indent=1)
    return path


def write_evidence(prop, tier, seed, coverage, assumptions, wall_s, violations, level="proof"):
    os.makedirs(os.path.join(VERIF, "evidence"), exist_ok=True)
    ev = {
        "property_id": prop,
        "tier": tier,
        "seed": int(seed),
        "level": level,
        "coverage": coverage,
        "assumptions": assumptions,
        "wall_s": wall_s,
        "violations": int(violations),
    }
    with open(os.path.join(VERIF, "evidence", prop + ".json"), "w") as f:
        json.dump(ev, f, indent=1)
    return ev


def file_hash(path):
    h = hashlib.sha256()
    with open(path, "rb") as f:
        h.update(f.read())
    return h.hexdigest()[:16]
