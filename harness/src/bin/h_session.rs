//! C09 — "bad input is rejected cleanly: no panic, no partial effect".
//! (i)   byte-level stream into the parser / `parse_and_run_program`, in child processes;
//! (ii)  structured stream: valid session S1;S2, one ill-typed mutation at every position,
//!       `S1;bad;probes;S2` versus `S1;probes;S2` command by command on one EGraph each, in plain /
//!       term-encoding / proof mode; a panic or any difference is a violation;
//! (iii) cases for the Gallina model `Session/Pipeline.v`: accept / reject / panic decision and the
//!       declaration state (TypeInfo + table map) after every command of the mutated session.
#[path = "session/ast.rs"]
mod ast;
#[path = "session/bytes.rs"]
mod bytes;
#[path = "session/gen.rs"]
mod gen;
#[path = "session/run.rs"]
mod run;

use ast::*;
use run::*;
use std::collections::BTreeMap;
use verif_harness::util::*;
use verif_harness::Opts;

fn main() {
    let args: Vec<String> = std::env::args().collect();
    if args.len() >= 5 && args[1] == "--child-bytes" {
        std::process::exit(bytes::child_main(&args[2], &args[3], args[4].parse().unwrap()));
    }
    let o = verif_harness::parse_opts();
    std::process::exit(run_all(&o));
}

#[derive(Clone, Debug)]
struct Violation {
    what: String,
    key: String,
    input: serde_json::Value,
}

// ------------------------------------------------------------------------------------------
// structured stream

struct Case {
    index: usize,
    class: &'static str,
    sub: &'static str,
    s1: Vec<Cmd>,
    bad: Cmd,
    probes: Vec<Cmd>,
    s2: Vec<Cmd>,
}

impl Case {
    fn with_cmds(&self) -> Vec<Cmd> {
        let mut v = self.s1.clone();
        v.push(self.bad.clone());
        v.extend(self.probes.iter().cloned());
        v.extend(self.s2.iter().cloned());
        v
    }
    fn dump_names(&self) -> Vec<String> {
        let mut ns = Vec::new();
        for c in self.with_cmds() {
            c.names(&mut ns);
        }
        ns.sort();
        ns.dedup();
        ns.into_iter().filter(|n| !matches!(n, Name::U(0..=3))).map(|n| n.text()).collect()
    }
}

fn gen_cases(seed: u64, session: usize, thorough: bool) -> Vec<Case> {
    let mut r = Rng::for_case(seed, session as u64);
    let len = if thorough { r.range(6, 18) } else { r.range(5, 12) };
    let mut g = gen::Gen::new();
    let mut cmds = Vec::new();
    let mut envs = vec![g.env.clone()];
    for _ in 0..len {
        cmds.push(g.gen_valid(&mut r));
        envs.push(g.env.clone());
    }
    // rules are part of the state a rejected command must not change: every session ends by running the
    // default ruleset and every ruleset it ever declared (a popped one answers no-such-ruleset in both
    // sessions), so that the final dump observes rule behaviour, not only names
    let mut all_rs: Vec<Name> = Vec::new();
    for c in &cmds {
        if let Cmd::Ruleset(n) = c {
            all_rs.push(*n);
        }
    }
    cmds.push(Cmd::Run(None, 2));
    for n in all_rs {
        cmds.push(Cmd::Run(Some(n), 2));
    }
    let mut out = Vec::new();
    let mut m = 1000 + 0usize;
    let mut rid = 5000usize;
    let off = r.below(gen::CLASSES.len());
    for p in 0..=len {
        let mut found = None;
        for t in 0..gen::CLASSES.len() {
            let class = gen::CLASSES[(off + p * 7 + session + t) % gen::CLASSES.len()];
            if let Some(mu) = gen::mutate(&envs[p], class, &mut r, &mut m, &mut rid) {
                found = Some(mu);
                break;
            }
        }
        if !envs[p].rules.is_empty() {
            if let Some(mu) = gen::mutate(&envs[p], "dup-rule-name", &mut r, &mut m, &mut rid) {
                out.push(Case {
                    index: 0,
                    class: mu.class,
                    sub: mu.sub,
                    s1: cmds[..p].to_vec(),
                    bad: mu.bad,
                    probes: mu.probes,
                    s2: cmds[p..].to_vec(),
                });
            }
        }
        let Some(mu) = found else { continue };
        out.push(Case {
            index: 0,
            class: mu.class,
            sub: mu.sub,
            s1: cmds[..p].to_vec(),
            bad: mu.bad,
            probes: mu.probes,
            s2: cmds[p..].to_vec(),
        });
    }
    out
}

struct CmpResult {
    violations: Vec<Violation>,
    skipped_mode: bool,
    accepted: bool,
    bad_class: String,
}

/// run `with` (bad command at `bad_index`) and `without` on one EGraph each and compare
fn compare_sessions(mode: Mode, with: &[String], bad_index: usize, dump_names: &[String], sub: &str) -> CmpResult {
    let mut without: Vec<String> = with.to_vec();
    without.remove(bad_index);
    let a = run_session(mode, with, dump_names);
    let b = run_session(mode, &without, dump_names);
    let input = serde_json::json!({"kind": "session", "mode": mode.name(), "with": with, "bad_index": bad_index,
                                    "dump": dump_names, "sub": sub});
    let mut res = CmpResult { violations: vec![], skipped_mode: false, accepted: false, bad_class: String::new() };
    if mode != Mode::Plain && b.outcomes.iter().any(|o| matches!(o, Outcome::Err("unsupported-proof"))) {
        res.skipped_mode = true;
        return res;
    }
    // names the rejected command mentions: a known "declaration left behind" finding can only show
    // at a later command that mentions one of them
    let bad_names: Vec<String> = with[bad_index]
        .split(|c: char| c == '(' || c == ')' || c.is_whitespace())
        .filter(|t| !t.is_empty())
        .map(|t| t.to_string())
        .collect();
    let mentions_bad_name = |text: &str| -> bool {
        text.split(|c: char| c == '(' || c == ')' || c.is_whitespace()).any(|t| !t.is_empty() && bad_names.iter().any(|b| b == t))
    };
    // `decl_only`: the observed difference is a declaration-visibility difference (a name resolves or
    // not / is already bound or not, or the known `no entry found for key` panic on a declared-but-
    // tableless function), not a difference in database contents, rules or rulesets
    let kk = |prefix: &str, decl_only: bool| -> String {
        match gen::known_key(sub) {
            Some(k) if decl_only || k.starts_with("F9") => k.to_string(),
            Some(_) => format!("{prefix}-other/{sub}"),
            None => format!("{prefix}/{sub}"),
        }
    };
    if b.panicked {
        let k = b.outcomes.len() - 1;
        res.violations.push(Violation {
            what: format!(
                "[{}] the session WITHOUT the ill-typed command panics at command {}: `{}`: {}",
                mode.name(), k, without[k], b.outcomes[k].short()
            ),
            key: format!("panic-baseline/{sub}"),
            input: input.clone(),
        });
        return res;
    }
    if a.panicked {
        let k = a.outcomes.len() - 1;
        let bad_o = a.outcomes.get(bad_index).map(|o| o.short()).unwrap_or_default();
        res.violations.push(Violation {
            what: format!(
                "[{}] panic at command {} `{}` after the ill-typed command `{}` ({}) [{}]: {}",
                mode.name(), k, with[k], with[bad_index], bad_o, sub, a.outcomes[k].short()
            ),
            // the listed consequences of a declared-but-tableless function: lib.rs:2700 / lib.rs:744
            // (`no entry found for key`) and, under the term/proof encoding,
            // proofs/proof_encoding_helpers.rs:305 (`Function .. has no recorded sort`)
            key: kk(
                "panic",
                (a.outcomes[k].short().contains("no entry found for key")
                    || a.outcomes[k].short().contains("has no recorded sort")
                    // second let of a global with another sort: the recorded global sort no longer matches
                    // the global's table; a later query on it fails `query_table(..).unwrap()` (lib.rs:2776)
                    || (sub == "shadow-decl/let-twice" && a.outcomes[k].short().contains("query_table: mismatch")))
                    && mentions_bad_name(&with[k]),
            ),
            input,
        });
        return res;
    }
    match &a.outcomes[bad_index] {
        Outcome::Err(c) if is_pre_exec(c) => res.bad_class = c.to_string(),
        other => {
            res.accepted = true;
            res.bad_class = other.short();
            return res;
        }
    }
    // the session must continue exactly as if the command had not been issued
    for i in 0..without.len() {
        let j = if i < bad_index { i } else { i + 1 };
        if a.outcomes[j] != b.outcomes[i] {
            res.violations.push(Violation {
                what: format!(
                    "[{}] the rejected command `{}` ({}) [{}] changed a later command: `{}` gives {} but {} without it",
                    mode.name(), with[bad_index], res.bad_class, sub, without[i], a.outcomes[j].short(), b.outcomes[i].short()
                ),
                key: kk(
                    "effect",
                    mentions_bad_name(&without[i])
                        && !(matches!(a.outcomes[j], Outcome::Ok(_)) && matches!(b.outcomes[i], Outcome::Ok(_)))
                        && !matches!(a.outcomes[j], Outcome::Err("no-such-ruleset") | Outcome::Err("rule-exists"))
                        && !matches!(b.outcomes[i], Outcome::Err("no-such-ruleset") | Outcome::Err("rule-exists")),
                ),
                input,
            });
            return res;
        }
    }
    if a.dump != b.dump {
        let dd = a.dump.iter().zip(b.dump.iter()).find(|(x, y)| x != y);
        // existence of a table for a name of the bad command (err vs ok) is declaration visibility;
        // two different contents (ok vs ok) is a database effect
        let decl_only = dd
            .map(|(x, y)| mentions_bad_name(x.split(':').next().unwrap_or("")) && !(x.contains(": ok[") && y.contains(": ok[")))
            .unwrap_or(false);
        let d = dd.map(|(x, y)| format!("{x} vs {y}")).unwrap_or_default();
        res.violations.push(Violation {
            what: format!(
                "[{}] the rejected command `{}` ({}) [{}] changed the final dump: {}",
                mode.name(), with[bad_index], res.bad_class, sub, d
            ),
            key: kk("effect", decl_only),
            input,
        });
    }
    res
}

// ------------------------------------------------------------------------------------------
// model cases (plain mode): three-valued result and declaration-state digest after every command

fn sref(s: &str) -> String {
    if s == "i64" {
        return "(SN (U 0))".into();
    }
    if s == "String" {
        return "(SN (U 1))".into();
    }
    if let Some(k) = s.strip_prefix("$n").and_then(|x| x.parse::<usize>().ok()) {
        return format!("(SN (G {k}))");
    }
    if let Some(k) = s.strip_prefix('n').and_then(|x| x.parse::<usize>().ok()) {
        return format!("(SN (U {k}))");
    }
    "SRel".into()
}

fn obs_coq(o: &NameObs) -> String {
    format!(
        "({}, {}, {}, {})",
        coq_bool(o.is_sort),
        match &o.sig {
            None => "None".to_string(),
            Some((c, i, out)) => format!("(Some ({}, {}, {}))", coq_bool(*c), clist(i.iter().map(|s| sref(s))), sref(out)),
        },
        coq_bool(o.is_global),
        coq_bool(o.has_table)
    )
}

/// returns the Coq case term, and the per-command result kinds (for histograms)
fn model_case(cmds: &[Cmd]) -> (String, Vec<&'static str>) {
    let mut ns = Vec::new();
    for c in cmds {
        c.names(&mut ns);
    }
    ns.sort();
    ns.dedup();
    ns.retain(|n| !matches!(n, Name::U(2..=3)));
    let mut eg = Mode::Plain.new_egraph();
    let mut steps = Vec::new();
    let mut kinds = Vec::new();
    let mut used = Vec::new();
    for c in cmds {
        let o = run_text(&mut eg, &c.text());
        let res = match &o {
            Outcome::Ok(_) => "OAccept",
            Outcome::Err(k) if is_pre_exec(k) => "OReject",
            Outcome::Err(_) => "OAccept",
            Outcome::Panic(_) => "OPanic",
        };
        kinds.push(res);
        used.push(c.clone());
        if res == "OPanic" {
            steps.push(format!("({res}, [])"));
            std::mem::forget(eg);
            break;
        }
        // full digest after the last command and after every rejected command; otherwise the names the
        // command mentions (the state is cumulative, so a stray change surfaces in a later full digest)
        let full = used.len() == cmds.len() || res == "OReject";
        let mut mentioned = Vec::new();
        c.names(&mut mentioned);
        let sel: Vec<&Name> = ns.iter().filter(|n| full || mentioned.contains(n)).collect();
        let obs = clist(sel.iter().map(|n| format!("({}, {})", n.coq(), obs_coq(&observe(&mut eg, &n.text())))));
        steps.push(format!("({res}, {obs})"));
    }
    let term = format!("({},\n  {})", clist(used.iter().map(|c| format!("({})", c.coq()))), clist(steps.into_iter()));
    (term, kinds)
}

// ------------------------------------------------------------------------------------------
// byte-level stream driver

fn run_bytes(o: &Opts, inputs: &[bytes::ByteInput], hist: &mut BTreeMap<String, usize>) -> Vec<Violation> {
    let exe = std::env::current_exe().unwrap();
    let batch = o.out.join("bytes_batch.bin");
    let log = o.out.join("bytes_log.txt");
    let mut data = Vec::new();
    for i in inputs {
        data.push(i.run as u8);
        data.extend((i.text.len() as u32).to_le_bytes());
        data.extend(i.text.as_bytes());
    }
    std::fs::write(&batch, data).unwrap();
    let mut viol = Vec::new();
    let mut from = 0usize;
    let mut results: Vec<Option<String>> = vec![None; inputs.len()];
    let mut restarts = 0;
    while from < inputs.len() && restarts < 200 {
        let _ = std::fs::remove_file(&log);
        let mut child = std::process::Command::new(&exe)
            .args(["--child-bytes", batch.to_str().unwrap(), log.to_str().unwrap(), &from.to_string()])
            .stdout(std::process::Stdio::null())
            .stderr(std::process::Stdio::null())
            .spawn()
            .expect("spawn child");
        // watchdog: kill when the log has not grown for 120 s
        let mut last_len = 0u64;
        let mut idle = 0u32;
        let status = loop {
            match child.try_wait().unwrap() {
                Some(st) => break Some(st),
                None => {
                    std::thread::sleep(std::time::Duration::from_millis(50));
                    let l = std::fs::metadata(&log).map(|m| m.len()).unwrap_or(0);
                    if l == last_len {
                        idle += 1
                    } else {
                        idle = 0;
                        last_len = l
                    }
                    if idle > 2400 {
                        let _ = child.kill();
                        let _ = child.wait();
                        break None;
                    }
                }
            }
        };
        let txt = std::fs::read_to_string(&log).unwrap_or_default();
        let mut started: Option<usize> = None;
        for line in txt.lines() {
            if let Some(i) = line.strip_prefix("S ") {
                started = i.parse().ok();
            } else if let Some(rest) = line.strip_prefix("R ") {
                let mut it = rest.splitn(2, ' ');
                let i: usize = it.next().unwrap().parse().unwrap();
                results[i] = Some(it.next().unwrap_or("").to_string());
                started = None;
            }
        }
        match started {
            Some(i) => {
                // the child died (or hung) inside input i
                results[i] = Some(if status.is_none() { "timeout".into() } else { format!("abort {:?}", status.unwrap()) });
                from = i + 1;
                restarts += 1;
            }
            None => {
                if status.map(|s| s.success()).unwrap_or(false) {
                    break;
                }
                // died between inputs: should not happen; skip one to guarantee progress
                from = results.iter().position(|r| r.is_none()).unwrap_or(inputs.len());
                restarts += 1;
            }
        }
    }
    for (inp, res) in inputs.iter().zip(results.iter()) {
        let res = res.clone().unwrap_or_else(|| "not-run".into());
        let kind = res.split(' ').next().unwrap_or("").to_string();
        let lab = inp.label.split('/').next().unwrap_or("").to_string();
        *hist.entry(format!("{lab}:{}", if kind == "ok" || kind == "err" { res.clone() } else { kind.clone() })).or_insert(0) += 1;
        if kind == "panic" || kind == "abort" {
            let deep = inp.label.starts_with("deep/");
            let key = if deep && kind == "abort" {
                "F11-deep-nesting-stack-overflow".to_string()
            } else {
                format!("bytes-{kind}/{}", inp.label)
            };
            let shown: String = inp.replay.chars().take(300).collect();
            viol.push(Violation {
                what: format!("input `{shown}` ({}): {res} ({})", inp.label, if inp.run { "parse_and_run_program" } else { "parse_program" }),
                key,
                input: serde_json::json!({"kind": "bytes", "run": inp.run, "replay": inp.replay, "label": inp.label}),
            });
        }
    }
    let _ = std::fs::remove_file(&batch);
    viol
}

fn read_egg_files() -> Vec<(String, String)> {
    // the repository under test is the one this binary was built against
    let repo = std::env::var("VERIF_REPO").unwrap_or_else(|_| "/repo".into());
    let mut v = Vec::new();
    if let Ok(rd) = std::fs::read_dir(format!("{repo}/tests")) {
        for e in rd.flatten() {
            let p = e.path();
            if p.extension().map(|x| x == "egg").unwrap_or(false) {
                if let Ok(s) = std::fs::read_to_string(&p) {
                    if s.len() < 200_000 {
                        v.push((p.file_name().unwrap().to_string_lossy().to_string(), s));
                    }
                }
            }
        }
    }
    v.sort();
    v
}

fn bytes_from_replay(rep: &str, run: bool, label: &str, eggs: &[(String, String)]) -> bytes::ByteInput {
    let text = if let Some(rest) = rep.strip_prefix("deep:") {
        let mut it = rest.split(':');
        let shape = it.next().unwrap_or("");
        let d: usize = it.next().and_then(|x| x.parse().ok()).unwrap_or(0);
        bytes::deep_text(shape, d)
    } else if let Some(rest) = rep.strip_prefix("prefix:") {
        let mut it = rest.rsplitn(2, ':');
        let c: usize = it.next().and_then(|x| x.parse().ok()).unwrap_or(0);
        let name = it.next().unwrap_or("");
        eggs.iter().find(|(n, _)| n == name).map(|(_, s)| s[..c.min(s.len())].to_string()).unwrap_or_default()
    } else {
        rep.to_string()
    };
    bytes::ByteInput { label: label.to_string(), run, text, replay: rep.to_string() }
}

// ------------------------------------------------------------------------------------------

fn run_all(o: &Opts) -> i32 {
    install_panic_hook();
    let header = "From Coq Require Import List NArith.\nImport ListNotations.\nRequire Import Verif.Base.Cases Verif.Session.Pipeline.\n";
    let mut w = CaseWriter::new(&o.out, "cases_session", header, "check_case", 60);
    let mut violations: Vec<Violation> = Vec::new();
    let mut class_hist: BTreeMap<String, usize> = BTreeMap::new();
    let mut sub_hist: BTreeMap<String, usize> = BTreeMap::new();
    let mut badclass_hist: BTreeMap<String, usize> = BTreeMap::new();
    let mut cmd_hist: BTreeMap<String, usize> = BTreeMap::new();
    let mut mode_hist: BTreeMap<String, usize> = BTreeMap::new();
    let mut result_hist: BTreeMap<String, usize> = BTreeMap::new();
    let mut bytes_hist: BTreeMap<String, usize> = BTreeMap::new();
    let mut samples: Vec<serde_json::Value> = Vec::new();
    let mut nontrivial = 0usize;
    let mut distinct: std::collections::HashSet<String> = Default::default();
    let eggs = read_egg_files();

    // ---- replay / corpus inputs -------------------------------------------------------------
    let mut replay_inputs: Vec<serde_json::Value> = Vec::new();
    let corpus_dir = std::path::Path::new(env!("CARGO_MANIFEST_DIR")).join("../corpus/C09");
    if o.replay.is_none() {
        if let Ok(rd) = std::fs::read_dir(&corpus_dir) {
            let mut ps: Vec<_> = rd.flatten().map(|e| e.path()).filter(|p| p.extension().map(|x| x == "json").unwrap_or(false)).collect();
            ps.sort();
            for p in ps {
                if let Ok(v) = serde_json::from_str::<serde_json::Value>(&std::fs::read_to_string(&p).unwrap_or_default()) {
                    replay_inputs.push(v);
                }
            }
        }
    } else {
        let txt = std::fs::read_to_string(o.replay.as_ref().unwrap()).expect("replay file");
        let v: serde_json::Value = serde_json::from_str(&txt).expect("json");
        // either a bare input, or an evidence replay file with .violation.input
        let inp = if v.get("kind").and_then(|k| k.as_str()).map(|k| k == "session" || k == "bytes").unwrap_or(false) {
            v.clone()
        } else {
            v["violation"]["input"].clone()
        };
        replay_inputs.push(inp);
    }
    let mut replay_bytes: Vec<bytes::ByteInput> = Vec::new();
    let mut total_evals = 0usize;
    for inp in &replay_inputs {
        match inp["kind"].as_str() {
            Some("session") => {
                let with: Vec<String> = inp["with"].as_array().map(|a| a.iter().map(|x| x.as_str().unwrap_or("").to_string()).collect()).unwrap_or_default();
                let bad = inp["bad_index"].as_u64().unwrap_or(0) as usize;
                let dump: Vec<String> = inp["dump"].as_array().map(|a| a.iter().map(|x| x.as_str().unwrap_or("").to_string()).collect()).unwrap_or_default();
                let sub = inp["sub"].as_str().unwrap_or("replay").to_string();
                let sub: &'static str = Box::leak(sub.into_boxed_str());
                let modes: Vec<Mode> = match inp["mode"].as_str() {
                    Some("all") | None => vec![Mode::Plain, Mode::Term, Mode::Proofs],
                    Some(m) => vec![Mode::parse(m)],
                };
                for m in modes {
                    if bad < with.len() {
                        let mut r = compare_sessions(m, &with, bad, &dump, sub);
                        *mode_hist.entry(format!("replay:{}", m.name())).or_insert(0) += 1;
                        total_evals += 1;
                        if let Some(k) = inp["key"].as_str() {
                            for v in r.violations.iter_mut() {
                                v.key = k.to_string();
                            }
                        }
                        violations.extend(r.violations);
                    }
                }
            }
            Some("bytes") => {
                replay_bytes.push(bytes_from_replay(
                    inp["replay"].as_str().unwrap_or(""),
                    inp["run"].as_bool().unwrap_or(true),
                    inp["label"].as_str().unwrap_or("replay"),
                    &eggs,
                ));
            }
            _ => {}
        }
    }

    if o.replay.is_some() {
        if !replay_bytes.is_empty() {
            violations.extend(run_bytes(o, &replay_bytes, &mut bytes_hist));
            total_evals += replay_bytes.len();
        }
    } else {
        // ---- (i) byte-level stream ------------------------------------------------------------
        let mut inputs = replay_bytes;
        inputs.extend(bytes::generate(o.seed, o.thorough, &eggs));
        total_evals += inputs.len();
        let t0 = std::time::Instant::now();
        violations.extend(run_bytes(o, &inputs, &mut bytes_hist));
        bytes_hist.insert("_wall_ms".into(), t0.elapsed().as_millis() as usize);

        // ---- (ii)+(iii) structured stream -----------------------------------------------------------
        let nsessions = if o.thorough { 700 } else { 48 };
        let mut cases: Vec<Case> = Vec::new();
        for s in 0..nsessions {
            for mut c in gen_cases(o.seed, s, o.thorough) {
                c.index = cases.len();
                cases.push(c);
            }
        }
        struct Out {
            viol: Vec<Violation>,
            modes: Vec<(Mode, bool, bool, String)>,
            model: (String, Vec<&'static str>),
        }
        let nthreads = std::thread::available_parallelism().map(|n| n.get()).unwrap_or(4).min(16);
        let next = std::sync::atomic::AtomicUsize::new(0);
        let outs: std::sync::Mutex<Vec<Option<Out>>> = std::sync::Mutex::new((0..cases.len()).map(|_| None).collect());
        let thorough = o.thorough;
        std::thread::scope(|sc| {
            for _ in 0..nthreads {
                let h = std::thread::Builder::new().stack_size(256 << 20);
                h.spawn_scoped(sc, || loop {
                    let i = next.fetch_add(1, std::sync::atomic::Ordering::SeqCst);
                    if i >= cases.len() {
                        break;
                    }
                    let c = &cases[i];
                    let with_cmds = c.with_cmds();
                    let with: Vec<String> = with_cmds.iter().map(|x| x.text()).collect();
                    let dn = c.dump_names();
                    let mut out = Out { viol: vec![], modes: vec![], model: (String::new(), vec![]) };
            let modelled = with_cmds.iter().all(|x| x.is_modelled());
                    let modes: Vec<Mode> = if thorough || i % 3 == 0 { vec![Mode::Plain, Mode::Term, Mode::Proofs] } else { vec![Mode::Plain] };
                    for m in modes {
                        let r = compare_sessions(m, &with, c.s1.len(), &dn, c.sub);
                        out.modes.push((m, r.skipped_mode, r.accepted, r.bad_class.clone()));
                        out.viol.extend(r.violations);
                    }
                    if modelled {
                        out.model = model_case(&with_cmds);
                    }
                    outs.lock().unwrap()[i] = Some(out);
                })
                .unwrap();
            }
        });
        let outs = outs.into_inner().unwrap();
        for (c, out) in cases.iter().zip(outs.into_iter()) {
            let out = out.expect("case result");
            total_evals += 1;
            *class_hist.entry(c.class.to_string()).or_insert(0) += 1;
            *sub_hist.entry(c.sub.to_string()).or_insert(0) += 1;
            for cmd in c.s1.iter().chain(c.s2.iter()) {
                *cmd_hist.entry(cmd.kind().to_string()).or_insert(0) += 1;
            }
            for (m, skipped, accepted, bc) in &out.modes {
                let k = if *skipped { "skipped-unsupported" } else if *accepted { "mutation-not-rejected" } else { "compared" };
                *mode_hist.entry(format!("{}:{k}", m.name())).or_insert(0) += 1;
                if *m == Mode::Plain {
                    *badclass_hist.entry(bc.clone()).or_insert(0) += 1;
                }
            }
            for k in &out.model.1 {
                *result_hist.entry(k.to_string()).or_insert(0) += 1;
            }
            // non-trivial: at least 3 valid commands before and 2 after the rejected command
            let rejected = out.modes.iter().any(|(m, s, a, _)| *m == Mode::Plain && !*s && !*a);
            let key = c.with_cmds().iter().map(|x| x.text()).collect::<Vec<_>>().join(" ");
            if distinct.insert(key) && rejected && c.s1.len() >= 3 && c.s2.len() + c.probes.len() >= 2 {
                nontrivial += 1;
            }
            if samples.len() < 4 && c.s1.len() >= 3 && c.index % 7 == 3 {
                samples.push(serde_json::json!({"sub": c.sub, "s1": c.s1.iter().map(|x| x.text()).collect::<Vec<_>>(),
                    "bad": c.bad.text(), "probes": c.probes.iter().map(|x| x.text()).collect::<Vec<_>>(),
                    "s2": c.s2.iter().map(|x| x.text()).collect::<Vec<_>>(),
                    "bad_rejected_as": out.modes.first().map(|m| m.3.clone())}));
            }
            violations.extend(out.viol);
            if !out.model.0.is_empty() {
                w.push(out.model.0);
            } else {
                *result_hist.entry("not-modelled-session(rewrite)".into()).or_insert(0) += 1;
            }
        }
    }
    w.flush();

    // one violation per key first (stable), capped
    let mut seen_keys: BTreeMap<String, usize> = BTreeMap::new();
    let mut vout: Vec<serde_json::Value> = Vec::new();
    for v in &violations {
        let n = seen_keys.entry(v.key.clone()).or_insert(0);
        *n += 1;
        if *n <= 2 && vout.len() < 60 {
            vout.push(serde_json::json!({"what": v.what, "key": v.key, "input": v.input}));
        }
    }
    let report = serde_json::json!({
        "sub": "session",
        "cases": total_evals,
        "shards": w.shards,
        "distinct_nontrivial": nontrivial,
        "rule": "byte stream (fixed odd inputs, deep nesting, random bytes, token soups, prefix truncations of tests/*.egg) run in child processes under an 8 MiB stack; structured stream: seeded valid sessions (sorts, datatypes, constructors, functions with merge, relations, rulesets, rules, lets, sets, unions, runs, checks, push/pop) with one ill-typed mutation of each listed class at every position, S1;bad;probes;S2 vs S1;probes;S2 on one EGraph each in plain (all) and term-encoding/proof mode (every third case in quick, all in thorough). A structured case is non-trivial iff the bad command was rejected before execution and >= 3 valid commands precede and >= 2 commands follow it; distinct by full command text",
        "samples": samples,
        "violations": vout,
        "violation_keys_hist": seen_keys,
        "class_hist": class_hist,
        "subclass_hist": sub_hist,
        "bad_command_error_hist": badclass_hist,
        "valid_command_hist": cmd_hist,
        "mode_hist": mode_hist,
        "model_result_hist": result_hist,
        "bytes_hist": bytes_hist,
        "extra_coverage": {
            "never_panics_is_testing": "the 'no panic / no abort' clause of C09 is decided by this harness only (catch_unwind + child processes); it is testing, not a theorem",
        },
    });
    std::fs::write(o.out.join("impl_report.json"), serde_json::to_string(&report).unwrap()).unwrap();
    0
}
