//! C10: schedules mean what they say.
//!
//! Generates small monotone egglog programs (a datatype, rewrites / rules / a merge function in
//! three rulesets r0 r1 r2, a combined ruleset `c = r0 + r1` declared BEFORE some of the rules
//! are added to r0/r1, and a plain ruleset `u` holding copies of everything currently in r0 and
//! r1) and pairs of schedules related by the laws of the property.  Each side runs on a fresh
//! `egglog::EGraph`; the predicate on the implementation is equality of canonical dumps
//! (print-size, the full contents of the i64 relations, `(check ..)` outcomes for a fixed list of
//! ground facts, extraction costs) plus what the RunReport says (updated / iterations).
//!
//! It also writes cases for the Coq model (`Sched/Algebra.v: check_any`): for a composite
//! schedule the engine's RunReport gives, per iteration, the `changed` flag and (through a
//! per-ruleset `:naive` marker rule that matches in every iteration) which ruleset ran.  The
//! harness replays that leaf sequence one `EGraph::step_rules` at a time on a second e-graph
//! (flags and final dump must agree), records at every position which `:until` fact sets hold,
//! and the translated `run_schedule`, fed an oracle replaying flags and `:until` outcomes, must
//! perform the same leaf steps in the same order and return the same updated / can_stop.
use egglog::{CommandOutput, EGraph};
use egglog_reports::{IterationReport, RunReport};
use std::collections::{BTreeMap, BTreeSet, HashSet};
use std::panic::{catch_unwind, AssertUnwindSafe};
use verif_harness::util::*;
use verif_harness::Opts;

// ------------------------------------------------------------------------------------------
// programs

const RS_NAMES: [&str; 5] = ["r0", "r1", "r2", "comb", "uni"];

/// (base name, text with {RS} / {N} placeholders)
const POOL: &[(&str, &str)] = &[
    ("comm-add", "(rewrite (Add a b) (Add b a) :ruleset {RS} :name \"{N}\")"),
    ("comm-mul", "(rewrite (Mul a b) (Mul b a) :ruleset {RS} :name \"{N}\")"),
    ("assoc-add", "(rewrite (Add (Add a b) c) (Add a (Add b c)) :ruleset {RS} :name \"{N}\")"),
    ("add-zero", "(rewrite (Add a (Num 0)) a :ruleset {RS} :name \"{N}\")"),
    ("mul-one", "(rewrite (Mul a (Num 1)) a :ruleset {RS} :name \"{N}\")"),
    ("neg-neg", "(rewrite (Neg (Neg a)) a :ruleset {RS} :name \"{N}\")"),
    ("fold-add", "(rewrite (Add (Num x) (Num y)) (Num (+ x y)) :ruleset {RS} :name \"{N}\")"),
    ("fold-mul", "(rewrite (Mul (Num x) (Num y)) (Num (* x y)) :ruleset {RS} :name \"{N}\")"),
    ("distribute", "(rewrite (Mul a (Add b c)) (Add (Mul a b) (Mul a c)) :ruleset {RS} :name \"{N}\")"),
    ("edge-path", "(rule ((edge x y)) ((path x y)) :ruleset {RS} :name \"{N}\")"),
    ("trans", "(rule ((path x y) (edge y z)) ((path x z)) :ruleset {RS} :name \"{N}\")"),
    ("sym", "(rule ((path x y)) ((path y x)) :ruleset {RS} :name \"{N}\")"),
    ("isadd", "(rule ((= e (Add a b))) ((isadd e)) :ruleset {RS} :name \"{N}\")"),
    ("num-succ", "(rule ((= e (Num x)) (< x 3)) ((Num (+ x 1))) :ruleset {RS} :name \"{N}\")"),
    ("lo-num", "(rule ((= e (Num x))) ((set (lo e) x)) :ruleset {RS} :name \"{N}\")"),
    ("lo-add", "(rule ((= e (Add a b)) (= la (lo a)) (= lb (lo b))) ((set (lo e) (+ la lb))) :ruleset {RS} :name \"{N}\")"),
    ("path-num", "(rule ((path x y) (< x y) (< y 3)) ((Num y)) :ruleset {RS} :name \"{N}\")"),
];

#[derive(Clone)]
struct Prog {
    text: String,
    /// ground facts checked in the dump
    checks: Vec<String>,
    terms: Vec<String>,
    /// `:until` fact sets (text of the facts, without the enclosing parens of the option)
    untils: Vec<String>,
    /// rules in r0 / r1 that were added after the combination
    after_in_c: usize,
    /// marker rule ids per base ruleset, in insertion order (for the collect case)
    marker_ids: Vec<Vec<usize>>,
    nrules: usize,
}

fn gen_term(r: &mut Rng, depth: usize) -> String {
    if depth == 0 || r.chance(1, 4) {
        return format!("(Num {})", r.below(4));
    }
    match r.below(7) {
        0 | 1 | 2 => format!("(Add {} {})", gen_term(r, depth - 1), gen_term(r, depth - 1)),
        3 | 4 => format!("(Mul {} {})", gen_term(r, depth - 1), gen_term(r, depth - 1)),
        5 => format!("(Neg {})", gen_term(r, depth - 1)),
        _ => format!("(Add {} (Num 0))", gen_term(r, depth - 1)),
    }
}

fn gen_prog(r: &mut Rng) -> Prog {
    let mut t = String::new();
    t.push_str("(datatype E (Num i64) (Add E E) (Mul E E) (Neg E))\n");
    t.push_str("(relation edge (i64 i64))\n(relation path (i64 i64))\n(relation isadd (E))\n");
    t.push_str("(function lo (E) i64 :merge (min old new))\n(relation mark ())\n(mark)\n");
    t.push_str("(ruleset r0)\n(ruleset r1)\n(ruleset r2)\n(ruleset uni)\n");
    let mut marker_ids: Vec<Vec<usize>> = vec![vec![], vec![], vec![]];
    for i in 0..3 {
        t.push_str(&format!("(rule ((mark)) () :ruleset r{i} :name \"mark_r{i}_0\" :naive)\n"));
        marker_ids[i].push(i * 10);
    }
    t.push_str("(rule ((mark)) () :ruleset uni :name \"mark_u\" :naive)\n");
    // choose rules
    let k = r.range(4, 8);
    let mut idxs: Vec<usize> = (0..POOL.len()).collect();
    for i in 0..idxs.len() {
        let j = i + r.below(idxs.len() - i);
        idxs.swap(i, j);
    }
    idxs.truncate(k);
    // termination of saturate: `a = a + 0` (a cyclic class) together with re-bracketing or
    // distribution generates unboundedly many new terms, so these never share a program
    let name = |ix: &usize| POOL[*ix].0;
    if idxs.iter().any(|ix| name(ix) == "assoc-add" || name(ix) == "distribute") {
        idxs.retain(|ix| name(ix) != "add-zero" && name(ix) != "mul-one");
    }
    if idxs.iter().any(|ix| name(ix) == "assoc-add") {
        // x + 0 = x by constant folding is a cyclic class as well
        idxs.retain(|ix| name(ix) != "fold-add");
    }
    let k = idxs.len();
    let mut before: Vec<(usize, usize)> = vec![];
    let mut after: Vec<(usize, usize)> = vec![];
    for &ix in &idxs {
        let rs = r.below(3);
        if r.chance(1, 3) {
            after.push((ix, rs));
        } else {
            before.push((ix, rs));
        }
    }
    let emit = |t: &mut String, ix: usize, rs: &str| {
        let (base, txt) = POOL[ix];
        t.push_str(&txt.replace("{RS}", rs).replace("{N}", &format!("{base}@{rs}")));
        t.push('\n');
    };
    for &(ix, rs) in &before {
        emit(&mut t, ix, RS_NAMES[rs]);
    }
    t.push_str("(unstable-combined-ruleset comb r0 r1)\n");
    for &(ix, rs) in &after {
        emit(&mut t, ix, RS_NAMES[rs]);
    }
    // second markers added after the combination (so that membership is observable)
    for i in 0..3 {
        if r.chance(1, 2) {
            t.push_str(&format!("(rule ((mark)) () :ruleset r{i} :name \"mark_r{i}_1\" :naive)\n"));
            marker_ids[i].push(i * 10 + 1);
        }
    }
    // u = copies of everything currently in r0 and r1
    for &(ix, rs) in before.iter().chain(after.iter()) {
        if rs < 2 {
            emit(&mut t, ix, "uni");
        }
    }
    let after_in_c = after.iter().filter(|(_, rs)| *rs < 2).count();
    // data
    let nterms = r.range(2, 3);
    let mut terms = vec![];
    let no_zero = idxs.iter().any(|ix| name(ix) == "assoc-add" || name(ix) == "distribute");
    for i in 0..nterms {
        let d = r.range(1, 2);
        let mut term = gen_term(r, d);
        if no_zero {
            // x + 0 = x makes a class its own summand; re-bracketing / distribution then never saturate
            term = term.replace("(Num 0)", "(Num 1)");
        }
        t.push_str(&format!("(let t{i} {})\n", term));
        terms.push(format!("t{i}"));
    }
    let nedges = r.range(2, 6);
    let mut edges = BTreeSet::new();
    for _ in 0..nedges {
        edges.insert((r.below(5), r.below(5)));
    }
    for (a, b) in &edges {
        t.push_str(&format!("(edge {a} {b})\n"));
    }
    // ground facts of the dump
    let mut checks = vec![];
    for i in 0..nterms {
        for j in i + 1..nterms {
            checks.push(format!("(= t{i} t{j})"));
        }
        for k in 0..5 {
            checks.push(format!("(= t{i} (Num {k}))"));
        }
        checks.push(format!("(isadd t{i})"));
        for k in 0..5 {
            checks.push(format!("(= (lo t{i}) {k})"));
        }
    }
    // until fact sets
    let mut untils = vec![];
    let ev: Vec<(usize, usize)> = edges.iter().cloned().collect();
    for _ in 0..2 {
        let f = match r.below(9) {
            0 | 1 => format!("(path {} {})", r.below(5), r.below(5)),
            6 => {
                let (a, b) = *r.pick(&ev);
                format!("(edge {a} {b})")
            }
            7 | 8 => {
                // a path along two or three edges when there is one
                let (a, b) = *r.pick(&ev);
                let nexts: Vec<usize> = ev.iter().filter(|(x, _)| *x == b).map(|(_, y)| *y).collect();
                if nexts.is_empty() {
                    format!("(path {a} {b})")
                } else {
                    let c2 = *r.pick(&nexts);
                    let nn: Vec<usize> = ev.iter().filter(|(x, _)| *x == c2).map(|(_, y)| *y).collect();
                    if !nn.is_empty() && r.chance(1, 2) {
                        format!("(path {a} {})", r.pick(&nn))
                    } else {
                        format!("(path {a} {c2})")
                    }
                }
            }
            2 => format!("(= t0 t{})", nterms - 1),
            3 => format!("(= t{} (Num {}))", r.below(nterms), r.below(5)),
            4 => format!("(isadd t{})", r.below(nterms)),
            _ => format!("(path {} {}) (path {} {})", r.below(5), r.below(5), r.below(5), r.below(5)),
        };
        untils.push(f);
    }
    Prog { text: t, checks, terms, untils, after_in_c, marker_ids, nrules: k }
}

// ------------------------------------------------------------------------------------------
// schedules (surface syntax as the parser sees it; `coq()` is the parsed form)

#[derive(Clone, Debug, PartialEq, Eq, Hash)]
enum S {
    Run(usize, Option<usize>),
    Repeat(usize, Vec<S>),
    Saturate(Vec<S>),
    Seq(Vec<S>),
}

impl S {
    fn text(&self, p: &Prog) -> String {
        match self {
            S::Run(rs, None) => RS_NAMES[*rs].to_string(),
            S::Run(rs, Some(f)) => format!("(run {} :until {})", RS_NAMES[*rs], p.untils[*f]),
            S::Repeat(n, b) => format!("(repeat {} {})", n, b.iter().map(|x| x.text(p)).collect::<Vec<_>>().join(" ")),
            S::Saturate(b) => format!("(saturate {})", b.iter().map(|x| x.text(p)).collect::<Vec<_>>().join(" ")),
            S::Seq(b) => format!("(seq {})", b.iter().map(|x| x.text(p)).collect::<Vec<_>>().join(" ")),
        }
    }
    /// the schedule the parser builds (parse.rs:859-915): repeat / saturate wrap their bodies in a Sequence
    fn coq(&self) -> String {
        match self {
            S::Run(rs, None) => format!("Run (mkConfig {rs} None)"),
            S::Run(rs, Some(f)) => format!("Run (mkConfig {rs} (Some {f}))"),
            S::Repeat(n, b) => format!("Repeat {} (Sequence {})", n, coq_list(b, |x| x.coq())),
            S::Saturate(b) => format!("Saturate (Sequence {})", coq_list(b, |x| x.coq())),
            S::Seq(b) => format!("Sequence {}", coq_list(b, |x| x.coq())),
        }
    }
    fn has_saturate(&self) -> bool {
        match self {
            S::Run(..) => false,
            S::Saturate(_) => true,
            S::Repeat(_, b) | S::Seq(b) => b.iter().any(|x| x.has_saturate()),
        }
    }
}

fn gen_leaf(r: &mut Rng, allow_until: bool) -> S {
    let rs = if r.chance(1, 4) { 3 } else { r.below(3) };
    let u = if allow_until && r.chance(1, 4) { Some(r.below(2)) } else { None };
    S::Run(rs, u)
}

fn gen_sched(r: &mut Rng, depth: usize) -> S {
    if depth == 0 || r.chance(1, 3) {
        return gen_leaf(r, true);
    }
    let n = r.range(1, 3);
    let body: Vec<S> = (0..n).map(|_| gen_sched(r, depth - 1)).collect();
    match r.below(10) {
        0..=3 => S::Repeat(r.range(0, 3), body),
        4..=6 => S::Seq(body),
        _ => S::Saturate(body),
    }
}

// ------------------------------------------------------------------------------------------
// engine access

#[derive(PartialEq, Eq, Clone, Debug)]
struct Dump {
    sizes: Vec<(String, usize)>,
    rels: Vec<String>,
    checks: Vec<bool>,
    costs: Vec<u64>,
}

#[derive(Debug, Clone, PartialEq, Eq, Hash, PartialOrd, Ord)]
enum Fail {
    Panic,
    Error,
}

fn guarded<T>(f: impl FnOnce() -> Result<T, egglog::Error>) -> Result<T, Fail> {
    match catch_unwind(AssertUnwindSafe(f)) {
        Ok(Ok(v)) => Ok(v),
        Ok(Err(e)) => {
            if std::env::var("H_SCHED_DEBUG").is_ok() {
                eprintln!("engine error: {e}");
            }
            Err(Fail::Error)
        }
        Err(_) => Err(Fail::Panic),
    }
}

fn fresh(p: &Prog) -> Result<EGraph, Fail> {
    guarded(|| {
        let mut eg = EGraph::default();
        eg.parse_and_run_program(None, &p.text)?;
        Ok(eg)
    })
}

/// run commands, return the RunReport of every run / run-schedule command
fn run(eg: &mut EGraph, cmds: &str) -> Result<Vec<RunReport>, Fail> {
    guarded(|| {
        let outs = eg.parse_and_run_program(None, cmds)?;
        Ok(outs
            .into_iter()
            .filter_map(|o| match o {
                CommandOutput::RunSchedule(r) => Some(r),
                _ => None,
            })
            .collect())
    })
}

fn holds(eg: &EGraph, facts: &str) -> bool {
    let mut c = eg.clone();
    matches!(catch_unwind(AssertUnwindSafe(|| c.parse_and_run_program(None, &format!("(check {facts})")))), Ok(Ok(_)))
}

fn dump(eg: &EGraph, p: &Prog) -> Result<Dump, Fail> {
    let mut eg = eg.clone();
    let mut sizes = vec![];
    let mut rels = vec![];
    let mut costs = vec![];
    let mut cmds = String::from("(print-size)\n(print-function edge 1000)\n(print-function path 1000)\n");
    for t in &p.terms {
        cmds.push_str(&format!("(extract {t})\n"));
    }
    let outs = guarded(|| eg.parse_and_run_program(None, &cmds))?;
    for o in outs {
        match o {
            CommandOutput::PrintAllFunctionsSize(v) => sizes = v,
            CommandOutput::ExtractBest(_, cost, _) => costs.push(cost as u64),
            o @ CommandOutput::PrintFunction(..) => {
                let mut lines: Vec<String> = o.to_string().lines().map(|l| l.trim().to_string()).filter(|l| !l.is_empty()).collect();
                lines.sort();
                rels.push(lines.join(";"));
            }
            _ => {}
        }
    }
    let checks = p.checks.iter().map(|c| holds(&eg, c)).collect();
    Ok(Dump { sizes, rels, checks, costs })
}

fn flags(r: &RunReport) -> Vec<bool> {
    r.iterations.iter().map(|it| it.changed()).collect()
}

/// which ruleset ran in an iteration, from the marker rules that matched
fn iteration_ruleset(it: &IterationReport) -> (Option<usize>, Vec<usize>) {
    let mut marks: BTreeSet<(usize, usize)> = BTreeSet::new();
    let mut is_u = false;
    for (k, v) in it.rule_set_report.rule_reports.iter() {
        if v.iter().map(|x| x.num_matches).sum::<usize>() == 0 {
            continue;
        }
        if &**k == "mark_u" {
            is_u = true;
        } else if let Some(rest) = k.strip_prefix("mark_r") {
            let mut parts = rest.split('_');
            let rs: usize = parts.next().unwrap().parse().unwrap();
            let j: usize = parts.next().unwrap().parse().unwrap();
            marks.insert((rs, j));
        }
    }
    let rsets: BTreeSet<usize> = marks.iter().map(|m| m.0).collect();
    let ids: Vec<usize> = marks.iter().map(|(rs, j)| rs * 10 + j).collect();
    let which = if is_u && rsets.is_empty() {
        Some(4)
    } else if is_u {
        None
    } else if rsets.len() == 1 {
        Some(*rsets.iter().next().unwrap())
    } else if rsets == [0usize, 1].into_iter().collect() {
        Some(3)
    } else {
        None
    };
    (which, ids)
}

// ------------------------------------------------------------------------------------------

struct Acc {
    violations: Vec<(String, String, String)>, // what, input json, key
    law_hist: BTreeMap<String, usize>,
    iter_hist: BTreeMap<String, usize>,
    fail_hist: BTreeMap<String, usize>,
    shape_hist: BTreeMap<String, usize>,
    distinct: HashSet<String>,
    nontrivial: usize,
    samples: Vec<String>,
    evals: usize,
    early_stop_pairs: usize,
    early_stop_pairs_differ: usize,
    after_rule_essential: usize,
    until_stopped: usize,
}

fn new_acc() -> Acc {
    Acc {
        violations: vec![],
        law_hist: BTreeMap::new(),
        iter_hist: BTreeMap::new(),
        fail_hist: BTreeMap::new(),
        shape_hist: BTreeMap::new(),
        distinct: HashSet::new(),
        nontrivial: 0,
        samples: vec![],
        evals: 0,
        early_stop_pairs: 0,
        early_stop_pairs_differ: 0,
        after_rule_essential: 0,
        until_stopped: 0,
    }
}

impl Acc {
    fn merge(&mut self, o: Acc) {
        self.violations.extend(o.violations);
        for (k, v) in o.law_hist {
            *self.law_hist.entry(k).or_insert(0) += v;
        }
        for (k, v) in o.iter_hist {
            *self.iter_hist.entry(k).or_insert(0) += v;
        }
        for (k, v) in o.fail_hist {
            *self.fail_hist.entry(k).or_insert(0) += v;
        }
        for (k, v) in o.shape_hist {
            *self.shape_hist.entry(k).or_insert(0) += v;
        }
        // distinctness is per (program, schedule): programs are disjoint across workers
        self.distinct.extend(o.distinct);
        self.nontrivial += o.nontrivial;
        if self.samples.len() < 4 {
            self.samples.extend(o.samples.into_iter().take(2));
        }
        self.evals += o.evals;
        self.early_stop_pairs += o.early_stop_pairs;
        self.early_stop_pairs_differ += o.early_stop_pairs_differ;
        self.after_rule_essential += o.after_rule_essential;
        self.until_stopped += o.until_stopped;
    }
    fn violation(&mut self, what: String, seed: u64, index: u64, p: &Prog, law: &str, detail: String) {
        let input = format!(
            "{{\"seed\":{},\"index\":{},\"law\":{},\"program\":{},\"detail\":{}}}",
            seed,
            index,
            json_str(law),
            json_str(&p.text),
            json_str(&detail)
        );
        self.violations.push((what, input, format!("C10:{law}")));
    }
    fn count(&mut self, law: &str, key: String, iters: usize, changed: bool, differs: bool) {
        *self.law_hist.entry(law.to_string()).or_insert(0) += 1;
        let b = match iters {
            0 => "0",
            1..=2 => "1-2",
            3..=6 => "3-6",
            7..=15 => "7-15",
            _ => "16+",
        };
        *self.iter_hist.entry(b.to_string()).or_insert(0) += 1;
        self.evals += 1;
        if self.distinct.insert(key) && iters >= 3 && changed && differs {
            self.nontrivial += 1;
        }
    }
}

/// run `cmds` on a fresh e-graph of `p`; returns (dump, reports)
fn side(p: &Prog, cmds: &str) -> Result<(Dump, Vec<RunReport>, EGraph), Fail> {
    if std::env::var("H_SCHED_DEBUG").is_ok() {
        eprintln!("side: {cmds}");
    }
    let mut eg = fresh(p)?;
    let reps = run(&mut eg, cmds)?;
    let d = dump(&eg, p)?;
    Ok((d, reps, eg))
}

fn saturates_quickly(p: &Prog) -> bool {
    let Ok(mut eg) = fresh(p) else { return false };
    for _ in 0..12 {
        let Ok(reps) = run(&mut eg, "(run-schedule (repeat 4 (seq r0 r1 r2)))\n(print-size)") else { return false };
        let total: usize = match guarded(|| eg.parse_and_run_program(None, "(print-size)")) {
            Ok(outs) => outs
                .iter()
                .map(|o| match o {
                    CommandOutput::PrintAllFunctionsSize(v) => v.iter().map(|x| x.1).sum(),
                    _ => 0,
                })
                .sum(),
            Err(_) => return false,
        };
        if total > 3000 {
            return false;
        }
        if reps[0].can_stop {
            return true;
        }
    }
    false
}

fn total_iters(reps: &[RunReport]) -> usize {
    reps.iter().map(|r| r.iterations.len()).sum()
}
fn any_updated(reps: &[RunReport]) -> bool {
    reps.iter().any(|r| r.updated)
}

fn one_program(seed: u64, index: u64, acc: &mut Acc, w: &mut Vec<String>) {
    let mut r = Rng::for_case(seed, index);
    let p = gen_prog(&mut r);
    let base = match fresh(&p).and_then(|eg| dump(&eg, &p)) {
        Ok(d) => d,
        Err(f) => {
            *acc.fail_hist.entry(format!("program:{f:?}")).or_insert(0) += 1;
            if f == Fail::Panic {
                acc.violation("engine panicked while loading a well-formed program".into(), seed, index, &p, "load", String::new());
            }
            return;
        }
    };
    // only programs whose complete rule set saturates quickly to a small database are used: then
    // every schedule over subsets of the rules terminates (the programs are monotone)
    if !saturates_quickly(&p) {
        *acc.fail_hist.entry("program-discarded:does-not-saturate-in-48-rounds".into()).or_insert(0) += 1;
        return;
    }
    let pk = format!("{:x}", hash_str(&p.text));
    if std::env::var("H_SCHED_DEBUG").is_ok() {
        eprintln!("{}", p.text);
    }
    macro_rules! try_side {
        ($law:expr, $cmds:expr) => {
            match side(&p, $cmds) {
                Ok(x) => x,
                Err(f) => {
                    *acc.fail_hist.entry(format!("{}:{f:?}", $law)).or_insert(0) += 1;
                    acc.violation(format!("engine failed ({f:?}) running a well-typed schedule"), seed, index, &p, $law, $cmds.to_string());
                    return;
                }
            }
        };
    }

    // ---- L1: (run R n) vs n x (run R 1); (run-schedule (repeat n R))
    {
        let rs = if r.chance(1, 4) { 3 } else { r.below(3) };
        let n = r.range(1, 6);
        let a = format!("(run {} {})", RS_NAMES[rs], n);
        let b = (0..n).map(|_| format!("(run {} 1)", RS_NAMES[rs])).collect::<Vec<_>>().join("\n");
        let c = format!("(run-schedule (repeat {} {}))", n, RS_NAMES[rs]);
        let (da, ra, _) = try_side!("run_n", &a);
        let (db, rb, _) = try_side!("run_n", &b);
        let (dc, rc, _) = try_side!("run_n", &c);
        if da != db || da != dc {
            acc.violation(format!("(run R n) and n x (run R 1) / (repeat n R) give different databases"), seed, index, &p, "run_n", format!("{a} || {b} || {c}"));
        }
        // (run R n) = iterations of R until the first one that changes nothing (or n)
        let fb: Vec<bool> = rb.iter().flat_map(flags).collect();
        let expect = match fb.iter().position(|x| !*x) {
            Some(i) => i + 1,
            None => n,
        };
        if flags(&ra[0]) != fb[..expect.min(fb.len())] || flags(&rc[0]) != flags(&ra[0]) {
            acc.violation(
                "(run R n) did not perform exactly the iterations up to the first no-change one".into(),
                seed, index, &p, "run_n_iterations",
                format!("{a}: flags {:?}; single iterations: {:?}", flags(&ra[0]), fb),
            );
        }
        acc.count("run_n", format!("{pk}|{a}"), total_iters(&ra), any_updated(&ra), n > 1);
    }

    // ---- L2: repeat a (repeat b S) vs repeat (a*b) S vs a*b separate executions
    {
        let s = gen_sched(&mut r, 1);
        let (a, b) = (r.range(1, 3), r.range(1, 3));
        let st = s.text(&p);
        let nested = format!("(run-schedule (repeat {a} (repeat {b} {st})))");
        let flat = format!("(run-schedule (repeat {} {st}))", a * b);
        let (dn, rn, _) = try_side!("repeat_mul", &nested);
        let (df, rf, _) = try_side!("repeat_mul", &flat);
        // a*b separate executions, watching can_stop
        let mut eg = match fresh(&p) {
            Ok(e) => e,
            Err(_) => return,
        };
        let mut early = None;
        for i in 0..a * b {
            match run(&mut eg, &format!("(run-schedule (repeat 1 {st}))")) {
                Ok(rep) => {
                    if rep[0].can_stop {
                        early = Some(i);
                        break;
                    }
                }
                Err(_) => return,
            }
        }
        let dsep = dump(&eg, &p).unwrap_or_else(|_| base.clone());
        if df != dsep {
            acc.violation("(repeat n S) differs from executing S until an execution may stop".into(), seed, index, &p, "repeat_def", flat.clone());
        }
        match early {
            None => {
                if dn != df {
                    acc.violation("repeat a (repeat b S) and repeat (a*b) S give different databases (no early stop)".into(), seed, index, &p, "repeat_mul", format!("{nested} || {flat}"));
                }
                if flags(&rn[0]) != flags(&rf[0]) {
                    acc.violation("repeat a (repeat b S) and repeat (a*b) S perform different iterations (no early stop)".into(), seed, index, &p, "repeat_mul_iterations", format!("{nested} || {flat}"));
                }
            }
            Some(_) => {
                acc.early_stop_pairs += 1;
                if dn != df {
                    acc.early_stop_pairs_differ += 1;
                }
            }
        }
        acc.count("repeat_mul", format!("{pk}|{nested}"), total_iters(&rn), any_updated(&rn), a > 1 && b > 1 && early.is_none());
    }

    // ---- L3: seq associativity / flattening
    {
        let (s1, s2, s3) = (gen_sched(&mut r, 1), gen_sched(&mut r, 1), gen_sched(&mut r, 1));
        let (t1, t2, t3) = (s1.text(&p), s2.text(&p), s3.text(&p));
        let v = [
            format!("(run-schedule (seq {t1} (seq {t2} {t3})))"),
            format!("(run-schedule (seq (seq {t1} {t2}) {t3}))"),
            format!("(run-schedule {t1} {t2} {t3})"),
            format!("(run-schedule {t1})\n(run-schedule {t2})\n(run-schedule {t3})"),
        ];
        let (d0, r0, _) = try_side!("seq_assoc", &v[0]);
        for x in &v[1..] {
            let (d, rr, _) = try_side!("seq_assoc", x);
            let f0: Vec<bool> = r0.iter().flat_map(flags).collect();
            let f1: Vec<bool> = rr.iter().flat_map(flags).collect();
            if d != d0 || f0 != f1 {
                acc.violation("re-bracketing a seq changes the database or the iterations performed".into(), seed, index, &p, "seq_assoc", format!("{} || {}", v[0], x));
            }
        }
        acc.count("seq_assoc", format!("{pk}|{}", v[0]), total_iters(&r0), any_updated(&r0), true);
    }

    // ---- L4: seq unit, repeat 1
    {
        let s = gen_sched(&mut r, 2);
        let t = s.text(&p);
        let (d0, r0, _) = try_side!("seq_unit", &format!("(run-schedule {t})"));
        for x in [format!("(run-schedule (seq {t}))"), format!("(run-schedule (repeat 1 {t}))"), format!("(run-schedule (seq) {t} (seq (seq)))")] {
            let (d, rr, _) = try_side!("seq_unit", &x);
            if d != d0 || flags(&rr[0]) != flags(&r0[0]) || rr[0].updated != r0[0].updated {
                acc.violation("(seq S) / (repeat 1 S) / adding empty seqs differs from S".into(), seed, index, &p, "seq_unit", format!("(run-schedule {t}) || {x}"));
            }
        }
        let (d, rr, _) = try_side!("seq_unit", "(run-schedule (seq))");
        if d != base || rr[0].updated || !rr[0].iterations.is_empty() {
            acc.violation("the empty seq is not a no-op".into(), seed, index, &p, "seq_unit", "(run-schedule (seq))".into());
        }
        acc.count("seq_unit", format!("{pk}|{t}"), total_iters(&r0), any_updated(&r0), true);
    }

    // ---- L5: saturate reaches a fixpoint of its body; idempotent
    {
        let s = gen_sched(&mut r, 1);
        let t = s.text(&p);
        let sat = format!("(run-schedule (saturate {t}))");
        let mut eg = match fresh(&p) {
            Ok(e) => e,
            Err(_) => return,
        };
        let r1 = match run(&mut eg, &sat) {
            Ok(x) => x,
            Err(f) => {
                acc.violation(format!("engine failed ({f:?}) running saturate"), seed, index, &p, "saturate", sat);
                return;
            }
        };
        let d1 = dump(&eg, &p).unwrap();
        let r2 = run(&mut eg, &format!("(run-schedule {t})")).unwrap();
        let d2 = dump(&eg, &p).unwrap();
        if r2[0].updated || d2 != d1 {
            acc.violation(
                "after (saturate S) returned, one more execution of S reports an update or changes the database".into(),
                seed, index, &p, "saturate_fix", format!("{sat} then (run-schedule {t}): updated={} dump_changed={}", r2[0].updated, d2 != d1),
            );
        }
        let r3 = run(&mut eg, &sat).unwrap();
        let d3 = dump(&eg, &p).unwrap();
        if r3[0].updated || d3 != d1 {
            acc.violation("re-running a saturated schedule reports an update or changes the database".into(), seed, index, &p, "saturate_idem", sat.clone());
        }
        for x in [format!("(run-schedule (saturate (saturate {t})))"), format!("(run-schedule (saturate {t}) (saturate {t}))")] {
            let (d, _, _) = try_side!("saturate_idem", &x);
            if d != d1 {
                acc.violation("saturate is not idempotent".into(), seed, index, &p, "saturate_idem", format!("{sat} || {x}"));
            }
        }
        acc.count("saturate", format!("{pk}|{sat}"), total_iters(&r1), any_updated(&r1), true);
    }

    // ---- L6: :until
    {
        let rs = if r.chance(1, 4) { 3 } else { r.below(3) };
        let n = r.range(1, 6);
        let f = r.below(2);
        let a = format!("(run {} {} :until {})", RS_NAMES[rs], n, p.untils[f]);
        let (da, ra, ega) = try_side!("until", &a);
        // reference: test the facts before every single iteration
        let mut eg = match fresh(&p) {
            Ok(e) => e,
            Err(_) => return,
        };
        let mut steps = vec![];
        let mut stopped_by_facts = false;
        for _ in 0..n {
            if holds(&eg, &p.untils[f]) {
                stopped_by_facts = true;
                break;
            }
            let rep = run(&mut eg, &format!("(run {} 1)", RS_NAMES[rs])).unwrap();
            steps.push(rep[0].updated);
            if !rep[0].updated {
                break;
            }
        }
        let db = dump(&eg, &p).unwrap();
        if da != db || flags(&ra[0]) != steps {
            acc.violation(
                ":until run differs from testing the facts before every single iteration".into(),
                seed, index, &p, "until", format!("{a}: flags {:?}, reference {:?}", flags(&ra[0]), steps),
            );
        }
        if holds(&fresh(&p).unwrap(), &p.untils[f]) && (!ra[0].iterations.is_empty() || ra[0].updated || da != base) {
            acc.violation(":until facts held at the start but the run did something".into(), seed, index, &p, "until_holds_now", a.clone());
        }
        // stopped early although the last iteration changed something => the facts must hold now
        if ra[0].iterations.len() < n && flags(&ra[0]).last().copied().unwrap_or(true) && !holds(&ega, &p.untils[f]) {
            acc.violation(":until run stopped early without the facts holding".into(), seed, index, &p, "until_early", a.clone());
        }
        if stopped_by_facts {
            acc.until_stopped += 1;
        }
        acc.count("until", format!("{pk}|{a}"), total_iters(&ra), any_updated(&ra), true);
    }

    // ---- L7: combined ruleset = union of the current rules of its members, run in one iteration
    {
        let n = r.range(1, 3);
        let a = format!("(run comb {n})");
        let b = format!("(run uni {n})");
        let (da, ra, _) = try_side!("combined", &a);
        let (db, rb, _) = try_side!("combined", &b);
        if da != db || flags(&ra[0]) != flags(&rb[0]) {
            acc.violation(
                "combined ruleset differs from a plain ruleset holding the current rules of its members".into(),
                seed, index, &p, "combined", format!("{a} || {b}: flags {:?} vs {:?}", flags(&ra[0]), flags(&rb[0])),
            );
        }
        // were the rules added after the combination essential?  (compare with seq r0 r1 is not a law)
        if p.after_in_c > 0 {
            acc.after_rule_essential += 1;
        }
        // model case for collect_rule_ids: markers that matched in the first iteration of c
        if let Some(it) = ra[0].iterations.first() {
            let (which, ids) = iteration_ruleset(it);
            if which != Some(3) {
                acc.violation("an iteration of the combined ruleset did not run exactly the markers of r0 and r1".into(), seed, index, &p, "combined_members", format!("{ids:?}"));
            }
            let table = format!(
                "[(0, Rules {}); (1, Rules {}); (2, Rules {}); (3, Combined [0; 1])]",
                coq_nat_list(&p.marker_ids[0]),
                coq_nat_list(&p.marker_ids[1]),
                coq_nat_list(&p.marker_ids[2])
            );
            w.push(format!("CColl ({}, 3, {})", table, coq_nat_list(&ids)));
        }
        acc.count("combined", format!("{pk}|{a}"), total_iters(&ra), any_updated(&ra), p.after_in_c > 0);
    }

    // ---- L8: composite schedule = its leaf sequence; case for the Coq model
    for _ in 0..2 {
        let body: Vec<S> = (0..r.range(1, 3)).map(|_| gen_sched(&mut r, 2)).collect();
        let top = S::Seq(body.clone());
        let cmd = format!("(run-schedule {})", body.iter().map(|x| x.text(&p)).collect::<Vec<_>>().join(" "));
        let (da, ra, _) = try_side!("trace", &cmd);
        let rep = &ra[0];
        let fl = flags(rep);
        let mut trace = vec![];
        let mut ok = true;
        for it in &rep.iterations {
            match iteration_ruleset(it) {
                (Some(rs), _) if rs < 4 => trace.push(rs),
                _ => ok = false,
            }
        }
        if !ok {
            acc.violation("an iteration ran a set of marker rules that is no ruleset of the program".into(), seed, index, &p, "trace_markers", cmd.clone());
            continue;
        }
        // replay leaf by leaf through step_rules
        let mut eg = match fresh(&p) {
            Ok(e) => e,
            Err(_) => return,
        };
        let mut tbl: Vec<Vec<bool>> = vec![];
        let mut replay_flags = vec![];
        for &rs in &trace {
            tbl.push(p.untils.iter().map(|f| holds(&eg, f)).collect());
            match guarded(|| eg.step_rules(RS_NAMES[rs])) {
                Ok(rr) => replay_flags.push(rr.updated),
                Err(_) => {
                    ok = false;
                    break;
                }
            }
        }
        tbl.push(p.untils.iter().map(|f| holds(&eg, f)).collect());
        let db = dump(&eg, &p).unwrap();
        if !ok || replay_flags != fl || da != db {
            acc.violation(
                "a composite schedule differs from the sequence of leaf iterations it reported".into(),
                seed, index, &p, "trace_replay", format!("{cmd}: leaves {:?} flags {:?} replay {:?}", trace, fl, replay_flags),
            );
            continue;
        }
        if rep.can_stop == rep.updated {
            acc.violation("RunReport has can_stop = updated".into(), seed, index, &p, "report_flags", cmd.clone());
        }
        let shape = format!("{}{}", if top.has_saturate() { "sat" } else { "nosat" }, if trace.contains(&3) { "+c" } else { "" });
        *acc.shape_hist.entry(shape).or_insert(0) += 1;
        w.push(format!(
            "CSched ({}, {}, {}, {}, {}, {})",
            top.coq(),
            coq_list(&fl, |b| coq_bool(*b).to_string()),
            coq_list(&tbl, |row| coq_list(row, |b| coq_bool(*b).to_string())),
            coq_list(&trace.iter().zip(fl.iter()).collect::<Vec<_>>(), |(rs, b)| format!("({}, {})", rs, coq_bool(**b))),
            coq_bool(rep.updated),
            coq_bool(rep.can_stop)
        ));
        if acc.samples.len() < 4 && fl.len() >= 3 {
            acc.samples.push(format!(
                "{{\"schedule\":{},\"leaves\":{:?},\"changed\":{:?},\"updated\":{},\"nrules\":{}}}",
                json_str(&cmd), trace, fl, rep.updated, p.nrules
            ));
        }
        acc.count("trace", format!("{pk}|{cmd}"), fl.len(), rep.updated, true);
    }
}


// ------------------------------------------------------------------------------------------
// stream "egg": the model's predicted DATABASE (Sched/EggStep.v: run_schedule over one iteration of
// the shared rule interpreter Egg/Rules.v, with the engine's `changed` flag modelled per ground
// command) against the engine after a whole schedule.  Programs are in the Egg fragment
// (harness/src/egg.rs + egg_gen.rs); rules are spread over r0 r1 r2, `comb = r0 + r1` is declared
// before some of the rules are added, `d` holds a delete-only rule over a relation that nothing
// else writes.  Per case: the `changed` flag of every iteration and the observable database at
// the end (class vector of probe terms, table sizes, subsumed counts, int probes).
mod eggs {
    use super::*;
    use verif_harness::egg::{self, Action, Cmd, Decl, Fact, Kind, Pat, Program, Rule, Sort};
    use verif_harness::egg_gen::{Bias, Gen};

    pub const RS: [&str; 5] = ["r0", "r1", "r2", "comb", "d"];

    #[derive(Clone, Debug)]
    pub enum ES {
        Atom(usize),
        Leaf(usize, Option<usize>),
        Rep(usize, Vec<ES>),
        Sat(Vec<ES>),
        Seq(Vec<ES>),
    }

    pub struct EProg {
        pub p: Program,
        pub setup: Vec<Action>,
        pub rules: Vec<(Rule, usize)>,
        /// number of rules declared before the combination
        pub before: usize,
        pub untils: Vec<Vec<Fact>>,
        pub creates: bool,
    }

    fn pat_has_var(p: &Pat) -> bool {
        match p {
            Pat::Var(_) => true,
            Pat::Int(_) => false,
            Pat::Add(a, b) => pat_has_var(a) || pat_has_var(b),
            Pat::App(_, a) => a.iter().any(pat_has_var),
        }
    }
    fn pat_creates(p: &Pat) -> bool {
        match p {
            Pat::Var(_) | Pat::Int(_) => false,
            Pat::Add(_, _) => true,
            Pat::App(_, a) => !a.is_empty() && a.iter().any(pat_has_var),
        }
    }
    fn rule_creates(r: &Rule) -> bool {
        r.head.iter().any(|a| match a {
            Action::Expr(p) => pat_creates(p),
            Action::Union(p, q) => pat_creates(p) || pat_creates(q),
            Action::Set(_, args, v) => args.iter().any(pat_creates) || pat_creates(v),
            _ => false,
        })
    }

    pub fn gen(r: &mut Rng) -> EProg {
        let bias = *r.pick(&[Bias::C01, Bias::C03, Bias::C05, Bias::C01]);
        let calm = r.chance(1, 2);
        let mut g = Gen::new(r, bias);
        let d_rel = g.p.decls.len();
        g.p.decls.push(Decl { name: "D".into(), kind: Kind::Rel, args: vec![Sort::S] });
        let mut setup = vec![];
        let mut rules: Vec<Rule> = vec![];
        let mut seen: Vec<String> = vec![];
        let nset = g.r.range(4, 9);
        let nrules = g.r.range(3, 7);
        let mut guard = 0;
        while (setup.len() < nset || rules.len() < nrules) && guard < 200 {
            guard += 1;
            match g.command() {
                Cmd::Act(a) => {
                    if setup.len() < nset && matches!(a, Action::Expr(_) | Action::Union(_, _) | Action::Set(_, _, _)) {
                        setup.push(a);
                    }
                }
                Cmd::Rule(rule) => {
                    let t = g.p.cmd_text(&Cmd::Rule(rule.clone()));
                    if rules.len() < nrules && !seen.contains(&t) && !(calm && rule_creates(&rule)) {
                        seen.push(t);
                        rules.push(rule);
                    }
                }
                _ => {}
            }
        }
        // facts for the delete-only ruleset
        for _ in 0..g.r.range(1, 3) {
            let t = g.term(2);
            setup.push(Action::Set(d_rel, vec![t], Pat::Int(0)));
        }
        let mut placed: Vec<(Rule, usize)> = vec![];
        for rule in rules {
            let rs = g.r.below(3);
            placed.push((rule, rs));
        }
        let before = if placed.is_empty() { 0 } else { g.r.below(placed.len() + 1) };
        // d: delete every D row; a reader of D in r2 when there is a relation to write to
        placed.push((Rule { body: vec![Fact::Pat(Pat::App(d_rel, vec![Pat::Var(0)]))], head: vec![Action::Delete(d_rel, vec![Pat::Var(0)])] }, 4));
        if let Some(&rl) = g.rels.first() {
            placed.push((Rule { body: vec![Fact::Pat(Pat::App(d_rel, vec![Pat::Var(0)]))], head: vec![Action::Set(rl, vec![Pat::Var(0)], Pat::Int(0))] }, 2));
        }
        // :until fact sets: a ground term exists / two ground terms are equal / a relation row
        let mut untils = vec![];
        for _ in 0..2 {
            let t = g.term(2);
            let u = g.term(1);
            let f = match g.r.below(3) {
                0 => vec![Fact::Pat(t)],
                1 => vec![Fact::Eq(0, t), Fact::Eq(0, u)],
                _ => match g.rels.first() {
                    Some(&rl) => vec![Fact::Pat(Pat::App(rl, vec![t]))],
                    None => vec![Fact::Pat(t)],
                },
            };
            untils.push(f);
        }
        let creates = placed.iter().any(|(r, _)| rule_creates(r));
        EProg { p: g.p, setup, rules: placed, before, untils, creates }
    }

    impl EProg {
        pub fn text(&self) -> String {
            let mut t = self.p.header();
            t.push_str("(ruleset r0)\n(ruleset r1)\n(ruleset r2)\n(ruleset d)\n");
            let rule_text = |(r, rs): &(Rule, usize)| {
                let body = self.p.cmd_text(&Cmd::Rule(r.clone()));
                format!("{} :ruleset {})\n", &body[..body.len() - 1], RS[*rs])
            };
            for x in &self.rules[..self.before] {
                t.push_str(&rule_text(x));
            }
            t.push_str("(unstable-combined-ruleset comb r0 r1)\n");
            for x in &self.rules[self.before..] {
                t.push_str(&rule_text(x));
            }
            for a in &self.setup {
                t.push_str(&self.p.action_text(a));
                t.push('\n');
            }
            t
        }
        pub fn until_text(&self, u: usize) -> String {
            self.untils[u].iter().map(|f| self.p.fact_text(f)).collect::<Vec<_>>().join(" ")
        }
        pub fn until_coq(&self, u: Option<usize>) -> String {
            match u {
                None => "None".into(),
                Some(u) => format!("(Some {})", coq_list(&self.untils[u], Program::fact_coq)),
            }
        }
        pub fn prog_coq(&self) -> String {
            let mut sets: Vec<Vec<usize>> = vec![vec![]; 5];
            for (i, (_, rs)) in self.rules.iter().enumerate() {
                sets[*rs].push(i);
            }
            format!(
                "(mkProg {} {} [(0, Rules {}); (1, Rules {}); (2, Rules {}); (3, Combined [0; 1]); (4, Rules {})])",
                self.p.sg_coq(),
                coq_list(&self.rules, |(r, _)| format!("mkRule {} {}", coq_list(&r.body, Program::fact_coq), coq_list(&r.head, Program::action_coq))),
                coq_nat_list(&sets[0]),
                coq_nat_list(&sets[1]),
                coq_nat_list(&sets[2]),
                coq_nat_list(&sets[4])
            )
        }
        pub fn s_text(&self, s: &ES) -> String {
            let many = |v: &Vec<ES>| v.iter().map(|x| self.s_text(x)).collect::<Vec<_>>().join(" ");
            match s {
                ES::Atom(rs) => RS[*rs].to_string(),
                ES::Leaf(rs, None) => format!("(run {})", RS[*rs]),
                ES::Leaf(rs, Some(u)) => format!("(run {} :until {})", RS[*rs], self.until_text(*u)),
                ES::Rep(n, v) => format!("(repeat {n} {})", many(v)),
                ES::Sat(v) => format!("(saturate {})", many(v)),
                ES::Seq(v) => format!("(seq {})", many(v)),
            }
        }
        /// through the REGENERATED desugaring of parse_schedule (gen/SchedRunFacts.v)
        pub fn s_coq(&self, s: &ES) -> String {
            let many = |v: &Vec<ES>| coq_list(v, |x| self.s_coq(x));
            match s {
                ES::Atom(rs) => format!("desugar_atom {rs}"),
                ES::Leaf(rs, u) => format!("desugar_run_leaf {rs} {}", self.until_coq(*u)),
                ES::Rep(n, v) => format!("desugar_repeat {n} {}", many(v)),
                ES::Sat(v) => format!("desugar_saturate {}", many(v)),
                ES::Seq(v) => format!("desugar_seq {}", many(v)),
            }
        }
    }

    fn gen_leaf(r: &mut Rng) -> ES {
        let rs = *r.pick(&[0usize, 1, 2, 3, 3, 4]);
        match r.below(4) {
            0 => ES::Atom(rs),
            1 => ES::Leaf(rs, Some(r.below(2))),
            _ => ES::Leaf(rs, None),
        }
    }
    fn gen_s(r: &mut Rng, depth: usize, sat: bool) -> ES {
        if depth == 0 || r.chance(1, 3) {
            return gen_leaf(r);
        }
        let k = r.range(1, 3);
        let v: Vec<ES> = (0..k).map(|_| gen_s(r, depth - 1, sat)).collect();
        match r.below(if sat { 4 } else { 3 }) {
            0 | 1 => ES::Rep(r.range(1, 3), v),
            2 => ES::Seq(v),
            _ => ES::Sat(v),
        }
    }

    #[derive(Default)]
    pub struct EAcc {
        pub cases: usize,
        pub nontrivial: usize,
        pub engine_fail: BTreeMap<String, usize>,
        pub iters_hist: BTreeMap<String, usize>,
        pub form_hist: BTreeMap<String, usize>,
        pub delete_only_unreported: usize,
        pub samples: Vec<String>,
        pub distinct: HashSet<u64>,
    }

    pub fn one(seed: u64, index: u64, acc: &mut EAcc, w: &mut CaseWriter) {
        let mut r = Rng::for_case(seed ^ 0xE66_5C4E_D, index);
        let ep = gen(&mut r);
        let text = ep.text();
        let probes = egg::enumerate_probes(&ep.p, 2, 24, &[0, 1, 2]);
        let mut iprobes: Vec<Pat> = vec![];
        for (f, d) in ep.p.decls.iter().enumerate() {
            if d.kind != Kind::Ctor && d.args.len() == 1 {
                for t in probes.iter().filter(|t| egg::pat_size(t) <= 3).take(6) {
                    iprobes.push(Pat::App(f, vec![t.clone()]));
                }
            }
        }
        let nsched = 3;
        for k in 0..nsched {
            // schedule: a (run-schedule ..) or the command form (run R n :until ..)
            let (cmd_text, sched_coq, form) = if r.chance(1, 4) {
                let rs = *r.pick(&[0usize, 1, 2, 3, 4]);
                let n = r.range(1, 4);
                let u = if r.chance(1, 3) { Some(r.below(2)) } else { None };
                let t = match u {
                    None => format!("(run {} {n})", RS[rs]),
                    Some(u) => format!("(run {} {n} :until {})", RS[rs], ep.until_text(u)),
                };
                (t, format!("(desugar_run {rs} {n} {})", ep.until_coq(u)), "run-command")
            } else {
                let n = r.range(1, 3);
                let v: Vec<ES> = (0..n).map(|_| gen_s(&mut r, 2, !ep.creates)).collect();
                let t = format!("(run-schedule {})", v.iter().map(|x| ep.s_text(x)).collect::<Vec<_>>().join(" "));
                (t, format!("(desugar_run_schedule {})", coq_list(&v, |x| ep.s_coq(x))), "run-schedule")
            };
            let res = guarded(|| {
                let mut eg = EGraph::default();
                eg.parse_and_run_program(None, &text)?;
                Ok(eg)
            })
            .and_then(|mut eg| run(&mut eg, &cmd_text).map(|reps| (eg, reps)));
            let (eg, reps) = match res {
                Ok(x) => x,
                Err(f) => {
                    *acc.engine_fail.entry(format!("{f:?}")).or_insert(0) += 1;
                    continue;
                }
            };
            if reps.len() != 1 {
                *acc.engine_fail.entry("no-report".into()).or_insert(0) += 1;
                continue;
            }
            let flags: Vec<bool> = reps[0].iterations.iter().map(|it| it.changed()).collect();
            let d = match egg::dump(&eg, &ep.p) {
                Ok(d) => d,
                Err(_) => {
                    *acc.engine_fail.entry("dump".into()).or_insert(0) += 1;
                    continue;
                }
            };
            let obs = d.observe(&probes, &iprobes);
            acc.cases += 1;
            *acc.form_hist.entry(form.into()).or_insert(0) += 1;
            *acc.iters_hist.entry(format!("{}", flags.len().min(12))).or_insert(0) += 1;
            if flags.len() >= 2 && flags.iter().any(|b| *b) && acc.distinct.insert(hash_str(&format!("{text}{cmd_text}"))) {
                acc.nontrivial += 1;
            }
            if acc.samples.len() < 3 && flags.len() >= 3 {
                acc.samples.push(format!(
                    "{{\"stream\":\"egg\",\"seed\":{seed},\"index\":{index},\"k\":{k},\"schedule\":{},\"flags\":{:?}}}",
                    json_str(&cmd_text),
                    flags
                ));
            }
            w.push(format!(
                "(mkEggCase {} {} {} {} {} {} ({}))",
                ep.prog_coq(),
                coq_list(&ep.setup, Program::action_coq),
                sched_coq,
                coq_list(&probes, Program::term_coq),
                coq_list(&iprobes, Program::term_coq),
                coq_list(&flags, |b| coq_bool(*b).to_string()),
                obs.coq()
            ));
        }
        // the removal-only iteration (c10_delete_not_reported): `(run d 3)` deletes every D row in its
        // first iteration and the engine reports changed = false for it
        let res = guarded(|| {
            let mut eg = EGraph::default();
            eg.parse_and_run_program(None, &text)?;
            Ok(eg)
        })
        .and_then(|mut eg| run(&mut eg, "(run d 3)").map(|reps| (eg, reps)));
        if let Ok((_, reps)) = res {
            if reps.len() == 1 && reps[0].iterations.len() == 1 && !reps[0].updated {
                acc.delete_only_unreported += 1;
            }
        }
    }
}

fn hash_str(s: &str) -> u64 {
    let mut h: u64 = 0xcbf29ce484222325;
    for b in s.bytes() {
        h ^= b as u64;
        h = h.wrapping_mul(0x100000001b3);
    }
    h
}

fn main() {
    let o = verif_harness::parse_opts();
    std::process::exit(run_all(&o));
}

fn run_all(o: &Opts) -> i32 {
    // engine panics are observations; keep stderr quiet
    std::panic::set_hook(Box::new(|_| {}));
    let header = "From Coq Require Import List NArith Bool.\nImport ListNotations.\nRequire Import Verif.Base.Cases Verif.Sched.Syntax Verif.Sched.Algebra.\n";
    let mut w = CaseWriter::new(&o.out, "cases_sched", header, "check_any", 400);
    let mut acc = new_acc();
    let mut todo: Vec<(u64, u64)> = vec![];
    // corpus seeds first: files corpus/C10/*.json with {"seed":..,"index":..}
    let corpus = std::path::Path::new(env!("CARGO_MANIFEST_DIR")).join("../corpus/C10");
    if let Ok(rd) = std::fs::read_dir(&corpus) {
        let mut files: Vec<_> = rd.flatten().map(|e| e.path()).filter(|p| p.extension().map(|x| x == "json").unwrap_or(false)).collect();
        files.sort();
        for f in files {
            if let Some(si) = read_seed_index(&f.to_string_lossy()) {
                todo.push(si);
            }
        }
    }
    if let Some(path) = &o.replay {
        todo.clear();
        match read_seed_index(path) {
            Some(si) => todo.push(si),
            None => {
                eprintln!("replay file has no seed/index");
                return 2;
            }
        }
    } else {
        let mut n = if o.thorough { 5000 } else { 200 };
        if let Some(pos) = o.extra.iter().position(|x| x == "--n") {
            n = o.extra[pos + 1].parse().expect("--n");
        }
        for i in 0..n {
            todo.push((o.seed, i));
        }
    }
    let verbose = o.extra.iter().any(|x| x == "--verbose");
    // programs are independent: contiguous chunks on worker threads; every finished program's
    // results go to a shared list (sorted by position afterwards, so the output is deterministic).
    // A schedule that does not terminate on the engine (the generator cannot rule this out
    // completely: a subset of the rules may diverge where the full set saturates) is detected by a
    // watchdog; its program and the rest of its chunk are abandoned and counted, not reported as a
    // violation; more than 10% abandoned programs is a harness failure.
    use std::sync::{atomic::{AtomicU64, Ordering}, Arc, Mutex};
    let progress = Arc::new(AtomicU64::new(0));
    let results: Arc<Mutex<Vec<(usize, Acc, Vec<String>)>>> = Arc::new(Mutex::new(vec![]));
    let ntodo = todo.len();
    let nthreads = if ntodo < 16 { 1 } else { 8 };
    let chunk = ((ntodo + nthreads - 1) / nthreads).max(1);
    let todo = Arc::new(todo);
    let (tx, rx) = std::sync::mpsc::channel::<()>();
    for t in 0..nthreads {
        let (todo, results, progress, tx) = (todo.clone(), results.clone(), progress.clone(), tx.clone());
        std::thread::spawn(move || {
            for pos in (t * chunk)..((t + 1) * chunk).min(todo.len()) {
                let (s, i) = todo[pos];
                let t0 = std::time::Instant::now();
                let mut a = new_acc();
                let mut cases = vec![];
                one_program(s, i, &mut a, &mut cases);
                if verbose {
                    eprintln!("program {i}: {:?} evals {}", t0.elapsed(), a.evals);
                }
                results.lock().unwrap().push((pos, a, cases));
                progress.fetch_add(1, Ordering::SeqCst);
            }
            let _ = tx.send(());
        });
    }
    drop(tx);
    // generous, load-tolerant stall limit: a busy machine must not turn slow programs into an alarm
    let stall_secs: u64 = if o.thorough { 900 } else { 300 };
    let mut finished = 0;
    let mut last = u64::MAX;
    let mut abandoned = 0usize;
    while finished < nthreads {
        match rx.recv_timeout(std::time::Duration::from_secs(stall_secs)) {
            Ok(()) => finished += 1,
            Err(std::sync::mpsc::RecvTimeoutError::Timeout) => {
                let cur = progress.load(Ordering::SeqCst);
                if cur == last {
                    abandoned = ntodo - cur as usize;
                    eprintln!("h_sched: no program finished for {stall_secs} s; abandoning {abandoned} programs (a schedule does not terminate)");
                    break;
                }
                last = cur;
            }
            Err(_) => break,
        }
    }
    let mut parts = std::mem::take(&mut *results.lock().unwrap());
    parts.sort_by_key(|p| p.0);
    if parts.len() + abandoned < ntodo {
        eprintln!("h_sched: a worker died ({} of {} programs finished)", parts.len(), ntodo);
        std::process::exit(4);
    }
    for (_, a, cases) in parts {
        for c in cases {
            w.push(c);
        }
        acc.merge(a);
    }
    if abandoned > 0 {
        *acc.fail_hist.entry("programs-abandoned:nonterminating-schedule".into()).or_insert(0) += abandoned;
    }
    w.flush();
    // stream "egg" (model-predicted database); skipped when replaying a law-pair input
    let egg_header = "From Coq Require Import List NArith ZArith Bool.\nImport ListNotations.\nRequire Import Verif.Base.Cases Verif.Egg.Model Verif.Egg.Rules Verif.Sched.Syntax Verif.gen.SchedRunFacts Verif.Sched.EggStep.\n";
    let mut ew = CaseWriter::new(&o.out, "cases_sched_egg", egg_header, "check_egg", 60);
    let mut eacc = eggs::EAcc::default();
    if o.replay.is_none() {
        let mut n_egg = if o.thorough { 1500 } else { 100 };
        if let Some(pos) = o.extra.iter().position(|x| x == "--n-egg") {
            n_egg = o.extra[pos + 1].parse().expect("--n-egg");
        }
        for i in 0..n_egg {
            eggs::one(o.seed, i, &mut eacc, &mut ew);
        }
    }
    ew.flush();
    acc.samples.extend(eacc.samples.iter().cloned());
    let viol: Vec<String> = acc
        .violations
        .iter()
        .take(20)
        .map(|(what, input, key)| format!("{{\"what\":{},\"input\":{},\"key\":{}}}", json_str(what), input, json_str(key)))
        .collect();
    let report = format!(
        "{{\"sub\":\"sched\",\"cases\":{},\"shards\":{},\"distinct_nontrivial\":{},\"rule\":{},\"law_hist\":{},\"iterations_hist\":{},\"engine_fail_hist\":{},\"trace_shape_hist\":{},\"samples\":[{}],\"violations\":[{}],\"extra_coverage\":{{\"law_instances_on_engine\":{},\"model_cases\":{},\"repeat_pairs_with_early_stop\":{},\"repeat_pairs_with_early_stop_differing\":{},\"programs_with_rules_added_after_combination\":{},\"until_runs_stopped_by_facts\":{},\"egg_model_cases\":{},\"egg_distinct_nontrivial\":{},\"egg_delete_only_iterations_unreported\":{},\"egg_iterations_hist\":{},\"egg_form_hist\":{},\"egg_engine_fail_hist\":{}}}}}\n",
        acc.evals,
        w.shards + ew.shards,
        acc.nontrivial,
        json_str("seeded random monotone programs (4-8 rules from a pool of 17 over r0/r1/r2, combined c = r0+r1 declared before ~1/3 of the rules are added, u = copy of the current r0+r1, 2-3 terms, 2-6 edges) x 8 law instances (run_n, repeat_mul, seq_assoc, seq_unit, saturate, until, combined, 2 traces); an instance is non-trivial iff its schedule performed >= 3 iterations, at least one changed the database, and the two sides are textually different schedules; distinct by (program, schedule text)"),
        serde_json::to_string(&acc.law_hist).unwrap(),
        serde_json::to_string(&acc.iter_hist).unwrap(),
        serde_json::to_string(&acc.fail_hist).unwrap(),
        serde_json::to_string(&acc.shape_hist).unwrap(),
        acc.samples.join(","),
        viol.join(","),
        acc.evals,
        w.total,
        acc.early_stop_pairs,
        acc.early_stop_pairs_differ,
        acc.after_rule_essential,
        acc.until_stopped,
        eacc.cases,
        eacc.nontrivial,
        eacc.delete_only_unreported,
        serde_json::to_string(&eacc.iters_hist).unwrap(),
        serde_json::to_string(&eacc.form_hist).unwrap(),
        serde_json::to_string(&eacc.engine_fail).unwrap(),
    );
    std::fs::write(o.out.join("impl_report.json"), report).unwrap();
    if abandoned * 10 > ntodo {
        eprintln!("h_sched: {abandoned} of {ntodo} programs abandoned");
        std::process::exit(3);
    }
    // worker threads stuck in a non-terminating schedule are left behind
    std::process::exit(0);
}

/// replay files: either {"seed":S,"index":I,..} or bin/check's wrapper {"violation":{"input":{..}}}
fn read_seed_index(path: &str) -> Option<(u64, u64)> {
    let txt = std::fs::read_to_string(path).ok()?;
    let v: serde_json::Value = serde_json::from_str(&txt).ok()?;
    let inner = if v.get("index").is_some() { &v } else { &v["violation"]["input"] };
    Some((inner["seed"].as_u64()?, inner["index"].as_u64()?))
}
