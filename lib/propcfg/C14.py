"""C14 configuration for bin/check."""

PAR_ENV = {"EGGLOG_PARALLEL_INTER_CONTAINER_CUTOFF": "0", "EGGLOG_PARALLEL_INTRA_CONTAINER_CUTOFF": "0"}

CFG = {
    "tier_a": ["UFSeq", "MergeArms"],
    "model_targets": ["Cont/Env.vo", "Egg/Rules.vo"],
    "proof_targets": ["Props/C14.vo"],
    "harness": [
        # nested containers of depth 2-4 with alternating kinds and all kind-declaration orders,
        # rewritten in place: semi-naive vs naive engine in lockstep (the family of h_egg)
        {"bin": "h_egg", "name": "h_egg_nested", "prefix": "cases_egg", "extra": ["--prop", "C14", "--cases", "12"]},
        # serial engine, default cut-offs: sessions + model cases
        {"bin": "h_cont", "name": "h_cont", "sub": "cont", "prefix": "cases_cont"},
        # 4 threads, container cut-offs 0: parallel inter-container map and the parallel
        # non-incremental variant; same sessions, the model cases are compared with this run too
        {"bin": "h_cont", "name": "h_cont_par", "sub": "cont-par", "prefix": "cases_cont",
         "extra": ["--threads", "4"], "env": PAR_ENV},
        # > 1000 containers per Rust container type: the incremental strategy is chosen
        {"bin": "h_cont", "name": "h_cont_big", "sub": "cont-big", "extra": ["--big"]},
        {"bin": "h_cont", "name": "h_cont_big_par", "sub": "cont-big-par",
         "extra": ["--big", "--threads", "4"], "env": PAR_ENV},
    ],
    "corr_is_violation": True,
    "trusted": [
        "translator /verif/translator: gen/UFSeq.v (union-find, representative = least id) and gen/MergeArms.v "
        "(merge_unionid = min; the container merge closure of register_container_ty has the same body)",
        "hand-written Gallina model coq/Cont/Env.v of core-relations/src/containers/mod.rs and of "
        "rebuild_contents/iter of src/sort/{vec,set,multiset,pair,map}.rs, tied to the engine by the "
        "correspondence cases (h_cont, serial and 4 threads) and by the seeded mutations",
        "hook H0 EGraph::verif_canon_id (read-only) for canonical ids",
    ],
    "theorem_backed": "ContainerEnv as three finite maps over the translated union-find, for all reachable states "
                      "(fresh classes, hash-consing insertions, unions of e-classes, rebuilds with ANY per-pass choice "
                      "of strategy): to_id injective both ways and get_container its exact inverse, val_index complete, "
                      "every live container id is a union-find root (hence suspect S3's branch is dead; witness that the "
                      "branch would break val_index otherwise); the rebuild loop terminates within the stated fuel; at the "
                      "fixpoint every stored id is canonical and containers equal after canonicalisation share one id; "
                      "after one pass (either strategy) every container is filed under its canonicalised contents with an id in the class of its old id, so containers equal modulo the current equalities end in one class; every container changed in place is in the dirty set, which is closed under containment",
    "link_only": "that the model is the code (correspondence cases: container histories under full / incremental / "
                 "alternating strategies vs the engine, serial and parallel); rows keyed by containers merge (table "
                 "rebuild; predicate (b) on dumps + harness closure + (check (= e1 e2))); refresh_rows_for_values re-stamps "
                 "the rows mentioning dirty ids and semi-naive = naive after every command (lockstep engines, 26 rule "
                 "templates); parallel get_or_insert races; which strategy the engine picks (threshold) is observed only "
                 "through the Big sessions (incl. fixed two-step union chains per kind and interning order) and the inc_no_val_index / rt_c14 mutations; Map key collisions excluded by the generator",
    "assumptions": [
        "ids are unbounded nat; hash buckets are modelled by a perfect hash (locator = contents at filing time)",
        "container ids are never unioned by the user (container sorts are not eq-sorts): R_union requires non-container classes",
        "contents inserted between rebuilds mention canonical ids or ids displaced since the last container pass "
        "(true in egglog: values come from canonical tables; unions are applied at the end of an iteration)",
        "Map key collisions: surviving value left to an oracle in the theorems; the generator never makes two keys collide",
    ],
}
