(** Executable model of [merge2_into] (core-relations/src/hash_index/mod.rs): merge two
    (value, row id)-sorted slices, appending to [out] and dropping a pair equal to the previous one
    emitted BY THIS CALL. Definitions only; proofs in Index/MergeProofs.v.

    Representation: the pairs this call has appended so far are kept newest-first in [em]; the
    source's test [out.len() == start] is [em = []] (the vector only grows by this call's pushes)
    and [*out.last().unwrap()] is the head of [em]. *)
From Coq Require Import List NArith Bool.
Import ListNotations.
Require Import Verif.Base.Res Verif.Index.Prelude.
Local Open Scope N_scope.

(** the closure [push] *)
Definition push (em : list vr) (next : vr) : list vr :=
  match em with
  | [] => next :: em
  | last :: _ => if vr_eqb last next then em else next :: em
  end.

(** the [while i < a.len() && j < b.len()] loop followed by the two draining loops *)
Fixpoint merge_loop (a : list vr) : list vr -> list vr -> list vr :=
  match a with
  | [] => fun b em => fold_left push b em
  | x :: a' =>
      fix inner (b em : list vr) {struct b} : list vr :=
        match b with
        | [] => fold_left push (x :: a') em
        | y :: b' => if vr_leb x y then merge_loop a' (y :: b') (push em x) else inner b' (push em y)
        end
  end.

(** what this call appends *)
Definition merge2_new (a b : list vr) : list vr := rev (merge_loop a b []).

(** [merge2_into(a, b, &mut out)]: the new contents of [out] *)
Definition merge2_into (a b out : list vr) : list vr := out ++ merge2_new a b.
