(** C14 — Containers of e-classes stay canonical and keep rules firing.
    This file only pins statements and prints their assumptions. *)
From Coq Require Import List Arith PeanoNat.
Import ListNotations.
Require Import Verif.Base.Res Verif.Egg.Model Verif.Cont.Env.

(** non-vacuity: a history with nesting, a collapsing set and two vectors becoming equal runs to a
    fixpoint under the full, the incremental and the alternating strategy and produces the
    recorded (engine) observation *)
Example c14_example :
  check_case [HNew; HNew; HNew; HIns KVec [0; 1]; HIns KVec [0; 0]; HIns KSet [0; 1; 2];
              HIns KVec [3; 4]; HIns KVec [4; 4]; HUnion 1 0; HUnion 2 1;
              HObs [[0]; [0]; [0]; [3; 0; 0]; [3; 0; 0]; [5; 0]; [6; 3; 3]; [6; 3; 3]]] = true.
Proof. vm_compute. reflexivity. Qed.
