//! Seeded generator of Egg programs (monotone fragment + optional fault injection), with
//! per-property biases.
use crate::egg::*;
use crate::util::Rng;

#[derive(Clone, Copy, PartialEq, Debug)]
pub enum Bias {
    C01, // congruence chains, unions between keys, unions issued by rules
    C04, // failing commands in between
    C05, // many colliding sets on lattice functions
    C13, // subsume / delete interleavings
    C03, // rule-heavy, several runs, late rule declarations
}

pub struct Gen<'a> {
    pub r: &'a mut Rng,
    pub bias: Bias,
    pub p: Program,
    pub nullary: Vec<usize>,
    pub unary: Vec<usize>,
    pub binary: Vec<usize>,
    pub num: Option<usize>,
    pub funcs: Vec<usize>,
    pub rels: Vec<usize>,
    pub nomerge: Option<usize>,
    pub pending: Vec<Cmd>,
    /// C05: scripted prefix where many different bit patterns are folded into one key within one
    /// iteration (bit-or / bit-and are not selective: the fold is none of the written values)
    pub batch_mode: bool,
}

impl<'a> Gen<'a> {
    pub fn new(r: &'a mut Rng, bias: Bias) -> Self {
        let mut decls = Vec::new();
        let mut nullary = Vec::new();
        let mut unary = Vec::new();
        let mut binary = Vec::new();
        let nn = r.range(2, 4);
        for i in 0..nn {
            nullary.push(decls.len());
            decls.push(Decl { name: format!("K{i}"), kind: Kind::Ctor, args: vec![] });
        }
        let nu = r.range(1, 2);
        for i in 0..nu {
            unary.push(decls.len());
            decls.push(Decl { name: format!("F{i}"), kind: Kind::Ctor, args: vec![Sort::S] });
        }
        if r.chance(2, 3) {
            binary.push(decls.len());
            decls.push(Decl { name: "H".into(), kind: Kind::Ctor, args: vec![Sort::S, Sort::S] });
        }
        let mut num = None;
        if r.chance(1, 3) {
            num = Some(decls.len());
            decls.push(Decl { name: "N".into(), kind: Kind::Ctor, args: vec![Sort::I] });
        }
        let mut funcs = Vec::new();
        let nf = if bias == Bias::C05 { r.range(1, 2) } else { r.range(0, 1) };
        let batch_mode = bias == Bias::C05 && r.chance(2, 5);
        for i in 0..nf {
            funcs.push(decls.len());
            let m = match if batch_mode { 2 + r.below(2) } else { r.below(if bias == Bias::C05 { 4 } else { 3 }) } {
                0 => Merge::Min,
                1 => Merge::Max,
                2 => Merge::Or,
                _ => Merge::And,
            };
            decls.push(Decl { name: format!("g{i}"), kind: Kind::Func(m), args: vec![Sort::S] });
        }
        let mut nomerge = None;
        if bias == Bias::C04 || (bias == Bias::C05 && r.chance(1, 2)) {
            nomerge = Some(decls.len());
            decls.push(Decl { name: "nm".into(), kind: Kind::Func(Merge::NoMerge), args: vec![Sort::S] });
        }
        let mut rels = Vec::new();
        if r.chance(2, 3) {
            rels.push(decls.len());
            decls.push(Decl { name: "R".into(), kind: Kind::Rel, args: vec![Sort::S] });
        }
        Gen { r, bias, p: Program { decls, cmds: vec![], expect: vec![] }, nullary, unary, binary, num, funcs, rels, nomerge, pending: vec![], batch_mode }
    }

    pub fn term(&mut self, depth: usize) -> Pat {
        if depth == 0 || self.r.chance(1, 4) {
            if let (Some(n), true) = (self.num, self.r.chance(1, 5)) {
                return Pat::App(n, vec![Pat::Int(self.r.below(3) as i64)]);
            }
            return Pat::App(*self.r.pick(&self.nullary), vec![]);
        }
        if !self.binary.is_empty() && self.r.chance(1, 3) {
            let f = *self.r.pick(&self.binary);
            return Pat::App(f, vec![self.term(depth - 1), self.term(depth - 1)]);
        }
        let f = *self.r.pick(&self.unary);
        Pat::App(f, vec![self.term(depth - 1)])
    }

    fn tower(&self, f: usize, k: usize, base: Pat) -> Pat {
        let mut t = base;
        for _ in 0..k {
            t = Pat::App(f, vec![t]);
        }
        t
    }

    pub fn rule(&mut self) -> Rule {
        let f = *self.r.pick(&self.unary);
        let g = *self.r.pick(&self.unary);
        let k = *self.r.pick(&self.nullary);
        let mut choices: Vec<Rule> = vec![
            // collapse: (F x) = x
            Rule { body: vec![Fact::Eq(0, Pat::App(f, vec![Pat::Var(1)]))], head: vec![Action::Union(Pat::Var(0), Pat::Var(1))] },
            // rewrite F(F x) -> G x
            Rule {
                body: vec![Fact::Eq(0, Pat::App(f, vec![Pat::App(f, vec![Pat::Var(1)])]))],
                head: vec![Action::Union(Pat::Var(0), Pat::App(g, vec![Pat::Var(1)]))],
            },
            // generative: F x  ~> G (F x) exists
            Rule { body: vec![Fact::Eq(0, Pat::App(f, vec![Pat::Var(1)]))], head: vec![Action::Expr(Pat::App(g, vec![Pat::Var(0)]))] },
            // F K = K
            Rule {
                body: vec![Fact::Eq(0, Pat::App(f, vec![Pat::App(k, vec![])]))],
                head: vec![Action::Union(Pat::Var(0), Pat::App(k, vec![]))],
            },
            // injectivity-like: F x = F y  (same class)  =>  x = y
            Rule {
                body: vec![Fact::Eq(0, Pat::App(f, vec![Pat::Var(1)])), Fact::Eq(0, Pat::App(f, vec![Pat::Var(2)]))],
                head: vec![Action::Union(Pat::Var(1), Pat::Var(2))],
            },
        ];
        if let Some(&h) = self.binary.first() {
            choices.push(Rule {
                body: vec![Fact::Eq(0, Pat::App(h, vec![Pat::Var(1), Pat::Var(2)]))],
                head: vec![Action::Union(Pat::Var(0), Pat::App(h, vec![Pat::Var(2), Pat::Var(1)]))],
            });
            choices.push(Rule {
                body: vec![Fact::Eq(0, Pat::App(h, vec![Pat::Var(1), Pat::Var(1)]))],
                head: vec![Action::Union(Pat::Var(0), Pat::Var(1))],
            });
            choices.push(Rule {
                body: vec![Fact::Eq(0, Pat::App(h, vec![Pat::Var(1), Pat::App(k, vec![])]))],
                head: vec![Action::Union(Pat::Var(0), Pat::Var(1))],
            });
        }
        if let Some(&rl) = self.rels.first() {
            choices.push(Rule {
                body: vec![Fact::Pat(Pat::App(rl, vec![Pat::Var(1)])), Fact::Eq(0, Pat::App(f, vec![Pat::Var(1)]))],
                head: vec![Action::Set(rl, vec![Pat::Var(0)], Pat::Int(0))],
            });
            choices.push(Rule {
                body: vec![Fact::Eq(0, Pat::App(f, vec![Pat::Var(1)]))],
                head: vec![Action::Set(rl, vec![Pat::Var(1)], Pat::Int(0))],
            });
        }
        if let Some(&gf) = self.funcs.first() {
            choices.push(Rule {
                body: vec![Fact::Eq(0, Pat::App(gf, vec![Pat::Var(1)])), Fact::Eq(2, Pat::App(f, vec![Pat::Var(1)]))],
                head: vec![Action::Set(gf, vec![Pat::Var(2)], Pat::Add(Box::new(Pat::Var(0)), Box::new(Pat::Int(1))))],
            });
            choices.push(Rule {
                body: vec![
                    Fact::Eq(0, Pat::App(gf, vec![Pat::Var(1)])),
                    Fact::Eq(3, Pat::App(gf, vec![Pat::Var(2)])),
                    Fact::Lt(Pat::Var(0), Pat::Var(3)),
                    Fact::Eq(4, Pat::App(f, vec![Pat::Var(1)])),
                ],
                head: vec![Action::Union(Pat::Var(4), Pat::Var(2))],
            });
        }
        if let Some(n) = self.num {
            choices.push(Rule {
                body: vec![Fact::Eq(0, Pat::App(n, vec![Pat::Var(1)])), Fact::Lt(Pat::Var(1), Pat::Int(3))],
                head: vec![Action::Union(Pat::Var(0), Pat::App(f, vec![Pat::App(n, vec![Pat::Add(Box::new(Pat::Var(1)), Box::new(Pat::Int(1)))])]))],
            });
        }
        if self.bias == Bias::C05 && self.funcs.len() >= 1 {
            // every row of a function writes its value into ONE key within one iteration: several
            // writes to one key arrive in one batch (the parallel path pre-merges them in a
            // staging buffer before meeting the stored row)
            let gf = self.funcs[0];
            let gt = *self.funcs.last().unwrap();
            choices.push(Rule {
                body: vec![Fact::Eq(0, Pat::App(gf, vec![Pat::Var(1)]))],
                head: vec![Action::Set(gt, vec![Pat::App(k, vec![])], Pat::Var(0))],
            });
            choices.push(Rule {
                body: vec![Fact::Eq(0, Pat::App(gf, vec![Pat::Var(1)])), Fact::Eq(2, Pat::App(f, vec![Pat::Var(3)]))],
                head: vec![Action::Set(gt, vec![Pat::Var(2)], Pat::Add(Box::new(Pat::Var(0)), Box::new(Pat::Int(1))))],
            });
            choices.push(Rule {
                body: vec![Fact::Eq(0, Pat::App(gf, vec![Pat::Var(1)]))],
                head: vec![Action::Set(gt, vec![Pat::App(k, vec![])], Pat::Var(0))],
            });
        }
        if self.bias == Bias::C03 {
            // a wide head: one iteration stages writes to as many distinct tables as the signature
            // has (the database-level parallel merge only runs for >= 4 tables)
            let mut head = vec![Action::Expr(Pat::App(g, vec![Pat::Var(0)]))];
            if let Some(&rl) = self.rels.first() {
                head.push(Action::Set(rl, vec![Pat::Var(1)], Pat::Int(0)));
            }
            if let Some(&gf) = self.funcs.first() {
                head.push(Action::Set(gf, vec![Pat::Var(1)], Pat::Int(1)));
            }
            if let Some(&h) = self.binary.first() {
                head.push(Action::Expr(Pat::App(h, vec![Pat::Var(1), Pat::Var(0)])));
            }
            if let Some(n) = self.num {
                head.push(Action::Expr(Pat::App(n, vec![Pat::Int(7)])));
            }
            head.push(Action::Expr(Pat::App(k, vec![])));
            choices.push(Rule { body: vec![Fact::Eq(0, Pat::App(f, vec![Pat::Var(1)]))], head: head.clone() });
            choices.push(Rule { body: vec![Fact::Eq(0, Pat::App(f, vec![Pat::Var(1)]))], head });
        }
        if self.bias == Bias::C13 {
            // subsuming rewrite
            choices.push(Rule {
                body: vec![Fact::Eq(0, Pat::App(f, vec![Pat::Var(1)]))],
                head: vec![Action::Union(Pat::Var(0), Pat::App(g, vec![Pat::Var(1)])), Action::Subsume(f, vec![Pat::Var(1)])],
            });
        }
        let i = self.r.below(choices.len());
        choices.swap_remove(i)
    }

    pub fn command(&mut self) -> Cmd {
        if let Some(c) = self.pending.pop() {
            return c;
        }
        let k = self.r.below(100);
        let d = self.r.range(0, 3);
        match self.bias {
            Bias::C01 | Bias::C03 => {
                if k < 25 {
                    Cmd::Act(Action::Expr(self.term(d)))
                } else if k < 50 {
                    Cmd::Act(Action::Union(self.term(d), self.term(d)))
                } else if k < 60 {
                    // congruence tower
                    let f = *self.r.pick(&self.unary);
                    let a = Pat::App(*self.r.pick(&self.nullary), vec![]);
                    let h = self.r.range(1, 4);
                    Cmd::Act(Action::Expr(self.tower(f, h, a)))
                } else if k < (if self.bias == Bias::C03 { 80 } else { 72 }) {
                    Cmd::Rule(self.rule())
                } else if k < 90 {
                    Cmd::Run(self.r.range(1, 3))
                } else {
                    self.misc()
                }
            }
            Bias::C05 => {
                if k < 8 && self.nomerge.is_some() {
                    // two keys of a :no-merge function with (possibly) different values, unioned
                    // afterwards: the collision is created by the rebuild
                    let f = self.nomerge.unwrap();
                    let (a, b) = (self.term(d.min(2)), self.term(d.min(2)));
                    let (x, y) = (self.r.below(2) as i64, self.r.below(2) as i64);
                    self.pending.push(Cmd::Act(Action::Union(a.clone(), b.clone())));
                    self.pending.push(Cmd::Act(Action::Set(f, vec![b], Pat::Int(y))));
                    Cmd::Act(Action::Set(f, vec![a], Pat::Int(x)))
                } else if k < 16 && self.nomerge.is_some() {
                    // :no-merge function: equal values are fine, different ones must raise an error,
                    // also when the collision is only created later by a union
                    let f = self.nomerge.unwrap();
                    let t = self.term(d.min(2));
                    Cmd::Act(Action::Set(f, vec![t], Pat::Int(self.r.below(2) as i64)))
                } else if k < 45 && !self.funcs.is_empty() {
                    let f = *self.r.pick(&self.funcs);
                    let t = self.term(d.min(2));
                    Cmd::Act(Action::Set(f, vec![t], Pat::Int(self.r.below(7) as i64 - 2)))
                } else if k < 65 {
                    Cmd::Act(Action::Union(self.term(d), self.term(d)))
                } else if k < 75 {
                    Cmd::Rule(self.rule())
                } else if k < 85 {
                    Cmd::Run(self.r.range(1, 2))
                } else {
                    Cmd::Act(Action::Expr(self.term(d)))
                }
            }
            Bias::C13 => {
                if k < 20 {
                    Cmd::Act(Action::Expr(self.term(d)))
                } else if k < 40 {
                    let f = *self.r.pick(&self.unary);
                    Cmd::Act(Action::Subsume(f, vec![self.term(d.min(2))]))
                } else if k < 50 {
                    let f = *self.r.pick(&self.unary);
                    Cmd::Act(Action::Delete(f, vec![self.term(d.min(2))]))
                } else if k < 70 {
                    Cmd::Act(Action::Union(self.term(d), self.term(d)))
                } else if k < 80 {
                    Cmd::Rule(self.rule())
                } else {
                    Cmd::Run(self.r.range(1, 2))
                }
            }
            Bias::C04 => {
                if k < 20 {
                    Cmd::Act(Action::Expr(self.term(d)))
                } else if k < 40 {
                    Cmd::Act(Action::Union(self.term(d), self.term(d)))
                } else if k < 50 {
                    Cmd::Rule(self.rule())
                } else if k < 62 {
                    Cmd::Run(self.r.range(1, 2))
                } else {
                    self.fault()
                }
            }
        }
    }

    fn misc(&mut self) -> Cmd {
        if let (Some(&rl), true) = (self.rels.first(), self.r.chance(1, 2)) {
            let t = self.term(2);
            return Cmd::Act(Action::Set(rl, vec![t], Pat::Int(0)));
        }
        if let Some(&gf) = self.funcs.first() {
            let t = self.term(2);
            return Cmd::Act(Action::Set(gf, vec![t], Pat::Int(self.r.below(5) as i64)));
        }
        Cmd::Act(Action::Expr(self.term(3)))
    }

    /// commands that fail at run time (C04): the database must stay canonical and consistent
    fn fault(&mut self) -> Cmd {
        let k = self.r.below(6);
        let t1 = self.term(2);
        let t2 = self.term(2);
        let p = self.p.clone();
        match k {
            0 => {
                // a rule that unions and then panics, triggered right away
                let f = *self.r.pick(&self.unary);
                Cmd::Raw(format!(
                    "(ruleset boom{0})\n(rule ((= v0 ({1} v1))) ((union v0 v1) (panic \"boom\")) :ruleset boom{0})\n(run boom{0} 1)",
                    self.r.below(1_000_000),
                    p.decls[f].name
                ))
            }
            1 => {
                if let Some(nm) = self.nomerge {
                    Cmd::Raw(format!(
                        "(set ({0} {1}) 1)\n(set ({0} {1}) 2)",
                        p.decls[nm].name,
                        p.pat_text(&t1)
                    ))
                } else {
                    Cmd::Raw(format!("(check (= {} {}))", p.pat_text(&t1), p.pat_text(&t2)))
                }
            }
            2 => Cmd::Raw(format!("(check (= {} {}))", p.pat_text(&t1), p.pat_text(&t2))),
            3 => {
                // :no-merge conflict created by a union of two keys holding different values
                if let Some(nm) = self.nomerge {
                    Cmd::Raw(format!(
                        "(set ({0} {1}) 10)\n(set ({0} {2}) 20)\n(union {1} {2})",
                        p.decls[nm].name,
                        p.pat_text(&t1),
                        p.pat_text(&t2)
                    ))
                } else {
                    Cmd::Raw(format!("(extract {})", p.pat_text(&t1)))
                }
            }
            4 => {
                // failing primitive in an action of a rule that also unions
                let f = *self.r.pick(&self.unary);
                Cmd::Raw(format!(
                    "(ruleset div{0})\n(relation Dz{0} (i64))\n(rule ((= v0 ({1} v1))) ((union v0 v1) (Dz{0} (/ 1 0))) :ruleset div{0})\n(run div{0} 1)",
                    self.r.below(1_000_000),
                    p.decls[f].name
                ))
            }
            _ => Cmd::Raw(format!("(union {} {})\n(panic \"top\")", p.pat_text(&t1), p.pat_text(&t2))),
        }
    }

    /// scripted prefix of a batch-mode session: distinct keys of `gf` get distinct bit patterns,
    /// a rule folds all of them into one key of `gt` within one iteration, then a later batch adds more
    fn batch_script(&mut self) {
        let gf = self.funcs[0];
        let gt = *self.funcs.last().unwrap();
        let k = *self.r.pick(&self.nullary);
        let f = *self.r.pick(&self.unary);
        const BITS: [i64; 12] = [1, 2, 4, 8, 3, 5, 6, 9, 12, -2, -3, -5];
        let mut script: Vec<Cmd> = Vec::new();
        let n = self.r.range(3, 6);
        let mut keys: Vec<Pat> = Vec::new();
        for i in 0..n {
            let base = Pat::App(self.nullary[i % self.nullary.len()], vec![]);
            let t = self.tower(f, i / self.nullary.len(), base);
            keys.push(t.clone());
            script.push(Cmd::Act(Action::Set(gf, vec![t], Pat::Int(*self.r.pick(&BITS)))));
        }
        let rule = match self.r.below(3) {
            0 => Rule {
                body: vec![Fact::Eq(0, Pat::App(gf, vec![Pat::Var(1)]))],
                head: vec![Action::Set(gt, vec![Pat::App(k, vec![])], Pat::Var(0))],
            },
            1 => Rule {
                body: vec![Fact::Eq(0, Pat::App(gf, vec![Pat::Var(1)])), Fact::Eq(2, Pat::App(f, vec![Pat::Var(3)]))],
                head: vec![Action::Set(gt, vec![Pat::Var(2)], Pat::Var(0))],
            },
            _ => Rule {
                body: vec![Fact::Eq(0, Pat::App(gf, vec![Pat::Var(1)])), Fact::Eq(2, Pat::App(gf, vec![Pat::Var(3)]))],
                head: vec![Action::Set(gt, vec![Pat::Var(1)], Pat::Var(2))],
            },
        };
        let variant0 = matches!(&rule.head[0], Action::Set(_, a, _) if matches!(a[0], Pat::App(_, ref v) if v.is_empty()));
        script.push(Cmd::Rule(rule));
        script.push(Cmd::Run(1));
        if variant0 {
            // known answer: every row of gf (keys are distinct ground terms, nothing unioned yet)
            // writes its value into gt(K) within this one iteration
            let m = match &self.p.decls[gt].kind {
                Kind::Func(m) => m.clone(),
                _ => Merge::Or,
            };
            let vals: Vec<i64> = script
                .iter()
                .filter_map(|c| match c {
                    Cmd::Act(Action::Set(_, _, Pat::Int(z))) => Some(*z),
                    _ => None,
                })
                .collect();
            let fold = vals[1..].iter().fold(vals[0], |a, z| match m {
                Merge::Or => a | z,
                Merge::And => a & z,
                Merge::Min => a.min(*z),
                _ => a.max(*z),
            });
            let fact = format!("(= ({} ({})) {fold})", self.p.decls[gt].name, self.p.decls[k].name);
            self.p.expect.push((script.len() - 1, fact));
        }
        // a second batch: more patterns, possibly a union making two keys collide, run again
        let t = self.term(2);
        script.push(Cmd::Act(Action::Set(gf, vec![t], Pat::Int(*self.r.pick(&BITS)))));
        if self.r.chance(1, 2) && keys.len() >= 2 {
            script.push(Cmd::Act(Action::Union(keys[0].clone(), keys[1].clone())));
        }
        script.push(Cmd::Run(self.r.range(1, 2)));
        script.reverse();
        self.pending = script;
    }

    pub fn program(mut self, ncmds: usize) -> Program {
        let mut seen_rules: Vec<String> = Vec::new();
        if self.batch_mode && !self.funcs.is_empty() {
            self.batch_script();
        }
        let ncmds = if self.batch_mode { ncmds.max(self.pending.len() + 1) } else { ncmds };
        for _ in 0..ncmds {
            let mut c = self.command();
            if let Cmd::Rule(_) = &c {
                // the engine rejects a rule declared twice
                let t = self.p.cmd_text(&c);
                if seen_rules.contains(&t) {
                    c = Cmd::Run(1);
                } else {
                    seen_rules.push(t);
                }
            }
            self.p.cmds.push(c);
        }
        // make sure something is observable at the end
        if !matches!(self.p.cmds.last(), Some(Cmd::Run(_))) && self.r.chance(1, 2) {
            self.p.cmds.push(Cmd::Run(2));
        }
        self.p
    }
}
