(** Hand model of [EGraph::serialize] (/repo/src/serialize.rs:125-237, [serialize_value] 313-398,
    [value_to_class_id] 240-250, [to_node_id] 260-278) as a pure function of the dump of the Egg
    model (union-find + tables). Executable definitions only; proofs are in SerializeProofs.v.
    Tied to the implementation by harness h_serialize (kernel-evaluated cases_ser_*.v: the model is
    run on the REAL dump + canonical-id map of the engine after every command and compared with
    the real [serialize] output, node by node, in IndexMap order).

    Abstraction of the strings (bijective on what the generator produces):
      class id  "S-<rep>" -> [CEq rep],  "i64-<bits>" -> [CInt z] (z read from the node's op),
                "Unit-<bits>" -> [CUnit]
      node id   "function-<off>-<name>" -> [NFun f off], "primitive-<class>" -> [NPrim c],
                "dummy-<class>" -> [NDummy c]
      op        function name -> [OpFun f], formatted i64 -> [OpInt z], "()" -> [OpUnit],
                "[...]" -> [OpDummy]
    Not modelled: container sorts (children of a primitive node), let-bindings ([internal_let]
    functions, the "let" class data), costs, root_eclasses. *)
From Coq Require Import List Arith ZArith Bool PeanoNat.
Import ListNotations.
Require Import Verif.Base.Res Verif.Base.Cases Verif.gen.UFSeq Verif.Egg.Model.

(** output sort of a table: the eq-sort, i64, or Unit (relations) *)
Inductive okind := OEq | OInt | OUnit.

Inductive classid := CEq (i : nat) | CInt (z : Z) | CUnit.
Inductive nodeid := NFun (f off : nat) | NPrim (c : classid) | NDummy (c : classid).
Inductive opname := OpFun (f : nat) | OpInt (z : Z) | OpUnit | OpDummy.
Record node := mkNode { n_op : opname; n_class : classid; n_children : list nodeid; n_sub : bool }.

Definition classid_eq_dec (a b : classid) : {a = b} + {a <> b}.
Proof. decide equality; [apply Nat.eq_dec | apply Z.eq_dec]. Defined.
Definition nodeid_eq_dec (a b : nodeid) : {a = b} + {a <> b}.
Proof. decide equality; try apply Nat.eq_dec; apply classid_eq_dec. Defined.

Definition classid_eqb (a b : classid) : bool :=
  match a, b with
  | CEq i, CEq j => Nat.eqb i j
  | CInt x, CInt y => Z.eqb x y
  | CUnit, CUnit => true
  | _, _ => false
  end.
Definition nodeid_eqb (a b : nodeid) : bool :=
  match a, b with
  | NFun f o, NFun g q => Nat.eqb f g && Nat.eqb o q
  | NPrim c, NPrim d => classid_eqb c d
  | NDummy c, NDummy d => classid_eqb c d
  | _, _ => false
  end.
Definition opname_eqb (a b : opname) : bool :=
  match a, b with
  | OpFun f, OpFun g => Nat.eqb f g
  | OpInt x, OpInt y => Z.eqb x y
  | OpUnit, OpUnit => true
  | OpDummy, OpDummy => true
  | _, _ => false
  end.
Definition node_eqb (a b : node) : bool :=
  opname_eqb (n_op a) (n_op b) && classid_eqb (n_class a) (n_class b)
  && list_eqb nodeid_eqb (n_children a) (n_children b) && Bool.eqb (n_sub a) (n_sub b).

(* ---------------------------------------------------------------- insertion-ordered maps *)
(** [IndexMap]: [insert] replaces the value of an existing key in place, else appends *)
Section Assoc.
  Context {K V : Type} (dec : forall a b : K, {a = b} + {a <> b}).
  Fixpoint aget (l : list (K * V)) (k : K) : option V :=
    match l with
    | [] => None
    | (k0, v0) :: tl => if dec k0 k then Some v0 else aget tl k
    end.
  Fixpoint aput (l : list (K * V)) (k : K) (v : V) : list (K * V) :=
    match l with
    | [] => [(k, v)]
    | (k0, v0) :: tl => if dec k0 k then (k0, v) :: tl else (k0, v0) :: aput tl k v
    end.
End Assoc.

Fixpoint cadd (l : list classid) (c : classid) : list classid :=
  match l with
  | [] => [c]
  | c0 :: tl => if classid_eq_dec c0 c then l else c0 :: cadd tl c
  end.

(* ---------------------------------------------------------------- class ids *)
(** [value_to_class_id]: canonicalise through the union-find, tag with the sort *)
Definition class_of (p : list nat) (v : val) : classid :=
  match v with VId i => CEq (rep p i) | VInt z => CInt z end.
Definition out_class (p : list nat) (k : okind) (v : val) : classid :=
  match k with OUnit => CUnit | _ => class_of p v end.

(* ---------------------------------------------------------------- phase 1: all_calls *)
Record call := mkCall {
  c_f : nat; c_off : nat; c_args : list val; c_sub : bool; c_cls : classid }.

Definition call_key (c : call) : nodeid := NFun (c_f c) (c_off c).

Definition mk_calls (p : list nat) (k : okind) (f : nat) (i : nat) (rows : table) : list call :=
  mapi_from (fun off r => mkCall f off (rargs r) (rsub r) (out_class p k (rret r))) i rows.

Definition lim_reached (m : option nat) (n : nat) : bool :=
  match m with None => false | Some m => m <=? n end.
Definition lim_exceeded (m : option nat) (n : nat) : bool :=
  match m with None => false | Some m => m <? n end.
Definition take_opt {A} (m : option nat) (l : list A) : list A :=
  match m with None => l | Some m => firstn m l end.

(** the loop over [self.functions] (declaration order): a function is discarded once
    [max_functions] functions with at least one row were kept; a function with more than
    [max_calls_per_function] rows is truncated *)
Fixpoint collect (p : list nat) (outs : list okind) (mf mc : option nat) (f kept : nat)
  (ts : list table) : list call * list nat * list nat :=
  match ts with
  | [] => ([], [], [])
  | t :: tl =>
      if lim_reached mf kept then
        let '(cs, tr, di) := collect p outs mf mc (S f) kept tl in (cs, tr, f :: di)
      else
        let rows := take_opt mc t in
        let cs0 := mk_calls p (nth f outs OEq) f 0 rows in
        let kept' := match rows with [] => kept | _ => S kept end in
        let '(cs, tr, di) := collect p outs mf mc (S f) kept' tl in
        (cs0 ++ cs, (if lim_exceeded mc (length t) then f :: tr else tr), di)
  end.

(* ---------------------------------------------------------------- phase 2: node_ids *)
Definition idmap := list (classid * list nodeid).

Definition ids_push (m : idmap) (c : classid) (n : nodeid) : idmap :=
  match aget classid_eq_dec m c with
  | Some l => aput classid_eq_dec m c (l ++ [n])
  | None => aput classid_eq_dec m c [n]
  end.

Definition is_ceq (c : classid) : bool := match c with CEq _ => true | _ => false end.

Fixpoint init_ids (cs : list call) (m : idmap) : idmap :=
  match cs with
  | [] => m
  | c :: tl => init_ids tl (if is_ceq (c_cls c) then ids_push m (c_cls c) (call_key c) else m)
  end.

(* ---------------------------------------------------------------- phase 3 *)
Record sst := mkS { s_nodes : list (nodeid * node); s_ids : idmap; s_cdata : list classid }.

Definition rotl {A} (l : list A) : list A :=
  match l with [] => [] | a :: tl => tl ++ [a] end.

(** [serialize_value]: for an eq-sort value pick (and rotate) a node of its class, adding a dummy
    node when the class has none; for a base value add its primitive node *)
Definition ser_value (st : sst) (c : classid) : sst * nodeid :=
  let '(nodes, ids, n) :=
    match c with
    | CEq _ =>
        match aget classid_eq_dec (s_ids st) c with
        | Some l => let l' := rotl l in
                    (s_nodes st, aput classid_eq_dec (s_ids st) c l', hd (NDummy c) l')
        | None => (aput nodeid_eq_dec (s_nodes st) (NDummy c) (mkNode OpDummy c [] false),
                   aput classid_eq_dec (s_ids st) c [NDummy c], NDummy c)
        end
    | CInt z => (aput nodeid_eq_dec (s_nodes st) (NPrim c) (mkNode (OpInt z) c [] false),
                 s_ids st, NPrim c)
    | CUnit => (aput nodeid_eq_dec (s_nodes st) (NPrim c) (mkNode OpUnit c [] false),
                s_ids st, NPrim c)
    end in
  (mkS nodes ids (cadd (s_cdata st) c), n).

Fixpoint ser_values (st : sst) (cs : list classid) : sst * list nodeid :=
  match cs with
  | [] => (st, [])
  | c :: tl => let '(st1, n) := ser_value st c in
               let '(st2, ns) := ser_values st1 tl in (st2, n :: ns)
  end.

Definition ser_call (p : list nat) (st : sst) (c : call) : sst :=
  let '(st1, _) := ser_value st (c_cls c) in
  let '(st2, ch) := ser_values st1 (map (class_of p) (c_args c)) in
  mkS (aput nodeid_eq_dec (s_nodes st2) (call_key c) (mkNode (OpFun (c_f c)) (c_cls c) ch (c_sub c)))
      (s_ids st2) (s_cdata st2).

Definition ser_calls (p : list nat) (cs : list call) (st : sst) : sst :=
  fold_left (ser_call p) cs st.

Record sout := mkOut {
  o_nodes : list (nodeid * node); o_cdata : list classid;
  o_trunc : list nat; o_disc : list nat }.

Definition serialize (mf mc : option nat) (outs : list okind) (p : list nat) (ts : list table) : sout :=
  let '(cs, tr, di) := collect p outs mf mc 0 0 ts in
  let st := ser_calls p cs (mkS [] (init_ids cs []) []) in
  mkOut (s_nodes st) (s_cdata st) tr di.

(** [SerializeConfig::default()] *)
Definition serialize_default := serialize None None.

Definition find_node (g : sout) (n : nodeid) : option node := aget nodeid_eq_dec (o_nodes g) n.

(* ---------------------------------------------------------------- harness cases *)
Record nentry := mkNE { ne_id : nodeid; ne_node : node }.

Record scase := mkSCase {
  sc_outs : list okind;
  sc_canon : list nat;            (* i -> canonical id of i (hook H0), for every id in use *)
  sc_tabs : list table;
  sc_mf : option nat; sc_mc : option nat;
  sc_nodes : list nentry;   (* the engine's serialize output, IndexMap order *)
  sc_cdata : list classid;
  sc_trunc : list nat; sc_disc : list nat }.

Definition optnat_eqb (a b : option nat) : bool :=
  match a, b with Some x, Some y => Nat.eqb x y | None, None => true | _, _ => false end.

Definition check_case (c : scase) : bool :=
  let g := serialize (sc_mf c) (sc_mc c) (sc_outs c) (sc_canon c) (sc_tabs c) in
  list_eqb (fun a b => nodeid_eqb (ne_id a) (ne_id b) && node_eqb (ne_node a) (ne_node b))
    (map (fun a => mkNE (fst a) (snd a)) (o_nodes g)) (sc_nodes c)
  && list_eqb classid_eqb (o_cdata g) (sc_cdata c)
  && list_eqb Nat.eqb (o_trunc g) (sc_trunc c) && list_eqb Nat.eqb (o_disc g) (sc_disc c).
