(** The shared formal core "Egg": an executable model of what egglog-bridge implements on top of
    core-relations, at the level of logical tables. Executable definitions only (no proofs).

    - the union-find is the one TRANSLATED from union-find/src/lib.rs (gen/UFSeq.v);
    - the value kept on a collision is computed by the TRANSLATED merge arms (gen/MergeArms.v:
      UnionId = min, Old, New) and the subsume flag by the translated [combine_subsumed] (max);
    - every id carries a witness term (the term whose insertion created it), so every action of
      the model is a term-level command and the C01 theorems apply to all model runs. *)
From Coq Require Import List Arith ZArith Bool PeanoNat.
Import ListNotations.
Require Import Verif.Base.Res Verif.gen.UFSeq Verif.gen.MergeArms Verif.gen.BridgeFns.

Inductive val := VId (i : nat) | VInt (z : Z).

Definition val_eqb (a b : val) : bool :=
  match a, b with
  | VId i, VId j => Nat.eqb i j
  | VInt x, VInt y => Z.eqb x y
  | _, _ => false
  end.

Fixpoint vals_eqb (l1 l2 : list val) : bool :=
  match l1, l2 with
  | [], [] => true
  | a :: t1, b :: t2 => val_eqb a b && vals_eqb t1 t2
  | _, _ => false
  end.

Inductive term := T (f : nat) (args : list term) | TI (z : Z).

(** merge behaviour of a table: constructors are [MUnionId]; relations are functions to unit
    (modelled as [VInt 0] with [MOld]) *)
Inductive mergefn := MUnionId | MAssertEq | MOld | MNew | MMin | MMax | MOr | MAnd.

Record row := mkRow { rargs : list val; rret : val; rsub : bool }.
Definition table := list row.

Record state := mkSt {
  uf : list nat;          (* parent array of the translated union-find *)
  tabs : list table;      (* indexed by function id *)
  wit : list term         (* id -> witness term *)
}.

Definition init (nfuns : nat) : state := mkSt [] (repeat [] nfuns) [].

(* ---------------------------------------------------------------- canonical representatives *)

Definition rep (p : list nat) (i : nat) : nat :=
  match find_naive (length p) p i with Ok r => r | _ => i end.

Definition canon (p : list nat) (v : val) : val :=
  match v with VId i => VId (rep p i) | VInt _ => v end.

Definition canon_row (p : list nat) (r : row) : row :=
  mkRow (map (canon p) (rargs r)) (canon p (rret r)) (rsub r).

(* ---------------------------------------------------------------- tables *)

Definition tab_lookup (t : table) (args : list val) : option row :=
  List.find (fun r => vals_eqb (rargs r) args) t.

Definition bool_of_flag (n : nat) : bool := negb (Nat.eqb n 0).
Definition flag_of_bool (b : bool) : nat := if b then 1 else 0.
(** SUBSUMED = 1, NOT_SUBSUMED = 0; combined by the translated [combine_subsumed] *)
Definition combine_sub (a b : bool) : bool :=
  bool_of_flag (combine_subsumed (flag_of_bool a) (flag_of_bool b)).

(** value kept on a key collision, unions staged, and whether a :no-merge conflict was raised *)
Definition merge_vals (m : mergefn) (cur new : val) : val * list (nat * nat) * bool :=
  match m, cur, new with
  | MUnionId, VId a, VId b =>
      if Nat.eqb a b then (cur, [], false) else (VId (merge_unionid a b), [(a, b)], false)
  | MUnionId, _, _ => (cur, [], negb (val_eqb cur new))
  | MAssertEq, _, _ => (cur, [], negb (val_eqb cur new))
  | MOld, _, _ => (cur, [], false)
  | MNew, _, _ => (new, [], false)
  | MMin, VInt a, VInt b => (VInt (Z.min a b), [], false)
  | MMax, VInt a, VInt b => (VInt (Z.max a b), [], false)
  | MOr, VInt a, VInt b => (VInt (Z.lor a b), [], false)
  | MAnd, VInt a, VInt b => (VInt (Z.land a b), [], false)
  | _, _, _ => (cur, [], negb (val_eqb cur new))
  end.

Fixpoint tab_insert (m : mergefn) (t : table) (r : row) : table * list (nat * nat) * bool :=
  match t with
  | [] => ([r], [], false)
  | r0 :: tl =>
      if vals_eqb (rargs r0) (rargs r) then
        let '(v, us, e) := merge_vals m (rret r0) (rret r) in
        (mkRow (rargs r0) v (combine_sub (rsub r0) (rsub r)) :: tl, us, e)
      else
        let '(tl', us, e) := tab_insert m tl r in (r0 :: tl', us, e)
  end.

Fixpoint tab_remove (t : table) (args : list val) : table :=
  match t with
  | [] => []
  | r0 :: tl => if vals_eqb (rargs r0) args then tl else r0 :: tab_remove tl args
  end.

Fixpoint set_tab (ts : list table) (f : nat) (t : table) : list table :=
  match ts, f with
  | [], _ => []
  | _ :: tl, O => t :: tl
  | h :: tl, S f' => h :: set_tab tl f' t
  end.

Definition get_tab (ts : list table) (f : nat) : table := nth f ts [].

(* ---------------------------------------------------------------- union-find steps *)

Definition uf_union (p : list nat) (a b : nat) : Res (list nat) :=
  bind (union (Nat.max (length p) (S (Nat.max a b))) p a b) (fun '(p', _) => Ok p').

Fixpoint uf_unions (p : list nat) (us : list (nat * nat)) : Res (list nat) :=
  match us with
  | [] => Ok p
  | (a, b) :: tl => bind (uf_union p a b) (fun p' => uf_unions p' tl)
  end.

(* ---------------------------------------------------------------- rebuild *)

(** re-key every row of a table through the union-find; collisions go through the merge *)
Fixpoint rebuild_rows (p : list nat) (m : mergefn) (rows : table) (acc : table)
  : table * list (nat * nat) * bool :=
  match rows with
  | [] => (acc, [], false)
  | r :: tl =>
      let '(acc', us, e) := tab_insert m acc (canon_row p r) in
      let '(acc'', us', e') := rebuild_rows p m tl acc' in
      (acc'', us ++ us', e || e')
  end.

Fixpoint rebuild_tabs (p : list nat) (sg : list mergefn) (ts : list table)
  : list table * list (nat * nat) * bool :=
  match ts, sg with
  | t :: tl, m :: sg' =>
      let '(t', us, e) := rebuild_rows p m t [] in
      let '(tl', us', e') := rebuild_tabs p sg' tl in
      (t' :: tl', us ++ us', e || e')
  | t :: tl, [] =>
      let '(t', us, e) := rebuild_rows p MUnionId t [] in
      let '(tl', us', e') := rebuild_tabs p [] tl in
      (t' :: tl', us ++ us', e || e')
  | [], _ => ([], [], false)
  end.

(** one pass: all tables re-keyed w.r.t. the union-find at the start of the pass, then the
    unions staged by collisions are applied *)
Definition rebuild_pass (sg : list mergefn) (s : state) : Res (state * bool * bool) :=
  let '(ts', us, e) := rebuild_tabs (uf s) sg (tabs s) in
  bind (uf_unions (uf s) us) (fun p' =>
  Ok (mkSt p' ts' (wit s), match us with [] => false | _ => true end, e)).

(** iterate passes until a pass stages no union; returns the state and whether any :no-merge
    conflict was raised on the way *)
Fixpoint rebuild (fuel : nat) (sg : list mergefn) (s : state) : Res (state * bool) :=
  match fuel with
  | O => OutOfFuel
  | S fuel =>
      bind (rebuild_pass sg s) (fun '(s', more, e) =>
      if more then bind (rebuild fuel sg s') (fun '(s'', e') => Ok (s'', e || e'))
      else Ok (s', e))
  end.

(** fuel that provably suffices: every non-final pass merges at least two classes *)
Definition rebuild_fuel (s : state) : nat := S (S (length (uf s))).

(* ---------------------------------------------------------------- terms *)

Definition witv (w : list term) (v : val) : term :=
  match v with VId i => nth i w (TI 0) | VInt z => TI z end.

Fixpoint eval (s : state) (t : term) : option val :=
  match t with
  | TI z => Some (VInt z)
  | T f ts =>
      let fix evals (l : list term) : option (list val) :=
        match l with
        | [] => Some []
        | x :: tl => match eval s x, evals tl with
                     | Some v, Some vs => Some (v :: vs)
                     | _, _ => None
                     end
        end in
      match evals ts with
      | Some vs => match tab_lookup (get_tab (tabs s) f) vs with
                   | Some r => Some (rret r)
                   | None => None
                   end
      | None => None
      end
  end.

(** lookup-or-insert of a constructor application on already evaluated arguments *)
Definition add_node (s : state) (f : nat) (vs : list val) : state * val :=
  match tab_lookup (get_tab (tabs s) f) vs with
  | Some r => (s, rret r)
  | None =>
      let i := length (uf s) in
      (mkSt (uf s ++ [i])
            (set_tab (tabs s) f (get_tab (tabs s) f ++ [mkRow vs (VId i) false]))
            (wit s ++ [T f (map (witv (wit s)) vs)]),
       VId i)
  end.

Fixpoint add_term (s : state) (t : term) : state * val :=
  match t with
  | TI z => (s, VInt z)
  | T f ts =>
      let fix adds (s : state) (l : list term) : state * list val :=
        match l with
        | [] => (s, [])
        | x :: tl => let '(s1, v) := add_term s x in
                     let '(s2, vs) := adds s1 tl in (s2, v :: vs)
        end in
      let '(s', vs) := adds s ts in add_node s' f vs
  end.

(* ---------------------------------------------------------------- term-level commands *)

Inductive cmd :=
| CAdd (t : term)                 (* evaluate / insert a ground term *)
| CUnion (t1 t2 : term).          (* (union t1 t2) *)

Definition exec (sg : list mergefn) (s : state) (c : cmd) : Res state :=
  match c with
  | CAdd t => Ok (fst (add_term s t))
  | CUnion t1 t2 =>
      let '(s1, v1) := add_term s t1 in
      let '(s2, v2) := add_term s1 t2 in
      match v1, v2 with
      | VId a, VId b =>
          bind (uf_union (uf s2) a b) (fun p' =>
          let s3 := mkSt p' (tabs s2) (wit s2) in
          bind (rebuild (rebuild_fuel s3) sg s3) (fun '(s4, _) => Ok s4))
      | _, _ => Ok s2
      end
  end.

Fixpoint run (sg : list mergefn) (s : state) (cs : list cmd) : Res state :=
  match cs with
  | [] => Ok s
  | c :: tl => bind (exec sg s c) (fun s' => run sg s' tl)
  end.

Definition unions_of (cs : list cmd) : list (term * term) :=
  flat_map (fun c => match c with CUnion a b => [(a, b)] | _ => [] end) cs.
