(** C14 — one rebuild pass of the container environment (both strategies) against the union-find
    of the Egg core: invariants, canonicity of the result, the staged unions keep every live
    container id a root (so the "just the value changed" branch, suspect S3, is dead), dirty ids. *)
From Coq Require Import List Arith Bool PeanoNat Lia.
Import ListNotations.
Require Import Verif.Base.Res Verif.gen.UFSeq Verif.UF.Seq Verif.gen.MergeArms Verif.Egg.Model
  Verif.Egg.RepFacts Verif.Cont.Env Verif.Cont.Facts.

(* ------------------------------------------------------------------ contents *)

Lemma in_ins x l y : In y (ins x l) <-> y = x \/ In y l.
Proof.
  induction l as [|z l IH]; simpl; [intuition congruence|].
  destruct (x <=? z); simpl; [intuition congruence|]. rewrite IH. intuition congruence.
Qed.

Lemma in_insd x l y : In y (insd x l) <-> y = x \/ In y l.
Proof.
  induction l as [|z l IH]; simpl; [intuition congruence|].
  destruct (x <? z); simpl; [intuition congruence|].
  destruct (Nat.eqb_spec x z); simpl.
  - subst. intuition congruence.
  - rewrite IH. intuition congruence.
Qed.

Lemma in_sort_ms l y : In y (sort_ms l) <-> In y l.
Proof. induction l as [|x l IH]; simpl; [tauto|]. rewrite in_ins, IH. intuition congruence. Qed.

Lemma in_sort_set l y : In y (sort_set l) <-> In y l.
Proof. induction l as [|x l IH]; simpl; [tauto|]. rewrite in_insd, IH. intuition congruence. Qed.

Section WithOracle.
  Variable oracle : nat -> nat -> nat -> nat.

  Lemma insm_keys k v l x : In x (map fst (insm oracle k v l)) -> x = k \/ In x (map fst l).
  Proof.
    induction l as [|[k' v'] l IH]; simpl; [intuition congruence|].
    destruct (k <? k'); simpl; [intuition congruence|].
    destruct (Nat.eqb_spec k k'); simpl; [intuition congruence|].
    intros [H|H]; [intuition congruence|]. apply IH in H. intuition congruence.
  Qed.

  Lemma norm_map_keys l : forall acc x,
    In x (map fst (fold_left (fun a kv => insm oracle (fst kv) (snd kv) a) l acc)) ->
    In x (map fst l) \/ In x (map fst acc).
  Proof.
    induction l as [|[k v] l IH]; intros acc x H; simpl in *; [auto|].
    apply IH in H as [H|H]; [auto|]. apply insm_keys in H. intuition congruence.
  Qed.

  Section WithF.
    Variable f : nat -> nat.
    Hypothesis f_idem : forall x, f (f x) = f x.

    Definition canonical (c : cont) : Prop := changed f c = false.

    Lemma changed_false c : changed f c = false <-> forall x, In x (rids c) -> f x = x.
    Proof.
      unfold changed. split.
      - intros H x Hx. destruct (Nat.eqb_spec (f x) x) as [E|N]; [exact E|].
        exfalso. assert (T : existsb (fun x => negb (f x =? x)) (rids c) = true).
        { apply existsb_exists. exists x. split; [exact Hx|]. apply negb_true_iff. apply Nat.eqb_neq. exact N. }
        congruence.
      - intros H. destruct (existsb _ (rids c)) eqn:E; [|reflexivity].
        apply existsb_exists in E as (x & Hx & Hn). apply negb_true_iff in Hn. apply Nat.eqb_neq in Hn.
        exfalso. apply Hn. apply H. exact Hx.
    Qed.

    Lemma all_fixed_map l : forall x, In x (map f l) -> f x = x.
    Proof. intros x H. apply in_map_iff in H as (y & <- & _). apply f_idem. Qed.

    (** what [rebuild_contents] produces is canonical w.r.t. the rebuilder *)
    Lemma rebuild_raw_canonical c : canonical (rebuild_raw oracle f c).
    Proof.
      apply changed_false. destruct c as [l|l|l|a b|rk rv l]; simpl.
      - apply all_fixed_map.
      - intros x H. apply (proj1 (in_sort_set _ _)) in H. apply all_fixed_map in H. exact H.
      - intros x H. apply (proj1 (in_sort_ms _ _)) in H. apply all_fixed_map in H. exact H.
      - intros x [<-|[<-|[]]]; apply f_idem.
      - intros x H. apply in_app_iff in H as [H|H].
        + destruct rk; [|destruct H].
          assert (K : In x (map f (map fst l))).
          { destruct rv.
            - rewrite map_map in H. simpl in H.
              change (fun x0 : nat * nat => fst x0) with (@fst nat nat) in H.
              unfold norm_map in H. apply norm_map_keys in H as [H|[]].
              rewrite map_map in H. simpl in H. rewrite map_map. exact H.
            - unfold norm_map in H. apply norm_map_keys in H as [H|[]].
              rewrite map_map in H. simpl in H. rewrite map_map. exact H. }
          apply all_fixed_map in K. exact K.
        + destruct rv; [|destruct H].
          rewrite map_map in H. simpl in H.
          apply in_map_iff in H as (y & <- & _). apply f_idem.
    Qed.

    Lemma rebuild_contents_canonical c : canonical (rebuild_contents oracle f c).
    Proof.
      unfold rebuild_contents. destruct (changed f c) eqn:E; [apply rebuild_raw_canonical|exact E].
    Qed.
  End WithF.

  (* ---------------------------------------------------------------- one [insert_owned] *)

  Definition rootp (p : list nat) (w : nat) : Prop := rep p w = w /\ w < length p.

  Definition UFStep (p : list nat) (us : list (nat * nat)) (p' : list nat) : Prop :=
    uf_unions p us = Ok p' /\ Inv p' /\ length p' = length p /\ coarse p p'
    /\ nroots p' <= nroots p /\ (us <> [] -> nroots p' < nroots p).

  Lemma UFStep_nil p : Inv p -> UFStep p [] p.
  Proof.
    intros HI. repeat split; auto.
    - apply coarse_refl; auto.
    - intros H. congruence.
  Qed.

  Lemma uf_unions_app us1 : forall p us2,
    uf_unions p (us1 ++ us2) = bind (uf_unions p us1) (fun p1 => uf_unions p1 us2).
  Proof.
    induction us1 as [|[a b] us1 IH]; intros p us2; simpl; [reflexivity|].
    destruct (uf_union p a b); simpl; auto.
  Qed.

  Lemma UFStep_trans p us1 p1 us2 p2 : UFStep p us1 p1 -> UFStep p1 us2 p2 -> UFStep p (us1 ++ us2) p2.
  Proof.
    intros (E1 & I1 & L1 & C1 & N1 & S1) (E2 & I2 & L2 & C2 & N2 & S2).
    repeat split.
    - rewrite uf_unions_app, E1. simpl. exact E2.
    - exact I2.
    - lia.
    - eapply coarse_trans; eauto.
    - lia.
    - intros H. destruct us1 as [|u us1].
      + simpl in H. specialize (S2 H). lia.
      + assert (X : u :: us1 <> []) by congruence. specialize (S1 X). lia.
  Qed.

  (** the step lemma: filing contents [c] under a root id [v] that is not live, in an environment
      whose live ids are roots, stages at most one union, of two roots, and afterwards the live
      ids are again roots: the union-find picks the least id as representative and so does the
      merge closure *)
  Lemma put_step p e c v :
    Inv p -> EnvInv e -> ~ In v (live e) -> rootp p v -> (forall w, In w (live e) -> rootp p w) ->
    exists p', UFStep p (snd (insert_owned e c v)) p'
      /\ EnvInv (fst (fst (insert_owned e c v)))
      /\ (forall w, In w (live (fst (fst (insert_owned e c v)))) -> rootp p' w)
      /\ (forall w, In w (live (fst (fst (insert_owned e c v)))) -> w = v \/ In w (live e))
      /\ (forall w, rootp p w -> w <> v -> ~ In w (live e) -> rootp p' w).
  Proof.
    intros HI I Hv Rv Rl.
    pose proof (EnvInv_insert_owned e c v I Hv) as I'.
    destruct (insert_owned_proj e c v) as (Pid & Pact & Pus).
    unfold live in *. rewrite Pid, Pus. unfold io_ids, io_us.
    destruct (find_id (to_id e) c) as [old|] eqn:E.
    2:{ exists p. split; [apply UFStep_nil; auto|]. split; [exact I'|]. simpl.
        split; [intros w [<-|H]; auto|]. split; [intros w [<-|H]; auto|]. auto. }
    apply find_id_Some in E.
    assert (Hold : In old (map snd (to_id e))) by (apply (in_map snd) in E; exact E).
    assert (Ro : rootp p old) by (apply Rl; exact Hold).
    assert (Nov : old <> v) by (intros ->; contradiction).
    destruct (Nat.eqb_spec old v) as [|_]; [contradiction|].
    destruct Ro as [Ro Lo]. destruct Rv as [Rv Lv].
    destruct (uf_union_spec p old v HI Lo Lv) as (p1 & Hu & HI1 & Hl1 & Hg).
    rewrite Ro, Rv in Hg.
    assert (K : forall w, rootp p w -> w <> Nat.max old v -> rootp p1 w).
    { intros w [Rw Lw] Nw. split; [|lia]. rewrite Hg, Rw. unfold glue.
      destruct (Nat.eqb_spec w (Nat.max old v)); [contradiction|]. rewrite andb_false_r. reflexivity. }
    assert (Hg' : forall x, rep p1 x = glue (rep p old) (rep p v) (rep p x)) by (rewrite Ro, Rv; exact Hg).
    exists p1. split.
    { repeat split; auto.
      - simpl. rewrite Hu. reflexivity.
      - eapply glue_coarse; eauto.
      - apply nroots_mono; auto. eapply glue_roots; eauto.
      - intros _. destruct (glue_roots_strict p p1 old v HI HI1 Lo Lv Hg') as (x0 & Hx0 & Hr & Hr').
        { rewrite Ro, Rv. exact Nov. }
        eapply nroots_strict; eauto. eapply glue_roots; eauto. }
    split; [exact I'|].
    destruct (Nat.eqb_spec (Nat.min old v) old) as [Em|Nm].
    - (* the stored id wins *)
      assert (Hmax : Nat.max old v = v) by lia. rewrite Hmax in K.
      split; [intros w H; apply K; [apply Rl; exact H|intros ->; contradiction]|].
      split; [auto|]. intros w Rw Nw _. apply K; auto.
    - (* the incoming id wins: the entry is re-keyed *)
      assert (Hmin : Nat.min old v = v) by lia. assert (Hmax : Nat.max old v = old) by lia.
      rewrite Hmin, Hmax in *. simpl.
      assert (D : forall w, In w (map snd (del_key (to_id e) c)) -> In w (map snd (to_id e)) /\ w <> old).
      { intros w H. apply in_map_iff in H as ([d w'] & Ew & H). simpl in Ew. subst w'.
        apply in_del_key in H as [H N]. split; [apply (in_map snd) in H; exact H|].
        intros ->. apply N. eapply NoDup_snd_fun; [apply (inv_ids e I)|exact H|exact E]. }
      split.
      { intros w [<-|H]; [apply K; [split; auto|auto]|]. apply D in H as [H N]. apply K; auto. }
      split.
      { intros w [<-|H]; [auto|]. apply D in H as [H _]. auto. }
      intros w Rw Nw Hn. apply K; auto. intros ->. contradiction.
  Qed.

  (** where contents end up after one [insert_owned]: the filed contents sit under an id in the class
      of the incoming id, and every other entry keeps its contents under an id of its old class *)
  Lemma put_track p e c v p' :
    Inv p -> EnvInv e -> ~ In v (live e) -> rootp p v -> (forall w, In w (live e) -> rootp p w) ->
    uf_unions p (snd (insert_owned e c v)) = Ok p' ->
    (exists v', In (c, v') (to_id (fst (fst (insert_owned e c v)))) /\ rep p' v' = rep p' v)
    /\ (forall c0 v0, In (c0, v0) (to_id e) ->
          exists v'', In (c0, v'') (to_id (fst (fst (insert_owned e c v)))) /\ rep p' v'' = rep p' v0).
  Proof.
    intros HI I Hv Rv Rl.
    destruct (insert_owned_proj e c v) as (Pid & Pact & Pus).
    rewrite Pid, Pus. unfold io_ids, io_us.
    destruct (find_id (to_id e) c) as [old|] eqn:E.
    2:{ simpl. intros X. injection X as <-. split; [exists v; simpl; auto|].
        intros c0 v0 H. exists v0. simpl. auto. }
    apply find_id_Some in E.
    assert (Hold : In old (live e)) by (apply in_live; eauto).
    assert (Ro : rootp p old) by (apply Rl; exact Hold).
    assert (Nov : old <> v) by (intros ->; contradiction).
    destruct (Nat.eqb_spec old v) as [|_]; [contradiction|].
    destruct Ro as [Ro Lo]. destruct Rv as [Rv Lv].
    destruct (uf_union_spec p old v HI Lo Lv) as (p1 & Hu & HI1 & Hl1 & Hg).
    simpl. rewrite Hu. simpl. intros X. injection X as <-.
    assert (Em : rep p1 old = rep p1 v).
    { rewrite (Hg old), (Hg v). apply glue_merges. }
    destruct (Nat.eqb_spec (Nat.min old v) old) as [Emin|Nmin].
    - split; [exists old; auto|]. intros c0 v0 H. exists v0. auto.
    - assert (Hmin : Nat.min old v = v) by lia. rewrite Hmin.
      split; [exists v; simpl; auto|].
      intros c0 v0 H. destruct (cont_eqb c0 c) eqn:Ec.
      + apply cont_eqb_eq in Ec. subst c0.
        assert (v0 = old) by (eapply NoDup_fst_fun; [apply (inv_keys e I)| |]; eauto). subst v0.
        exists v. simpl. auto.
      + apply cont_eqb_neq in Ec. exists v0. split; [|reflexivity]. right. apply in_del_key. auto.
  Qed.

  Lemma io_ids_keep m c v d w : In (d, w) m -> d <> c -> In (d, w) (io_ids m c v).
  Proof.
    intros H N. unfold io_ids. destruct (find_id m c) as [old|]; [|simpl; auto].
    destruct (Nat.min old v =? old); [exact H|]. right. apply in_del_key. auto.
  Qed.

  (* ---------------------------------------------------------------- the full strategy *)

  Definition tid (t : cont * nat * bool) : nat := snd (fst t).
  Definition tcont (t : cont * nat * bool) : cont := fst (fst t).
  Definition chf (f : nat -> nat) (cv : cont * nat) : bool := changed f (fst cv).

  (** S3: when every entry id is a root of the union-find the pass is run against, the first loop
      of apply_rebuild_nonincremental only ever takes changed entries out; the "just the value
      changed" branch (which re-keys without maintaining val_index) is not reached, and every
      queued entry has [stable_id = true] *)
  Lemma scan_full_L f entries : forall e todo chg,
    (forall c v, In (c, v) entries -> f v = v) ->
    scan_full oracle f entries e todo chg =
      (fold_left take (map snd (filter (chf f) entries)) e,
       todo ++ map (fun cv => (rebuild_raw oracle f (fst cv), snd cv, true)) (filter (chf f) entries),
       chg || existsb (chf f) entries).
  Proof.
    induction entries as [|[c v] tl IH]; intros e todo chg H; simpl.
    - rewrite app_nil_r, orb_false_r. reflexivity.
    - assert (Ev : f v = v) by (apply (H c v); simpl; auto).
      cbn [scan_full filter existsb]. rewrite Ev, Nat.eqb_refl.
      replace (chf f (c, v)) with (changed f c) by reflexivity.
      destruct (changed f c) eqn:Ec; cbn [negb andb orb map fold_left snd fst].
      + rewrite IH by (intros; apply (H c0 v0); simpl; auto).
        rewrite <- app_assoc. cbn [app]. rewrite orb_true_r. reflexivity.
      + apply IH. intros; apply (H c0 v0); simpl; auto.
  Qed.

  Lemma take_many_inv ids : forall e, EnvInv e -> EnvInv (fold_left take ids e).
  Proof. induction ids as [|v ids IH]; intros e I; simpl; auto. apply IH. apply EnvInv_take. exact I. Qed.

  Lemma take_many_in ids : forall e c w,
    In (c, w) (to_id (fold_left take ids e)) <-> In (c, w) (to_id e) /\ ~ In w ids.
  Proof.
    induction ids as [|v ids IH]; intros e c w; simpl; [tauto|].
    rewrite IH. simpl. rewrite in_del_id. intuition congruence.
  Qed.

  Definition contents_ok (Q : cont -> Prop) (e : env) : Prop := forall d w, In (d, w) (to_id e) -> Q d.

  Lemma io_ids_in m c v d w : In (d, w) (io_ids m c v) ->
    (d = c /\ w = io_actual m c v) \/ In (d, w) m.
  Proof.
    unfold io_ids, io_actual. destruct (find_id m c) as [old|] eqn:E.
    - destruct (Nat.min old v =? old); [auto|]. intros [H|H].
      + injection H as <- <-. auto.
      + apply in_del_key in H as [H _]. auto.
    - intros [H|H]; [injection H as <- <-; auto|auto].
  Qed.

  Lemma io_ids_other m c v d w : In (d, w) (io_ids m c v) -> w <> v -> In (d, w) m.
  Proof.
    intros H N. pose proof H as H0. apply io_ids_in in H as [[-> Ew]|H]; [|exact H].
    unfold io_actual in Ew. unfold io_ids in H0. destruct (find_id m c) as [old|] eqn:E; [|congruence].
    assert (Eo : w = old) by lia. rewrite Eo. apply find_id_Some. exact E.
  Qed.

  Lemma reinsert_spec (Q : cont -> Prop) : forall todo p e us dirty,
    Inv p -> EnvInv e -> NoDup (map tid todo) ->
    (forall w, In w (map tid todo) -> ~ In w (live e) /\ rootp p w) ->
    (forall w, In w (live e) -> rootp p w) ->
    contents_ok Q e -> (forall t, In t todo -> Q (tcont t)) ->
    exists p' us',
      snd (fst (reinsert todo e us dirty)) = us ++ us'
      /\ UFStep p us' p'
      /\ EnvInv (fst (fst (reinsert todo e us dirty)))
      /\ (forall w, In w (live (fst (fst (reinsert todo e us dirty)))) -> rootp p' w)
      /\ contents_ok Q (fst (fst (reinsert todo e us dirty)))
      /\ (forall d w, In (d, w) (to_id (fst (fst (reinsert todo e us dirty)))) ->
             ~ In w (map tid todo) -> In (d, w) (to_id e))
      /\ (forall w, In w (live (fst (fst (reinsert todo e us dirty)))) ->
             In w (map tid todo) \/ In w (live e))
      /\ (forall w, In w dirty -> In w (snd (reinsert todo e us dirty)))
      /\ (forall t, In t todo -> snd t = true ->
             In (tid t) (live (fst (fst (reinsert todo e us dirty)))) ->
             In (tid t) (snd (reinsert todo e us dirty))).
  Proof.
    induction todo as [|[[c v] st] tl IH]; intros p e us dirty HI I ND Ht Rl Qe Qt.
    - exists p, []. simpl. rewrite app_nil_r.
      split; [reflexivity|]. split; [apply UFStep_nil; auto|]. split; [exact I|].
      split; [exact Rl|]. split; [exact Qe|].
      split; [auto|]. split; [auto|]. split; [auto|]. intros t [].
    - cbn [reinsert].
      destruct (insert_owned e c v) as [[e' actual] u] eqn:Eio.
      inversion ND as [|x l Hnv ND']; subst.
      destruct (Ht v) as [Hv Rv]; [simpl; auto|].
      destruct (put_step p e c v HI I Hv Rv Rl) as (p1 & U1 & I1 & R1 & S1 & O1).
      destruct (insert_owned_proj e c v) as (Pid & Pact & Pus).
      rewrite Eio in U1, I1, R1, S1, Pid, Pact, Pus. cbn [fst snd] in U1, I1, R1, S1, Pid, Pact, Pus.
      assert (HI1 : Inv p1) by (destruct U1 as (_ & X & _); exact X).
      assert (Ht1 : forall w, In w (map tid tl) -> ~ In w (live e') /\ rootp p1 w).
      { intros w Hw. destruct (Ht w) as [Hw1 Hw2]; [simpl; auto|].
        assert (Nwv : w <> v) by (intros ->; contradiction).
        split; [|apply O1; auto]. intros Hl. apply S1 in Hl as [->|Hl]; contradiction. }
      assert (Qe1 : contents_ok Q e').
      { intros d w H. rewrite Pid in H. apply io_ids_in in H as [[-> _]|H]; [|eapply Qe; eauto].
        apply (Qt (c, v, st)). simpl. auto. }
      destruct (IH p1 e' (us ++ u) (if st && (actual =? v) then dirty ++ [v] else dirty)
                   HI1 I1 ND' Ht1 R1 Qe1) as (p2 & us2 & E2 & U2 & I2 & R2 & Q2 & K2 & S2 & D2 & T2).
      { intros t Hin. apply Qt. simpl. auto. }
      exists p2, (u ++ us2). rewrite E2, app_assoc.
      split; [reflexivity|]. split; [eapply UFStep_trans; eauto|]. split; [exact I2|].
      split; [exact R2|]. split; [exact Q2|].
      split.
      { intros d w H Hn. simpl in Hn. apply K2 in H; [|tauto]. rewrite Pid in H.
        eapply io_ids_other; eauto. }
      split.
      { intros w H. apply S2 in H as [H|H]; [simpl; auto|]. apply S1 in H as [->|H]; simpl; auto. }
      split.
      { intros w H. apply D2. destruct (st && (actual =? v)); [apply in_app_iff|]; auto. }
      intros t [<-|Hin] Est Hl.
      + simpl in Est. subst st. unfold tid in *. simpl in *.
        destruct (Nat.eqb_spec actual v) as [Ea|Na]; simpl.
        * apply D2. apply in_app_iff. simpl. auto.
        * exfalso. apply S2 in Hl as [Hl|Hl]; [contradiction|].
          (* the incoming id lost: it is not live afterwards *)
          unfold live in Hl. rewrite Pid in Hl. apply in_map_iff in Hl as ([d w] & Ew & Hl). simpl in Ew. subst w.
          apply io_ids_in in Hl as [[_ Ev]|Hl].
          -- rewrite <- Pact in Ev. congruence.
          -- apply Hv. apply in_live. eauto.
      + apply T2; auto.
  Qed.

  Definition tpair (t : cont * nat * bool) : cont * nat := (tcont t, tid t).

  (** where contents end up after the second loop of the full strategy *)
  Lemma reinsert_track : forall todo p e us dirty,
    Inv p -> EnvInv e -> NoDup (map tid todo) ->
    (forall w, In w (map tid todo) -> ~ In w (live e) /\ rootp p w) ->
    (forall w, In w (live e) -> rootp p w) ->
    exists p' us',
      snd (fst (reinsert todo e us dirty)) = us ++ us' /\ uf_unions p us' = Ok p'
      /\ forall c v, ((exists v', In (c, v') (to_id e) /\ rep p v' = rep p v) \/ In (c, v) (map tpair todo)) ->
            exists v', In (c, v') (to_id (fst (fst (reinsert todo e us dirty)))) /\ rep p' v' = rep p' v.
  Proof.
    induction todo as [|[[c v] st] tl IH]; intros p e us dirty HI I ND Ht Rl.
    - exists p, []. simpl. rewrite app_nil_r. split; [reflexivity|]. split; [reflexivity|].
      intros c v [H|[]]. exact H.
    - cbn [reinsert].
      inversion ND as [|x l Hnv ND']; subst.
      destruct (Ht v) as [Hv Rv]; [simpl; auto|].
      destruct (put_step p e c v HI I Hv Rv Rl) as (p1 & U1 & I1 & R1 & S1 & O1).
      pose proof U1 as (Eu1 & HI1 & _ & Hco1 & _).
      destruct (put_track p e c v p1 HI I Hv Rv Rl Eu1) as [T7 T8].
      destruct (insert_owned e c v) as [[e' actual] u] eqn:Eio.
      cbn [fst snd] in *.
      assert (Ht1 : forall w, In w (map tid tl) -> ~ In w (live e') /\ rootp p1 w).
      { intros w Hw. destruct (Ht w) as [Hw1 Hw2]; [simpl; auto|].
        assert (Nwv : w <> v) by (intros ->; contradiction).
        split; [|apply O1; auto]. intros Hl. apply S1 in Hl as [->|Hl]; contradiction. }
      destruct (IH p1 e' (us ++ u) (if st && (actual =? v) then dirty ++ [v] else dirty) HI1 I1 ND' Ht1 R1)
        as (p2 & us2 & E2 & U2 & T2).
      exists p2, (u ++ us2). rewrite E2, app_assoc. split; [reflexivity|].
      split; [rewrite uf_unions_app, Eu1; simpl; exact U2|].
      intros c0 v0 [(v0' & Hin & Heq)|Hin].
      + destruct (T8 c0 v0' Hin) as (v'' & Hin' & Heq'). apply T2. left. exists v''. split; [exact Hin'|].
        rewrite Heq'. eapply coarse_eq; eauto.
      + destruct Hin as [Hin|Hin].
        * unfold tpair, tcont, tid in Hin. simpl in Hin. injection Hin as <- <-.
          destruct T7 as (v' & Hin' & Heq'). apply T2. left. eauto.
        * apply T2. right. exact Hin.
  Qed.

  Lemma rootp_rep p w : rootp p w -> rep p w = w.
  Proof. intros [H _]. exact H. Qed.

  (** the full strategy, run against the union-find [p] in a state whose live ids are roots *)
  Theorem pass_full_spec p e e2 us dirty chg :
    Inv p -> EnvInv e -> (forall w, In w (live e) -> rootp p w) ->
    pass_full oracle (rep p) e = (e2, us, dirty, chg) ->
    exists p', UFStep p us p' /\ EnvInv e2 /\ (forall w, In w (live e2) -> rootp p' w)
      /\ contents_ok (canonical (rep p)) e2
      /\ (chg = false -> e2 = e /\ us = [])
      /\ (contents_ok (canonical (rep p)) e -> chg = false)
      /\ (forall c c' v, In (c, v) (to_id e) -> In (c', v) (to_id e2) -> c <> c' -> In v dirty)
      /\ (forall w, In w (live e2) -> In w (live e)).
  Proof.
    intros HI I Rl. unfold pass_full.
    rewrite scan_full_L.
    2:{ intros c v H. apply rootp_rep. apply Rl. apply in_live. eauto. }
    set (chs := filter (chf (rep p)) (to_id e)).
    set (e1 := fold_left take (map snd chs) e).
    set (todo := map (fun cv => (rebuild_raw oracle (rep p) (fst cv), snd cv, true)) chs).
    cbn [app orb].
    destruct (reinsert todo e1 [] []) as [[e2' us'] dirty'] eqn:Er.
    intros X. injection X as <- <- <- <-.
    assert (Etid : map tid todo = map snd chs).
    { unfold todo. rewrite map_map. apply map_ext. intros [c v]. reflexivity. }
    assert (Hchs : forall c v, In (c, v) chs <-> In (c, v) (to_id e) /\ changed (rep p) c = true).
    { intros c v. unfold chs. rewrite filter_In. unfold chf. simpl. tauto. }
    assert (I1 : EnvInv e1) by (apply take_many_inv; exact I).
    assert (Hin1 : forall c w, In (c, w) (to_id e1) <-> In (c, w) (to_id e) /\ ~ In w (map snd chs))
      by (intros; apply take_many_in).
    assert (Hids : forall w, In w (map snd chs) -> In w (live e)).
    { intros w H. apply in_map_iff in H as ([c w'] & Ew & H). simpl in Ew. subst w'.
      apply Hchs in H as [H _]. apply in_live. eauto. }
    destruct (reinsert_spec (canonical (rep p)) todo p e1 [] [] HI I1)
      as (p' & us2 & E2 & U2 & I2 & R2 & Q2 & K2 & S2 & D2 & T2).
    - rewrite Etid. apply NoDup_map_filter. apply (inv_ids e I).
    - rewrite Etid. intros w H. split; [|apply Rl; apply Hids; exact H].
      intros Hl. apply in_live in Hl as (c & Hl). apply Hin1 in Hl as [_ Hl]. contradiction.
    - intros w H. apply in_live in H as (c & H). apply Hin1 in H as [H _]. apply Rl. apply in_live. eauto.
    - intros d w H. apply Hin1 in H as [H Hn]. unfold canonical.
      destruct (changed (rep p) d) eqn:Ed; [|reflexivity].
      exfalso. apply Hn. apply (in_map snd chs (d, w)). apply Hchs. auto.
    - intros t H. unfold todo in H. apply in_map_iff in H as ([c v] & <- & _). simpl.
      apply rebuild_raw_canonical. intros x. apply rep_idem. exact HI.
    - rewrite Er in *. cbn [fst snd app] in *. subst us2.
      exists p'. split; [exact U2|]. split; [exact I2|]. split; [exact R2|]. split; [exact Q2|].
      split.
      { intros Hc. assert (chs = []).
        { destruct chs as [|x chs'] eqn:Ec; [reflexivity|]. exfalso.
          assert (Hx : In x (filter (chf (rep p)) (to_id e))) by (fold chs; rewrite Ec; simpl; auto).
          apply filter_In in Hx as [Hx1 Hx2].
          assert (T : existsb (chf (rep p)) (to_id e) = true) by (apply existsb_exists; eauto).
          congruence. }
        unfold todo, e1 in Er. rewrite H in Er. simpl in Er. injection Er as <- <- _. auto. }
      split.
      { intros Hc. destruct (existsb (chf (rep p)) (to_id e)) eqn:Ex; [|reflexivity].
        apply existsb_exists in Ex as ([c v] & Hx & Hy). unfold chf in Hy. simpl in Hy.
        specialize (Hc c v Hx). unfold canonical in Hc. congruence. }
      split.
      { intros c c' v Hc Hc' Nc. destruct (changed (rep p) c) eqn:Ec.
        - apply (T2 (rebuild_raw oracle (rep p) c, v, true)).
          + unfold todo. apply in_map_iff. exists (c, v). split; [reflexivity|]. apply Hchs. auto.
          + reflexivity.
          + apply in_live. exists c'. exact Hc'.
        - exfalso. apply Nc. apply K2 in Hc'.
          + apply Hin1 in Hc' as [Hc' _]. eapply NoDup_snd_fun; [apply (inv_ids e I)| |]; eauto.
          + rewrite Etid. intros H. apply in_map_iff in H as ([c0 v0] & Ev & H). simpl in Ev. subst v0.
            apply Hchs in H as [H1 H2].
            assert (c0 = c) by (eapply NoDup_snd_fun; [apply (inv_ids e I)| |]; eauto).
            subst c0. congruence. }
      intros w H. apply S2 in H as [H|H].
      + rewrite Etid in H. apply Hids. exact H.
      + apply in_live in H as (c & H). apply Hin1 in H as [H _]. apply in_live. eauto.
  Qed.

  Theorem pass_full_track p e e2 us dirty chg :
    Inv p -> EnvInv e -> (forall w, In w (live e) -> rootp p w) ->
    pass_full oracle (rep p) e = (e2, us, dirty, chg) ->
    exists p', uf_unions p us = Ok p'
      /\ forall c v, In (c, v) (to_id e) ->
            exists v', In (rebuild_contents oracle (rep p) c, v') (to_id e2) /\ rep p' v' = rep p' v.
  Proof.
    intros HI I Rl. unfold pass_full.
    rewrite scan_full_L.
    2:{ intros c v H. apply rootp_rep. apply Rl. apply in_live. eauto. }
    set (chs := filter (chf (rep p)) (to_id e)).
    set (e1 := fold_left take (map snd chs) e).
    set (todo := map (fun cv => (rebuild_raw oracle (rep p) (fst cv), snd cv, true)) chs).
    cbn [app orb].
    destruct (reinsert todo e1 [] []) as [[e2' us'] dirty'] eqn:Er.
    intros X. injection X as <- <- <- <-.
    assert (Etid : map tid todo = map snd chs).
    { unfold todo. rewrite map_map. apply map_ext. intros [c v]. reflexivity. }
    assert (Hchs : forall c v, In (c, v) chs <-> In (c, v) (to_id e) /\ changed (rep p) c = true).
    { intros c v. unfold chs. rewrite filter_In. unfold chf. simpl. tauto. }
    assert (I1 : EnvInv e1) by (apply take_many_inv; exact I).
    assert (Hin1 : forall c w, In (c, w) (to_id e1) <-> In (c, w) (to_id e) /\ ~ In w (map snd chs))
      by (intros; apply take_many_in).
    assert (Hids : forall w, In w (map snd chs) -> In w (live e)).
    { intros w H. apply in_map_iff in H as ([c w'] & Ew & H). simpl in Ew. subst w'.
      apply Hchs in H as [H _]. apply in_live. eauto. }
    destruct (reinsert_track todo p e1 [] [] HI I1) as (p' & us2 & E2 & U2 & T2).
    - rewrite Etid. apply NoDup_map_filter. apply (inv_ids e I).
    - rewrite Etid. intros w H. split; [|apply Rl; apply Hids; exact H].
      intros Hl. apply in_live in Hl as (c & Hl). apply Hin1 in Hl as [_ Hl]. contradiction.
    - intros w H. apply in_live in H as (c & H). apply Hin1 in H as [H _]. apply Rl. apply in_live. eauto.
    - rewrite Er in *. cbn [fst snd app] in *. subst us2.
      exists p'. split; [exact U2|].
      intros c v H. apply T2. unfold rebuild_contents. destruct (changed (rep p) c) eqn:Ec.
      + right. unfold todo. rewrite map_map. apply in_map_iff. exists (c, v). split; [reflexivity|].
        apply Hchs. auto.
      + left. exists v. split; [|reflexivity]. apply Hin1. split; [exact H|].
        intros Hn. apply in_map_iff in Hn as ([c0 v0] & Ev & Hn). simpl in Ev. subst v0.
        apply Hchs in Hn as [H1 H2].
        assert (c0 = c) by (eapply NoDup_snd_fun; [apply (inv_ids e I)| |]; eauto).
        subst c0. congruence.
  Qed.

  (* ---------------------------------------------------------------- the incremental strategy *)

  Lemma live_take_keep e v w : In w (live (take_keep e v)) <-> In w (live e) /\ w <> v.
  Proof.
    rewrite !in_live. simpl. split.
    - intros (c & H). apply in_del_id in H as [H N]. eauto.
    - intros ((c & H) & N). exists c. apply in_del_id. auto.
  Qed.

  Section Inc.
    Variable f : nat -> nat.
    Hypothesis f_idem : forall x, f (f x) = f x.

    Lemma rebuild_contents_same c : changed f c = false -> rebuild_contents oracle f c = c.
    Proof. intros H. unfold rebuild_contents. rewrite H. reflexivity. Qed.

    Lemma inc_loop_spec : forall ids p e us dirty chg,
      Inv p -> EnvInv e -> (forall w, In w (live e) -> rootp p w /\ f w = w) ->
      (forall d w, In (d, w) (to_id e) -> canonical f d \/ In w ids) ->
      exists p' us',
        snd (fst (fst (inc_loop oracle f ids e us dirty chg))) = us ++ us'
        /\ UFStep p us' p'
        /\ EnvInv (fst (fst (fst (inc_loop oracle f ids e us dirty chg))))
        /\ (forall w, In w (live (fst (fst (fst (inc_loop oracle f ids e us dirty chg))))) -> rootp p' w)
        /\ contents_ok (canonical f) (fst (fst (fst (inc_loop oracle f ids e us dirty chg))))
        /\ (forall w, In w (live (fst (fst (fst (inc_loop oracle f ids e us dirty chg))))) -> In w (live e))
        /\ (forall w, In w dirty -> In w (snd (fst (inc_loop oracle f ids e us dirty chg))))
        /\ (forall c c' v, In (c, v) (to_id e) ->
               In (c', v) (to_id (fst (fst (fst (inc_loop oracle f ids e us dirty chg))))) -> c <> c' ->
               In v (snd (fst (inc_loop oracle f ids e us dirty chg))))
        /\ (snd (inc_loop oracle f ids e us dirty chg) = false -> chg = false /\ us' = [])
        /\ (contents_ok (canonical f) e -> snd (inc_loop oracle f ids e us dirty chg) = chg).
    Proof.
      induction ids as [|id tl IH]; intros p e us dirty chg HI I Rl Hc.
      - exists p, []. simpl. rewrite app_nil_r.
        split; [reflexivity|]. split; [apply UFStep_nil; auto|]. split; [exact I|].
        split; [intros w H; apply Rl; exact H|].
        split; [intros d w H; destruct (Hc d w H) as [X|[]]; exact X|].
        split; [auto|]. split; [auto|].
        split; [intros c c' v H1 H2 N; exfalso; apply N; eapply NoDup_snd_fun; [apply (inv_ids e I)| |]; eauto|].
        split; [auto|]. auto.
      - cbn [inc_loop]. destruct (get_container e id) as [c|] eqn:G.
        2:{ apply IH; auto. intros d w H. destruct (Hc d w H) as [X|[<-|X]]; auto.
            exfalso. apply (get_container_spec e id d I) in H. congruence. }
        apply (get_container_spec e id c I) in G.
        assert (Hlid : In id (live e)) by (apply in_live; eauto).
        destruct (Rl id Hlid) as [Rid Fid]. rewrite Fid, Nat.eqb_refl. cbn [negb andb orb].
        change (mkEnv (del_id (to_id e) id) (to_cont e) (vidx e)) with (take_keep e id).
        set (c' := rebuild_contents oracle f c).
        set (e1 := take_keep e id).
        assert (I1 : EnvInv e1) by (apply EnvInv_take_keep; exact I).
        assert (Hn1 : ~ In id (live e1)) by (intros H; apply live_take_keep in H as [_ H]; congruence).
        assert (Rl1 : forall w, In w (live e1) -> rootp p w)
          by (intros w H; apply live_take_keep in H as [H _]; apply Rl; exact H).
        destruct (put_step p e1 c' id HI I1 Hn1 Rid Rl1) as (p1 & U1 & I2 & R2 & S2 & O2).
        destruct (insert_owned_proj e1 c' id) as (Pid & Pact & Pus).
        destruct (insert_owned e1 c' id) as [[e2 actual] u] eqn:Eio.
        cbn [fst snd] in U1, I2, R2, S2, Pid, Pact, Pus.
        assert (HI1 : Inv p1) by (destruct U1 as (_ & X & _); exact X).
        assert (Hsub : forall w, In w (live e2) -> In w (live e)).
        { intros w H. apply S2 in H as [->|H]; [exact Hlid|]. apply live_take_keep in H as [H _]. exact H. }
        assert (Hin1 : forall d w, In (d, w) (to_id e1) <-> In (d, w) (to_id e) /\ w <> id)
          by (intros; apply in_del_id).
        assert (Cc' : canonical f c') by (apply rebuild_contents_canonical; exact f_idem).
        assert (Hc2 : forall d w, In (d, w) (to_id e2) -> canonical f d \/ In w tl).
        { intros d w H. rewrite Pid in H. apply io_ids_in in H as [[-> _]|H]; [auto|].
          apply Hin1 in H as [H N]. destruct (Hc d w H) as [X|[X|X]]; auto. congruence. }
        destruct (IH p1 e2 (us ++ u)
                     (if changed f c && true && (actual =? id) then dirty ++ [id] else dirty)
                     (chg || changed f c) HI1 I2)
          as (p2 & us2 & E2 & U2 & I3 & R3 & Q3 & S3 & D3 & T3 & G3 & A3); auto.
        { intros w H. split; [apply R2; exact H|]. apply Rl. apply Hsub. exact H. }
        rewrite orb_false_r.
        exists p2, (u ++ us2). rewrite E2, app_assoc.
        split; [reflexivity|]. split; [eapply UFStep_trans; eauto|]. split; [exact I3|].
        split; [exact R3|]. split; [exact Q3|].
        split; [intros w H; apply Hsub; apply S3; exact H|].
        split.
        { intros w H. apply D3. destruct (changed f c && true && (actual =? id)); [apply in_app_iff|]; auto. }
        split.
        { intros c0 c0' v H0 H0' N0.
          assert (Hv2 : In v (live e2)) by (apply S3; apply in_live; eauto).
          apply in_live in Hv2 as (c'' & Hc'').
          destruct (cont_eqb c'' c0) eqn:Ecc.
          { apply cont_eqb_eq in Ecc. subst c''. eapply T3; eauto. }
          apply cont_eqb_neq in Ecc.
          pose proof Hc'' as Hio. rewrite Pid in Hio. apply io_ids_in in Hio as [[-> Ev]|Hio].
          2:{ exfalso. apply Ecc. apply Hin1 in Hio as [Hio _].
              eapply NoDup_snd_fun; [apply (inv_ids e I)| |]; eauto. }
          rewrite <- Pact in Ev. subst actual.
          destruct (Nat.eqb_spec v id) as [->|Nv].
          - assert (c0 = c) by (eapply NoDup_snd_fun; [apply (inv_ids e I)| |]; eauto). subst c0.
            assert (Ech : changed f c = true).
            { destruct (changed f c) eqn:X; [reflexivity|]. exfalso. apply Ecc.
              unfold c'. apply rebuild_contents_same. exact X. }
            apply D3. rewrite Ech, <- Ev, Nat.eqb_refl. simpl. apply in_app_iff. simpl. auto.
          - exfalso. apply Ecc.
            assert (Hold : In (c', v) (to_id e1)).
            { unfold io_actual in Ev. destruct (find_id (to_id e1) c') as [old|] eqn:Ef; [|congruence].
              assert (v = old) by lia. subst old. apply find_id_Some. exact Ef. }
            apply Hin1 in Hold as [Hold _].
            eapply NoDup_snd_fun; [apply (inv_ids e I)| |]; eauto. }
        split.
        { intros Hs. destruct (G3 Hs) as [Hch Hu2]. apply orb_false_iff in Hch as [-> Hch]. subst us2.
          split; [reflexivity|]. rewrite app_nil_r. rewrite Pus. unfold io_us.
          assert (Ec' : c' = c) by (unfold c'; apply rebuild_contents_same; exact Hch).
          rewrite Ec'. destruct (find_id (to_id e1) c) as [old|] eqn:Ef; [|reflexivity].
          exfalso. apply find_id_Some in Ef. apply Hin1 in Ef as [Ef Nf]. apply Nf.
          eapply NoDup_fst_fun; [apply (inv_keys e I)| |]; eauto. }
        intros Hall.
        assert (Hch : changed f c = false) by (apply (Hall c id G)).
        rewrite Hch, orb_false_r in A3. rewrite Hch, orb_false_r. apply A3.
        intros d w H. rewrite Pid in H. apply io_ids_in in H as [[-> _]|H]; [exact Cc'|].
        apply Hin1 in H as [H _]. eapply Hall; eauto.
    Qed.

    Lemma rebuild_contents_idem c :
      rebuild_contents oracle f (rebuild_contents oracle f c) = rebuild_contents oracle f c.
    Proof. apply rebuild_contents_same. apply rebuild_contents_canonical. exact f_idem. Qed.

    (** where contents end up after the incremental strategy *)
    Lemma inc_loop_track : forall ids p e us dirty chg,
      Inv p -> EnvInv e -> (forall w, In w (live e) -> rootp p w /\ f w = w) ->
      exists p' us',
        snd (fst (fst (inc_loop oracle f ids e us dirty chg))) = us ++ us' /\ uf_unions p us' = Ok p'
        /\ forall c v,
              ((exists v', In (rebuild_contents oracle f c, v') (to_id e) /\ rep p v' = rep p v)
               \/ (In (c, v) (to_id e) /\ In v ids)) ->
              exists v', In (rebuild_contents oracle f c, v')
                            (to_id (fst (fst (fst (inc_loop oracle f ids e us dirty chg)))))
                         /\ rep p' v' = rep p' v.
    Proof.
      induction ids as [|id tl IH]; intros p e us dirty chg HI I Rl.
      - exists p, []. simpl. rewrite app_nil_r. split; [reflexivity|]. split; [reflexivity|].
        intros c v [H|[_ []]]. exact H.
      - cbn [inc_loop]. destruct (get_container e id) as [cid|] eqn:G.
        2:{ destruct (IH p e us dirty chg HI I Rl) as (p' & us' & E & U & T).
            exists p', us'. split; [exact E|]. split; [exact U|].
            intros c v [H|[H1 [<-|H2]]]; [apply T; auto| |apply T; auto].
            exfalso. apply (get_container_spec e id c I) in H1. congruence. }
        apply (get_container_spec e id cid I) in G.
        assert (Hlid : In id (live e)) by (apply in_live; eauto).
        destruct (Rl id Hlid) as [Rid Fid]. rewrite Fid, Nat.eqb_refl. cbn [negb andb orb].
        change (mkEnv (del_id (to_id e) id) (to_cont e) (vidx e)) with (take_keep e id).
        set (c' := rebuild_contents oracle f cid).
        set (e1 := take_keep e id).
        assert (I1 : EnvInv e1) by (apply EnvInv_take_keep; exact I).
        assert (Hn1 : ~ In id (live e1)) by (intros H; apply live_take_keep in H as [_ H]; congruence).
        assert (Rl1 : forall w, In w (live e1) -> rootp p w)
          by (intros w H; apply live_take_keep in H as [H _]; apply Rl; exact H).
        destruct (put_step p e1 c' id HI I1 Hn1 Rid Rl1) as (p1 & U1 & I2 & R2 & S2 & O2).
        pose proof U1 as (Eu1 & HI1 & _ & Hco1 & _).
        destruct (put_track p e1 c' id p1 HI I1 Hn1 Rid Rl1 Eu1) as [T7 T8].
        destruct (insert_owned_proj e1 c' id) as (Pid & _ & _).
        destruct (insert_owned e1 c' id) as [[e2 actual] u] eqn:Eio.
        cbn [fst snd] in *.
        assert (Hsub : forall w, In w (live e2) -> In w (live e)).
        { intros w H. apply S2 in H as [->|H]; [exact Hlid|]. apply live_take_keep in H as [H _]. exact H. }
        assert (Hin1 : forall d w, In (d, w) (to_id e1) <-> In (d, w) (to_id e) /\ w <> id)
          by (intros; apply in_del_id).
        destruct (IH p1 e2 (us ++ u)
                     (if changed f cid && true && (actual =? id) then dirty ++ [id] else dirty)
                     (chg || changed f cid) HI1 I2) as (p2 & us2 & E2 & U2 & T2).
        { intros w H. split; [apply R2; exact H|]. apply Rl. apply Hsub. exact H. }
        rewrite orb_false_r.
        exists p2, (u ++ us2). rewrite E2, app_assoc. split; [reflexivity|].
        split; [rewrite uf_unions_app, Eu1; simpl; exact U2|].
        assert (Hhead : forall v0, rep p id = rep p v0 ->
                  exists v', In (c', v') (to_id e2) /\ rep p1 v' = rep p1 v0).
        { intros v0 Heq. destruct T7 as (v' & Hin' & Heq'). exists v'. split; [exact Hin'|].
          rewrite Heq'. eapply coarse_eq; eauto. }
        intros c0 v0 [(v0' & Hin & Heq)|[Hin Hids]].
        + apply T2. left. destruct (Nat.eq_dec v0' id) as [->|Nid].
          * (* the tracked entry is the one being rebuilt: its contents are already canonical *)
            assert (Ec : cid = rebuild_contents oracle f c0)
              by (eapply NoDup_snd_fun; [apply (inv_ids e I)| |]; eauto).
            assert (Ec' : c' = rebuild_contents oracle f c0).
            { unfold c'. rewrite Ec. apply rebuild_contents_idem. }
            rewrite <- Ec'. apply Hhead. exact Heq.
          * destruct (T8 (rebuild_contents oracle f c0) v0') as (v'' & Hin' & Heq').
            { apply Hin1. auto. }
            exists v''. split; [exact Hin'|]. rewrite Heq'. eapply coarse_eq; eauto.
        + destruct (Nat.eq_dec v0 id) as [->|Nid].
          * assert (Ec : c0 = cid) by (eapply NoDup_snd_fun; [apply (inv_ids e I)| |]; eauto).
            subst c0. apply T2. left. apply Hhead. reflexivity.
          * destruct Hids as [Hx|Hids]; [congruence|].
            destruct (changed f c0) eqn:Ech.
            -- (* still to be visited: the entry is untouched (its contents are not canonical) *)
               apply T2. right. split; [|exact Hids]. rewrite Pid. apply io_ids_keep.
               ++ apply Hin1. auto.
               ++ intros ->. pose proof (rebuild_contents_canonical f f_idem cid) as X.
                  fold c' in X. unfold canonical in X. congruence.
            -- apply T2. left. rewrite (rebuild_contents_same c0 Ech).
               destruct (T8 c0 v0) as (v'' & Hin' & Heq'); [apply Hin1; auto|]. eauto.
    Qed.
  End Inc.
End WithOracle.
