//! Byte-level stream into the parser, executed in child processes (a stack overflow aborts the
//! process and cannot be caught in-process).
use verif_harness::util::Rng;

#[derive(Clone, Debug)]
pub struct ByteInput {
    pub label: String,
    /// false: `EGraph::parse_program` only; true: `parse_and_run_program`
    pub run: bool,
    pub text: String,
    /// compact replay description (the text itself when short)
    pub replay: String,
}

pub fn deep_text(shape: &str, depth: usize) -> String {
    match shape {
        "parens-balanced" => format!("{}{}", "(".repeat(depth), ")".repeat(depth)),
        "parens-unclosed" => "(".repeat(depth),
        "expr-in-check" => format!("(check (= 1 {}1{}))", "(+ 1 ".repeat(depth), ")".repeat(depth)),
        "expr-in-let" => format!("(let $x {}1{})", "(- ".repeat(depth), ")".repeat(depth)),
        "schedule" => format!("(run-schedule {}(run){})", "(repeat 1 ".repeat(depth), ")".repeat(depth)),
        "closers" => ")".repeat(depth),
        _ => String::new(),
    }
}

const HEADS: &[&str] = &[
    "sort", "datatype", "datatype*", "function", "constructor", "relation", "ruleset", "rule", "rewrite", "birewrite",
    "let", "set", "union", "delete", "subsume", "panic", "run", "run-schedule", "check", "extract", "print-size",
    "print-function", "print-stats", "fail", "pop", "unstable-combined-ruleset", "prove", "saturate", "seq", "repeat",
];
const ATOMS: &[&str] = &[
    "i64", "String", "f64", "bool", "Unit", "Vec", "Map", "Set", "S", "T", "f", "g", "R", "A", "B", "x", "y", "$g", "old",
    "new", "=", "+", "-", "*", "min", "max", "!=", "vec-of", "vec-push", "map-empty", "set-of", "unstable-fn",
    ":merge", ":no-merge", ":cost", ":ruleset", ":name", ":when", ":until", ":unextractable", ":subsume", ":naive",
    "0", "1", "-1", "2", "9223372036854775807", "-9223372036854775808", "9223372036854775808",
    "99999999999999999999999999", "1.5", "1e999", "-0.0", "NaN", "inf", "true", "false", "\"a\"", "\"\"", "\"r1\"",
    "()", "#", "'", ",", "@", "\u{3bb}", "\u{1F980}",
];

fn soup_sexp(r: &mut Rng, depth: usize, out: &mut String) {
    if depth == 0 || r.chance(2, 5) {
        out.push_str(*r.pick(ATOMS));
        return;
    }
    out.push('(');
    if r.chance(3, 4) {
        out.push_str(if depth >= 3 { *r.pick(HEADS) } else { *r.pick(ATOMS) });
    }
    for _ in 0..r.below(5) {
        out.push(' ');
        soup_sexp(r, depth - 1, out);
    }
    // occasionally unbalanced
    if !r.chance(1, 25) {
        out.push(')');
    }
}

/// a small valid prelude so that soups hit typed paths, not only "unbound"
const PRELUDE: &str = "(sort S) (constructor A () S) (constructor B (S) S) (function f (i64) i64 :merge (min old new)) (function g (S) i64 :no-merge) (relation R (i64)) (ruleset T) (let $g (A)) ";

pub fn generate(seed: u64, thorough: bool, egg_files: &[(String, String)]) -> Vec<ByteInput> {
    let mut v: Vec<ByteInput> = Vec::new();
    let short = |label: &str, run: bool, text: String| ByteInput { label: label.into(), run, replay: text.clone(), text };
    // 1. fixed odd inputs: unclosed strings, escapes, huge integers, lone tokens
    for (i, t) in [
        "\"", "(check (= \"abc", "(panic \"\\", "(panic \"\\q\")", "\"\\", "(let $s \"a\nb\")", ";", ";;;\n(", ")", "(", "()",
        "(())", "( )", "(check)", "(check (= 1 99999999999999999999999))", "(check (= 1 -9223372036854775809))",
        "(run 18446744073709551616)", "(run 9223372036854775807)", "(constructor K () S :cost 99999999999999999999)",
        "(sort S) (constructor K () S :cost 18446744073709551615)", "(check (= 1.0 1e999))", "(let $x 1e-999)",
        "(run-schedule (repeat 18446744073709551616 (run)))", "(print-function f 99999999999999999999)",
        "(function f (i64) i64 :merge)", "(function f (i64) i64 :merge :merge)", "(function)", "(rule)", "(rule () ())",
        "(rule (()) (()))", "(datatype)", "(datatype D ())", "(datatype D (()))", "(datatype* (D))", "(sort S ())",
        "(sort S (Vec))", "(sort S (Vec i64 i64))", "(sort S (Map))", "(relation R)", "(relation R ())", "(relation R (()))",
        "(let)", "(let x)", "(set)", "(set (f))", "(union)", "(union 1)", "(extract)", "(extract 1 2 3)", "(extract 1 -1)",
        "(fail)", "(fail (fail))", "(fail (fail (check)))", "(pop)", "(pop 0)", "(pop -1)", "(run -1)", "(run \"x\")",
        "(unstable-combined-ruleset)", "(unstable-combined-ruleset a a)", "(unstable-combined-ruleset a b)",
        "(ruleset a) (unstable-combined-ruleset b a) (rule () () :ruleset b)", "(check (= x x))", "(check (!= 1 1))",
        "(delete (f 1))", "(subsume (f 1))", "(function f (i64) i64 :merge old) (subsume (f 1))",
        "(sort S) (constructor A () S) (delete (A)) (subsume (A)) (extract (A))",
        "(function f (i64) i64 :no-merge) (set (f 1) 1) (set (f 1) 2)", "(check (= (unstable-fn \"nope\") 1))",
        "(sort F (UnstableFn (i64) i64)) (let $h (unstable-fn \"nope\"))", "(let $v (vec-get (vec-of 1) 5))",
        "(let $v (vec-get (vec-empty) 0))", "(sort V (Vec i64)) (let $v (vec-get (vec-of 1) -1))",
        "(let $d (/ 1 0))", "(let $d (% 1 0))", "(let $d (<< 1 100))", "(let $d (+ 9223372036854775807 1))",
        "(let $d (* 9223372036854775807 9223372036854775807))", "(let $d (- -9223372036854775808 1))",
        "(let $d (log 0))", "(let $d (sqrt -1))", "(let $d (to-i64 1e300))", "(let $b (bigint 1)) (let $c (/ $b (bigint 0)))",
        "(let $q (rational 1 0))", "(let $q (bigrat (bigint 1) (bigint 0)))", "(let $s (+ \"a\" 1))",
        "(print-size nope)", "(print-function nope 1)", "(run nope 1)", "(prove (= 1 1))", "(prove-exists nope)",
        "\u{0}", "(\u{0})", "(check (= \"\u{0}\" \"\"))", "\u{feff}(check)", "(check (= 1 1))\r\n(check)\r\n",
    ]
    .iter()
    .enumerate()
    {
        v.push(short(&format!("fixed/{i}"), !t.contains("push"), t.to_string()));
    }
    // 2. deep nesting
    let depths: &[usize] = if thorough { &[100, 1000, 10_000, 100_000, 1_000_000] } else { &[100, 1000, 10_000, 100_000] };
    for shape in ["parens-balanced", "parens-unclosed", "expr-in-check", "expr-in-let", "schedule", "closers"] {
        for d in depths {
            v.push(ByteInput {
                label: format!("deep/{shape}/{d}"),
                run: true,
                text: deep_text(shape, *d),
                replay: format!("deep:{shape}:{d}"),
            });
        }
    }
    // 3. random bytes
    let nrand = if thorough { 60_000 } else { 700 };
    for i in 0..nrand {
        let mut r = Rng::for_case(seed ^ 0xB17E5, i as u64);
        let big = r.chance(1, 10);
        let len = r.below(if big { 400 } else { 40 });
        let bytes: Vec<u8> = (0..len)
            .map(|_| match r.below(10) {
                0..=3 => *r.pick(b"()\"; \n\\:$-"),
                4..=6 => r.range(0x20, 0x7e) as u8,
                _ => r.below(256) as u8,
            })
            .collect();
        v.push(short("random-bytes", true, String::from_utf8_lossy(&bytes).to_string()));
    }
    // 4. token soups
    let nsoup = if thorough { 140_000 } else { 1300 };
    for i in 0..nsoup {
        let mut r = Rng::for_case(seed ^ 0x50FA, i as u64);
        let mut t = String::new();
        if r.chance(1, 2) {
            t.push_str(PRELUDE);
        }
        for _ in 0..r.range(1, 3) {
            soup_sexp(&mut r, 4, &mut t);
            t.push(' ');
        }
        let run = !t.contains("push");
        v.push(short("token-soup", run, t));
    }
    // 5. prefix truncations of the repository's own programs (parser only)
    let nfiles = if thorough { egg_files.len() } else { egg_files.len().min(14) };
    let mut r = Rng::for_case(seed ^ 0xF11E, 0);
    let mut idx: Vec<usize> = (0..egg_files.len()).collect();
    for i in (1..idx.len()).rev() {
        idx.swap(i, r.below(i + 1));
    }
    for &fi in idx.iter().take(nfiles) {
        let (name, src) = &egg_files[fi];
        let bounds: Vec<usize> = (0..=src.len()).filter(|i| src.is_char_boundary(*i)).collect();
        let limit = if thorough { 4000 } else { 120 };
        let cuts: Vec<usize> = if bounds.len() <= limit {
            bounds.clone()
        } else {
            let mut c: Vec<usize> = (0..limit).map(|k| bounds[k * (bounds.len() - 1) / (limit - 1)]).collect();
            // every prefix of the first 40 bytes as well
            c.extend(bounds.iter().take(40).copied());
            c.sort();
            c.dedup();
            c
        };
        for c in cuts {
            v.push(ByteInput {
                label: "prefix-truncation".into(),
                run: false,
                text: src[..c].to_string(),
                replay: format!("prefix:{name}:{c}"),
            });
        }
    }
    v
}

/// child side: run inputs `from..` of the batch file, logging `S i` before and `R i <res>` after each
pub fn child_main(infile: &str, logfile: &str, from: usize) -> i32 {
    use std::io::Write;
    let data = std::fs::read(infile).expect("batch file");
    let mut inputs: Vec<(bool, String)> = Vec::new();
    let mut p = 0usize;
    while p < data.len() {
        let run = data[p] == 1;
        let len = u32::from_le_bytes([data[p + 1], data[p + 2], data[p + 3], data[p + 4]]) as usize;
        let s = String::from_utf8(data[p + 5..p + 5 + len].to_vec()).expect("utf8");
        inputs.push((run, s));
        p += 5 + len;
    }
    let mut log = std::fs::OpenOptions::new().create(true).append(true).open(logfile).expect("log");
    super::run::install_panic_hook();
    for (i, (run, text)) in inputs.into_iter().enumerate().skip(from) {
        writeln!(log, "S {i}").unwrap();
        log.flush().unwrap();
        // 8 MiB: the default main-thread stack of the CLI
        let h = std::thread::Builder::new()
            .stack_size(8 << 20)
            .spawn(move || {
                let r = std::panic::catch_unwind(move || {
                    let mut eg = egglog::EGraph::default();
                    let a = eg.parse_program(None, &text).is_ok();
                    if run {
                        let mut eg2 = egglog::EGraph::default();
                        let b = eg2.parse_and_run_program(None, &text).is_ok();
                        std::mem::forget(eg2);
                        (a, b)
                    } else {
                        (a, a)
                    }
                });
                match r {
                    Ok((a, b)) => format!("{} {}", if a { "ok" } else { "err" }, if b { "ok" } else { "err" }),
                    Err(_) => format!(
                        "panic {}",
                        super::run::LAST_PANIC.with(|p| p.borrow().clone()).unwrap_or_default()
                    ),
                }
            })
            .unwrap();
        let res = h.join().unwrap_or_else(|_| "panic <thread>".into());
        writeln!(log, "R {i} {res}").unwrap();
        log.flush().unwrap();
    }
    0
}
