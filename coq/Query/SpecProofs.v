(** C02 — facts about the specification matcher (Query/Spec.v): a substitution is produced by the
    nested loops iff there is one witness row per atom that satisfies the atom under it. *)
From Coq Require Import List Arith Bool PeanoNat Lia.
Import ListNotations.
Require Import Verif.Query.Spec.

Definition ext (e e' : env) : Prop := forall x v, lookup e x = Some v -> lookup e' x = Some v.

Lemma ext_refl e : ext e e.
Proof. intros x v H; exact H. Qed.

Lemma ext_trans a b c : ext a b -> ext b c -> ext a c.
Proof. intros H1 H2 x v H. apply H2, H1, H. Qed.

Lemma lookup_cons_eq e x v : lookup ((x, v) :: e) x = Some v.
Proof. simpl. rewrite Nat.eqb_refl. reflexivity. Qed.

Lemma lookup_cons_neq e x y v : x <> y -> lookup ((y, v) :: e) x = lookup e x.
Proof. intros H. simpl. destruct (Nat.eqb_spec x y); [contradiction | reflexivity]. Qed.

Lemma ext_cons_fresh e x v : lookup e x = None -> ext e ((x, v) :: e).
Proof.
  intros Hn y w Hy. destruct (Nat.eq_dec y x) as [->|Hne].
  - rewrite Hn in Hy. discriminate.
  - rewrite lookup_cons_neq; assumption.
Qed.

(** what an argument demands of a row under a substitution *)
Definition arg_ok (t : env) (r : row) (c : nat) (g : arg) : Prop :=
  match g with
  | AVar x => lookup t x = Some (col r c)
  | AConst k => col r c = k
  end.

Definition row_ok (a : atom) (t : env) (r : row) : Prop :=
  all_cs (a_cs a) r = true /\ forall c g, In (c, g) (iargs a) -> arg_ok t r c g.

Definition witness (q : query) (d : db) (t : env) (ws : list row) : Prop :=
  Forall2 (fun a w => In w (get_tab d (a_tab a)) /\ row_ok a t w) (q_atoms q) ws.

Lemma arg_ok_ext t t' r c g : ext t t' -> arg_ok t r c g -> arg_ok t' r c g.
Proof. intros He. destruct g; simpl; auto. Qed.

Lemma match_pairs_sound : forall ps r e e',
  match_pairs ps r e = Some e' ->
  ext e e' /\ forall c g, In (c, g) ps -> arg_ok e' r c g.
Proof.
  induction ps as [|[c g] tl IH]; intros r e e' H; simpl in H.
  - inversion H; subst. split; [apply ext_refl | intros ? ? []].
  - destruct g as [x|k].
    + destruct (lookup e x) as [v|] eqn:Hl.
      * destruct (Nat.eqb_spec v (col r c)) as [->|]; [|discriminate].
        destruct (IH _ _ _ H) as [He Ha]. split; [exact He|].
        intros c' g' [Heq|Hin]; [|apply Ha; exact Hin].
        inversion Heq; subst. simpl. apply He. exact Hl.
      * destruct (IH _ _ _ H) as [He Ha]. split.
        -- eapply ext_trans; [apply ext_cons_fresh; exact Hl | exact He].
        -- intros c' g' [Heq|Hin]; [|apply Ha; exact Hin].
           inversion Heq; subst. simpl. apply He. apply lookup_cons_eq.
    + destruct (Nat.eqb_spec (col r c) k) as [Hk|]; [|discriminate].
      destruct (IH _ _ _ H) as [He Ha]. split; [exact He|].
      intros c' g' [Heq|Hin]; [|apply Ha; exact Hin].
      inversion Heq; subst. simpl. reflexivity.
Qed.

Lemma match_atoms_sound : forall d ats es t,
  In t (match_atoms d ats es) ->
  exists e ws, In e es /\ ext e t /\
    Forall2 (fun a w => In w (get_tab d (a_tab a)) /\ row_ok a t w) ats ws.
Proof.
  induction ats as [|a tl IH]; intros es t H; simpl in H.
  - exists t, []. repeat split; [exact H | apply ext_refl | constructor].
  - destruct (IH _ _ H) as (e1 & ws & Hin1 & Hext1 & HF).
    apply in_flat_map in Hin1. destruct Hin1 as (e & He & Hin1).
    unfold match_atom in Hin1. apply in_flat_map in Hin1. destruct Hin1 as (r & Hr & Hin1).
    unfold match_row in Hin1.
    destruct (all_cs (a_cs a) r) eqn:Hcs; [|destruct Hin1].
    destruct (match_pairs (iargs a) r e) as [e'|] eqn:Hm; [|destruct Hin1].
    destruct Hin1 as [<-|[]].
    destruct (match_pairs_sound _ _ _ _ Hm) as [Hee Hargs].
    exists e, (r :: ws). repeat split.
    + exact He.
    + eapply ext_trans; eassumption.
    + constructor; [|exact HF]. split; [exact Hr|]. split; [exact Hcs|].
      intros c g Hcg. eapply arg_ok_ext; [exact Hext1 | apply Hargs; exact Hcg].
Qed.

(** every substitution the nested loops produce has a witness row per atom *)
Lemma matches_sound q d t : In t (matches q d) -> exists ws, witness q d t ws.
Proof.
  intros H. destruct (match_atoms_sound _ _ _ _ H) as (e & ws & _ & _ & HF).
  exists ws. exact HF.
Qed.

(* ---------------------------------------------------------------- completeness *)

(** the rows agree with each other on every variable *)
Definition pair_consistent (srcs : list (atom * row)) : Prop :=
  forall a w b w' c c' x, In (a, w) srcs -> In (b, w') srcs ->
    In (c, AVar x) (iargs a) -> In (c', AVar x) (iargs b) -> col w c = col w' c'.

Definition local_ok (d : db) (a : atom) (w : row) : Prop :=
  In w (get_tab d (a_tab a)) /\ all_cs (a_cs a) w = true /\
  forall c k, In (c, AConst k) (iargs a) -> col w c = k.

Section Complete.
  Variable srcs : list (atom * row).
  Hypothesis Hcons : pair_consistent srcs.

  (** every binding comes from some row *)
  Definition from_rows (e : env) : Prop :=
    forall x v, lookup e x = Some v ->
      exists a w c, In (a, w) srcs /\ In (c, AVar x) (iargs a) /\ v = col w c.

  Lemma match_pairs_complete : forall ps a w e,
    In (a, w) srcs -> incl ps (iargs a) -> from_rows e ->
    (forall c k, In (c, AConst k) ps -> col w c = k) ->
    exists e', match_pairs ps w e = Some e' /\ from_rows e'.
  Proof.
    induction ps as [|[c g] tl IH]; intros a w e Hin Hincl Hfr Hk; simpl.
    - exists e. split; [reflexivity | exact Hfr].
    - assert (Hincl' : incl tl (iargs a)) by (intros z Hz; apply Hincl; right; exact Hz).
      assert (Hk' : forall c k, In (c, AConst k) tl -> col w c = k) by (intros; apply Hk; right; assumption).
      destruct g as [x|k].
      + destruct (lookup e x) as [v|] eqn:Hl.
        * destruct (Hfr _ _ Hl) as (a0 & w0 & c0 & Hin0 & Hc0 & ->).
          assert (Heq : col w0 c0 = col w c).
          { eapply Hcons; [exact Hin0 | exact Hin | exact Hc0 | apply Hincl; left; reflexivity]. }
          rewrite Heq, Nat.eqb_refl. eapply IH; eassumption.
        * eapply IH; try eassumption.
          intros y v Hy. destruct (Nat.eq_dec y x) as [->|Hne].
          -- rewrite lookup_cons_eq in Hy. inversion Hy; subst.
             exists a, w, c. repeat split; [exact Hin | apply Hincl; left; reflexivity].
          -- rewrite lookup_cons_neq in Hy by exact Hne. apply Hfr. exact Hy.
      + rewrite (Hk c k (or_introl eq_refl)), Nat.eqb_refl. eapply IH; eassumption.
  Qed.

  Lemma match_atoms_complete : forall d ats ws es e,
    Forall2 (local_ok d) ats ws ->
    (forall a w, In (a, w) (combine ats ws) -> In (a, w) srcs) ->
    In e es -> from_rows e ->
    exists t, In t (match_atoms d ats es) /\ ext e t /\
      Forall2 (fun a w => In w (get_tab d (a_tab a)) /\ row_ok a t w) ats ws.
  Proof.
    induction ats as [|a tl IH]; intros ws es e HF Hsrc He Hfr.
    - inversion HF; subst. exists e. repeat split; [exact He | apply ext_refl | constructor].
    - inversion HF as [|a' w tl' ws' Hloc HF']; subst.
      destruct Hloc as (Hw & Hcs & Hk).
      assert (Hinsrc : In (a, w) srcs) by (apply Hsrc; left; reflexivity).
      destruct (match_pairs_complete (iargs a) a w e Hinsrc (incl_refl _) Hfr Hk) as (e1 & Hm & Hfr1).
      assert (Hin1 : In e1 (flat_map (match_atom d a) es)).
      { apply in_flat_map. exists e. split; [exact He|].
        unfold match_atom. apply in_flat_map. exists w. split; [exact Hw|].
        unfold match_row. rewrite Hcs, Hm. left; reflexivity. }
      destruct (IH ws' _ e1 HF' (fun a0 w0 H0 => Hsrc a0 w0 (or_intror H0)) Hin1 Hfr1) as (t & Ht & Hext & HF2).
      destruct (match_pairs_sound _ _ _ _ Hm) as [Hee Hargs].
      exists t. repeat split.
      + exact Ht.
      + eapply ext_trans; eassumption.
      + constructor; [|exact HF2]. split; [exact Hw|]. split; [exact Hcs|].
        intros c g Hcg. eapply arg_ok_ext; [exact Hext | apply Hargs; exact Hcg].
  Qed.
End Complete.

(** rows that satisfy each atom's constants and constraints and agree on every variable are the
    witness of a substitution the nested loops produce *)
Lemma matches_complete q d ws :
  Forall2 (local_ok d) (q_atoms q) ws ->
  pair_consistent (combine (q_atoms q) ws) ->
  exists t, In t (matches q d) /\ witness q d t ws.
Proof.
  intros HF Hc.
  destruct (match_atoms_complete (combine (q_atoms q) ws) Hc d (q_atoms q) ws [[]] [] HF
              (fun a w H => H) (or_introl eq_refl)) as (t & Ht & _ & HF2).
  - intros x v H. discriminate.
  - exists t. split; [exact Ht | exact HF2].
Qed.

(* ---------------------------------------------------------------- indexing helpers *)

Lemma in_combine_seq {A} : forall (l : list A) s i a,
  In (i, a) (combine (seq s (length l)) l) <-> s <= i /\ nth_error l (i - s) = Some a.
Proof.
  induction l as [|b tl IH]; intros s i a; simpl.
  - split; [intros [] | intros [_ H]; destruct (i - s); discriminate].
  - split.
    + intros [H|H].
      * inversion H; subst. rewrite Nat.sub_diag. split; [lia | reflexivity].
      * apply IH in H. destruct H as [Hle Hn]. split; [lia|].
        replace (i - s) with (S (i - S s)) by lia. exact Hn.
    + intros [Hle Hn]. destruct (i - s) as [|k] eqn:Hk.
      * left. inversion Hn; subst. f_equal. lia.
      * right. apply IH. split; [lia|]. replace (i - S s) with k by lia. exact Hn.
Qed.

Lemma in_iargs a c g : In (c, g) (iargs a) <-> nth_error (a_args a) c = Some g.
Proof.
  unfold iargs. rewrite in_combine_seq. rewrite Nat.sub_0_r. split; [intros [_ H]; exact H | intros H; split; [lia | exact H]].
Qed.

(* ---------------------------------------------------------------- what a match guarantees *)

(** repeated variable: the witness row has equal values in all columns holding the variable *)
Lemma row_ok_repeated a t w c c' x :
  row_ok a t w -> In (c, AVar x) (iargs a) -> In (c', AVar x) (iargs a) -> col w c = col w c'.
Proof.
  intros [_ H] H1 H2. pose proof (H _ _ H1) as E1. pose proof (H _ _ H2) as E2. simpl in E1, E2.
  rewrite E1 in E2. inversion E2. reflexivity.
Qed.

Lemma row_ok_const a t w c k : row_ok a t w -> In (c, AConst k) (iargs a) -> col w c = k.
Proof. intros [_ H] H1. exact (H _ _ H1). Qed.

(** every per-atom constraint holds on the witness row; in particular the constant on the
    subsume column, through which subsumed rows are excluded, and the timestamp bounds *)
Lemma row_ok_constraint a t w k : row_ok a t w -> In k (a_cs a) -> cs_ok w k = true.
Proof. intros [H _] Hk. unfold all_cs in H. rewrite forallb_forall in H. apply H. exact Hk. Qed.

Lemma witness_nth q d t ws : witness q d t ws ->
  forall i a, nth_error (q_atoms q) i = Some a ->
    In (nth i ws []) (get_tab d (a_tab a)) /\ row_ok a t (nth i ws []).
Proof.
  unfold witness. generalize (q_atoms q). intros l HF. induction HF as [|a w l ws' Haw HF IH]; intros [|i] b Hi; simpl in *; try discriminate.
  - inversion Hi; subst. exact Haw.
  - apply IH. exact Hi.
Qed.
