"""C20 configuration for bin/check."""

CFG = {'assumptions': ['PARTIAL: a Gallina model is a function and cannot exhibit address/seed/clock dependence; '
                 'the theorem half only covers the source inventory'],
 'harness': [{'bin': 'h_repro', 'name': 'h_repro'}],
 'link_only': 'bit-for-bit reproducibility of the real binary (addresses, hash seeds, environment, clock): '
              'transcripts (command outputs incl. row order, extraction results and variants, run reports '
              "without timings, raw dumps) of generated sessions and of the repository's small test files "
              'compared byte for byte across two in-process runs and three child processes (ASLR off via '
              'setarch -R, padded/different environments, cwd, TZ, LANG)',
 'manifest': {'level_note': 'Trusted: Coq kernel, translator inventory (syn-based scan of non-test sources), '
                            'harness. The run comparison is differential testing, not proof; see DESIGN.md '
                            'section 8.',
              'technique': 'kernel-checked source-inventory facts (Coq) + cross-process byte comparison of '
                           'transcripts',
              'text': 'PARTIAL. Kernel-checked facts over the source inventory regenerated on every run '
                      '(every hash-container alias uses the unseeded FxHasher; std::collections hash '
                      'containers are named only by the allow-listed serialize.rs), plus a byte-for-byte '
                      'transcript comparison of real runs across processes, ASLR settings and environments. '
                      'A theorem about a Gallina model cannot exhibit address/hash-seed/clock dependence of '
                      'the binary, so the end-to-end claim rests on the run comparison (testing) and is '
                      'labelled as such.'},
 'model_targets': [],
 'proof_targets': ['Props/C20.vo'],
 'theorem_backed': 'kernel-checked facts about the regenerated source inventory: all hash-container aliases '
                   'use FxHasher (no seed); the only std-hash user is the allow-listed src/serialize.rs',
 'tier_a': ['Facts.hash_inventory'],
 'trusted': ['translator facts: inventory of hash-container aliases and of files naming '
             'std::collections::Hash{Map,Set}/RandomState (non-test code), regenerated on every run']}
