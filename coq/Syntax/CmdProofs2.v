(** C15 — command level, second part (PARKED: not in _CoqProject until the lead adds it after
    Syntax/CmdProofs.v): the command forms with option lists.  [wf_ext] / [command_ok_ext] extend
    [wf_command] / [command_ok] of CmdProofs.v to constructor, print-function, rewrite, birewrite. *)
From Coq Require Import List NArith ZArith Bool Lia.
Import ListNotations.
Require Import Verif.Base.Cases Verif.gen.SyntaxFacts Verif.Syntax.Sexp Verif.Syntax.SexpProofs
               Verif.Syntax.Ast Verif.Syntax.AstProofs Verif.Syntax.Tables Verif.Syntax.CmdProofs.
Local Open Scope N_scope.

Section Cmd2.
  Variable fmt_f64 : Z -> str.
  Variable parse_f64 : str -> option fl.
  Hypothesis fmt_chars : forall x, finite_bits x -> numchars (fmt_f64 x).
  Hypothesis fmt_nonempty : forall x, finite_bits x -> fmt_f64 x <> [].
  Hypothesis parse_fmt : forall x, finite_bits x ->
    parse_f64 (print_float fmt_f64 (FFin x)) = Some (FFin x).
  Hypothesis parse_digit : forall s x, parse_f64 s = Some (FFin x) -> has_digit s = true.
  Variable chk : bool.

  Notation wf_atom := (wf_atom parse_f64).
  Notation wf_l := (wf_l parse_f64).
  Notation wf_items := (wf_items parse_f64).
  Notation wf_expr := (wf_expr parse_f64 chk).
  Notation wf_fact := (wf_fact parse_f64 chk).

  Ltac kwa := apply (word_atom parse_f64 parse_digit); [repeat split; try discriminate | reflexivity ..].

  Definition wf_sym_opt (rs : str) : Prop := rs = [] \/ (wf_atom rs /\ nocolon rs).
  Definition wf_rw (rs : str) (w : rewrite) : Prop :=
    wf_expr (w_lhs w) /\ wf_expr (w_rhs w) /\ Forall wf_fact (w_conds w) /\ wf_sym_opt rs.

  Definition wf_ext (c : command) : Prop :=
    match c with
    | CConstructor name ins out cost _ _ _ tc =>
        wf_atom name /\ Forall wf_atom ins /\ wf_atom out
        /\ match cost with Some k => wf_num k | None => True end /\ tc = None
    | CPrintFunction name rows _ _ =>
        wf_atom name /\ match rows with Some k => wf_num k | None => True end
    | CRewrite rs w _ => wf_rw rs w
    | CBiRewrite rs w => wf_rw rs w
    | _ => False
    end.

  Lemma nocolon_head : forall c tl, nocolon (c :: tl) -> (c =? c_colon) = false.
  Proof. intros c tl H. unfold nocolon, nc in H. simpl in H. destruct (c =? c_colon); [discriminate | reflexivity]. Qed.

  Ltac fin :=
    repeat first
      [ progress (unfold bindM, ret, failM)
      | progress cbn -[atoms Z.of_N Z.leb Z.to_N parse_facts_list]
      | rewrite N2Z.id
      | rewrite atoms_parse
      | match goal with
        | |- context [(0 <=? Z.of_N ?k)%Z] =>
            replace (0 <=? Z.of_N k)%Z with true by (symmetry; apply Z.leb_le; lia)
        end ];
    try reflexivity.

  Ltac wfitems :=
    repeat first [ exact I | assumption | kwa | apply (wf_it parse_f64)
                 | apply (wf_plain_list parse_f64); [apply ws_sp | apply sp_ne | ] ].

  Lemma schema_wf : forall ins out tl, Forall wf_atom ins -> wf_atom out -> wf_items false tl ->
    wf_items false (schema_items ins out ++ tl).
  Proof.
    intros ins out tl Hi Ho Ht. unfold schema_items. cbn [app].
    apply (wf_it parse_f64); [apply (wf_plain_list parse_f64); [apply ws_sp | apply sp_ne | apply atoms_wf; exact Hi]|].
    apply (wf_it parse_f64); [exact Ho | exact Ht].
  Qed.

  Lemma constructor_ok : forall name ins out cost unext hidden letb,
    wf_ext (CConstructor name ins out cost unext hidden letb None) ->
    wf_l (lay_command (CConstructor name ins out cost unext hidden letb None))
    /\ forall n, parse_command chk (strip (lay_command (CConstructor name ins out cost unext hidden letb None))) n
                 = POk (CConstructor name ins out cost unext hidden letb None, n).
  Proof.
    intros name ins out cost unext hidden letb (Hn & Hi & Ho & Hc & _). split.
    - cbn [lay_command]. apply (wf_kw_list parse_f64); [kwa | | reflexivity].
      apply (wf_it parse_f64); [exact Hn|]. apply schema_wf; [exact Hi | exact Ho |].
      destruct cost, unext, hidden, letb; cbn [cost_items flag_items opt_items app]; wfitems.
    - intro n. cbn [lay_command schema_items strip List.map snd it kw app]. rewrite !map_app.
      cbn [List.map snd it strip]. rewrite strip_disp.
      cbn [parse_command]. kwt.
      destruct cost, unext, hidden, letb; cbn [cost_items flag_items opt_items app List.map snd it strip lay_N];
        unfold parse_options; fin.
  Qed.

  Lemma print_function_ok : forall name rows file mode,
    wf_ext (CPrintFunction name rows file mode) ->
    wf_l (lay_command (CPrintFunction name rows file mode))
    /\ forall n, parse_command chk (strip (lay_command (CPrintFunction name rows file mode))) n
                 = POk (CPrintFunction name rows file mode, n).
  Proof.
    intros name rows file mode (Hn & Hr). split.
    - cbn [lay_command]. apply (wf_kw_list parse_f64); [kwa | | reflexivity].
      apply (wf_it parse_f64); [exact Hn|].
      destruct rows, file, mode; cbn [app lay_dbg]; wfitems.
    - intro n. destruct rows as [k|], file as [f|], mode;
        cbn [lay_command strip List.map snd it kw app lay_N lay_dbg]; cbn [parse_command]; kwt;
        unfold parse_options; fin.
  Qed.

  Definition when_items (cs : list fact) : list (str * lsexp) :=
    match cs with
    | [] => []
    | _ => [it (LAtom o_when); it (LList (list_disp [] sp (List.map lay_fact cs)) [])]
    end.
  Lemma lay_rewrite_eq : forall k rs l r cs nm sub,
    lay_rewrite k rs (mkRewrite l r cs nm) sub =
    LList (kw k :: it (lay_expr l) :: it (lay_expr r)
             :: flag_items o_subsume sub ++ when_items cs
             ++ (match rs with [] => [] | _ => [it (LAtom o_ruleset); it (LAtom rs)] end)
             ++ (match nm with [] => [] | _ => [it (LAtom o_name); it (LLit (LStr nm))] end)) [].
  Proof. intros. unfold lay_rewrite, when_items. cbn [w_lhs w_rhs w_conds w_name]. destruct cs, rs, nm; reflexivity. Qed.

  Lemma rewrite_ok : forall (bi : bool) rs w sub, wf_rw rs w -> (bi = true -> sub = false) ->
    let k := if bi then k_birewrite else k_rewrite in
    wf_l (lay_rewrite k rs w sub)
    /\ forall n, parse_command chk (strip (lay_rewrite k rs w sub)) n
                 = POk (if bi then CBiRewrite rs w else CRewrite rs w sub, n).
  Proof.
    intros bi rs [l r cs nm] sub (Hl & Hr & Hc & Hrs) Hsub k. cbn [w_lhs w_rhs w_conds] in *.
    destruct (expr_ok parse_f64 chk l Hl) as [L1 L2]. destruct (expr_ok parse_f64 chk r Hr) as [R1 R2].
    rewrite lay_rewrite_eq.
    assert (Hk : wf_atom k) by (subst k; destruct bi; kwa).
    assert (Hw : wf_items false (when_items cs)).
    { unfold when_items. destruct cs; [exact I|].
      apply (wf_it parse_f64); [kwa|]. apply (wf_it parse_f64); [|exact I].
      apply (wf_plain_list parse_f64); [apply ws_sp | apply sp_ne | apply (facts_wf parse_f64 parse_digit chk); exact Hc]. }
    split.
    - apply (wf_kw_list parse_f64); [exact Hk | | reflexivity].
      apply (wf_it parse_f64); [exact L1|]. apply (wf_it parse_f64); [exact R1|].
      apply (wf_items_app parse_f64); [destruct sub; cbn [flag_items]; wfitems|].
      apply (wf_items_app parse_f64); [exact Hw|].
      apply (wf_items_app parse_f64).
      + destruct Hrs as [->|[Ha _]]; [exact I|]. destruct rs; [exact I|]. wfitems.
      + destruct nm; [exact I|]. wfitems.
    - intro n.
      assert (W : parse_facts_list chk (SList (List.map strip (List.map lay_fact cs))) n = POk (cs, n)).
      { unfold parse_facts_list. apply (facts_parse parse_f64 parse_digit chk); exact Hc. }
      assert (E : (match rs with [] => true | c :: _ => negb (c =? c_colon) end) = true).
      { destruct Hrs as [->|[_ Hn]]; [reflexivity|]. destruct rs as [|c tl]; [reflexivity|].
        rewrite (nocolon_head c tl Hn). reflexivity. }
      cbn [strip List.map snd it kw]. rewrite !map_app. fold (sx_expr l). fold (sx_expr r).
      subst k. destruct bi; [rewrite (Hsub eq_refl)|]; cbn [parse_command]; kwt; unfold bindM at 1 2; rewrite L2, R2.
      all: unfold when_items; destruct sub, cs as [|c0 cs'], rs as [|c tl], nm as [|d nm'];
        try discriminate (Hsub eq_refl);
        cbn [flag_items app List.map snd it strip]; rewrite ?strip_disp;
        unfold bindM, parse_options; cbn -[parse_facts_list]; cbn [negb] in E;
        try (apply negb_true_iff in E; rewrite E); cbn -[parse_facts_list];
        cbn -[parse_facts_list] in W; unfold bindM; rewrite ?W; fin.
  Qed.
End Cmd2.
