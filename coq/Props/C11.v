(** C11 — Term and proof encodings preserve observable behaviour.
    This file only pins statements and prints their assumptions. *)
From Coq Require Import List Arith PeanoNat ZArith.
Import ListNotations.
Require Import Verif.Base.Res Verif.Egg.Model Verif.Encoding.Datalog Verif.Encoding.Templates.

(** non-vacuity / executable sanity: the documentation example of proof_encoding.md
    (constructor Add (i64 i64) Math; (Add 1 2); (union (Add 1 2) (Add 2 1))) on the encoded model:
    both terms end in one class, an unrelated term stays absent. *)
Example c11_doc_example :
  enc_classes (mkCase [[false; false]]
     [CAdd (T 0 [TI 1; TI 2]); CUnion (T 0 [TI 1; TI 2]) (T 0 [TI 2; TI 1])]
     [T 0 [TI 1; TI 2]; T 0 [TI 2; TI 1]; T 0 [TI 3; TI 3]] []) = Some [0%Z; 0%Z; (-1)%Z].
Proof. vm_compute. reflexivity. Qed.
