(** C03 — Semi-naive evaluation is observationally identical to naive evaluation.
    Theorem-backed: the delta decomposition over the timestamp constraints regenerated from
    egglog-bridge/src/rule.rs. The end-to-end equivalence (timestamps re-stamped by rebuild,
    merges, container refresh) is decided by the correspondence check: semi-naive engine vs naive
    engine vs the naive Gallina model, after every command. *)
From Coq Require Import List Arith PeanoNat Bool.
Import ListNotations.
Require Import Verif.gen.SourceFacts Verif.Semi.Delta.

Theorem c03_old_is_not_new : forall mid ts, is_old mid ts = negb (is_new mid ts).
Proof. exact old_is_not_new. Qed.
Print Assumptions c03_old_is_not_new.

Theorem c03_delta_decomp : forall mid m,
  (all_old mid m = false <-> exists i, variant mid i m = true)
  /\ (forall i j, variant mid i m = true -> variant mid j m = true -> i = j)
  /\ (forall i, variant mid i m = true -> i < length m).
Proof. exact delta_decomp. Qed.
Print Assumptions c03_delta_decomp.

Theorem c03_first_run_late : forall m, m <> [] -> variant 0 0 m = true /\ all_old 0 m = false.
Proof. exact first_run_sees_all. Qed.
Print Assumptions c03_first_run_late.

Theorem c03_sole_focus_same : semi_sole_focus = semi_focus.
Proof. exact sole_focus_same. Qed.
Print Assumptions c03_sole_focus_same.

Example c03_example : variant 5 1 [3; 7; 2] = true /\ variant 5 0 [3; 7; 2] = false
                      /\ variant 5 2 [3; 7; 2] = false /\ all_old 5 [3; 4; 2] = true.
Proof. repeat split. Qed.
