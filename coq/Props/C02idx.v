(** C02 (index part) — cached and on-the-fly indexes are built from the same sorted blocks:
    [ColumnIndex::rebuild_full] (cached) and [SortedColumnIndex::build_for_subset] (per-subset,
    during joins) both order their (value, row id) pairs with [radix_sort_slice_by_value], and the
    multi-column rebuild merges the blocks with [merge2_into]. This file only pins statements.

    [radix_passes_for] is REGENERATED from core-relations/src/hash_index/mod.rs on every run
    (gen/PureFns.v, translator module purefn.rs); the sort and the merge are hand-written models
    (Index/RadixModel.v, Index/MergeModel.v) tied to the code by the h_index correspondence. *)
From Coq Require Import List NArith Bool Sorted Permutation.
Import ListNotations.
Require Import Verif.Base.Res Verif.Index.Prelude Verif.gen.PureFns Verif.Index.SortFacts
  Verif.Index.RadixModel Verif.Index.RadixProofs Verif.Index.RadixArray
  Verif.Index.MergeModel Verif.Index.MergeProofs.
Local Open Scope N_scope.

(** the obligation on the regenerated pass count: enough 8-bit passes for every value up to
    [max], and never more than the four bytes of a [u32] *)
Theorem c02_radix_passes_cover : forall max, max < 2 ^ 32 ->
  max < 2 ^ (radix_passes_for max * 8) /\ radix_passes_for max <= 4.
Proof. exact radix_passes_for_ok. Qed.
Print Assumptions c02_radix_passes_cover.

(** after [p] stable distribution passes on the digits 0 .. p-1 a block that arrived in ascending
    row-id order is ordered by (value, row id) as soon as all values are below 2^(8p); with
    [radix_passes_for max] passes that holds for every block whose values are [<= max < 2^32] *)
Theorem c02_radix_passes_sort : forall max (l : list vr),
  max < 2 ^ 32 -> Forall (fun q => fst q <= max) l -> rowids_ascending l ->
  StronglySorted vr_le (bucket_passes (N.to_nat (radix_passes_for max)) 0 l) /\
  Permutation l (bucket_passes (N.to_nat (radix_passes_for max)) 0 l).
Proof. exact bucket_passes_for_max_sort. Qed.
Print Assumptions c02_radix_passes_sort.

(** one pass as the code performs it (256 [u32] counters, exclusive prefix sums, scatter into the
    other buffer) IS the stable distribution, for every block of at most [u32::MAX] pairs and
    every destination buffer of the same length: no index out of bounds, no counter overflow *)
Theorem c02_array_pass_is_stable_distribution : forall k (src dst : list vr),
  N.of_nat (length src) <= u32_max -> length dst = length src ->
  array_pass k src dst = Ok (bucket_pass k src).
Proof. exact array_pass_eq_bucket_pass. Qed.
Print Assumptions c02_array_pass_is_stable_distribution.

(** the whole routine (small blocks: comparison sort; already ascending values: untouched;
    otherwise the passes), for every scratch buffer contents *)
Theorem c02_radix_sort_sorted : forall (data scratch : list vr),
  Forall (fun q => fst q < 2 ^ 32) data -> rowids_ascending data ->
  N.of_nat (length data) <= u32_max -> (length data <= length scratch)%nat ->
  exists out, radix_sort data scratch = Ok out /\ StronglySorted vr_le out /\ Permutation data out.
Proof. exact radix_sort_correct. Qed.
Print Assumptions c02_radix_sort_sorted.

(** hence every builder gets THE SAME block: the sorted arrangement of a block is unique, so any
    two correct ways of ordering it (the cached index's, the on-the-fly index's, a plain
    comparison sort) agree *)
Theorem c02_sorted_block_unique : forall (l1 l2 : list vr),
  StronglySorted vr_le l1 -> StronglySorted vr_le l2 -> Permutation l1 l2 -> l1 = l2.
Proof. exact sorted_perm_unique. Qed.
Print Assumptions c02_sorted_block_unique.

(** non-vacuity of the pass bound: a block satisfying every hypothesis above whose largest value
    is exactly 2^24 is NOT sorted by three passes *)
Theorem c02_three_passes_insufficient_at_2pow24 :
  exists max (l : list vr), max = 2 ^ 24 /\ Forall (fun q => fst q <= max) l /\ rowids_ascending l /\
    (64 <= length l)%nat /\ vals_sorted_from 0 l = false /\
    ~ StronglySorted vr_le (radix_sort_buckets_with (fun _ => 3) l).
Proof. exact three_passes_do_not_sort_2pow24. Qed.
Print Assumptions c02_three_passes_insufficient_at_2pow24.

(** [merge2_into(a, b, &mut out)] for (value, row id)-sorted [a] and [b] (duplicates allowed):
    [out] keeps what it held; the appended run is STRICTLY sorted — so it has no duplicates, not
    even when the last pair of the old contents equals the first merged pair — and holds exactly
    the pairs of [a] and [b] *)
Theorem c02_merge2_sorted_dedup : forall (a b out : list vr),
  StronglySorted vr_le a -> StronglySorted vr_le b ->
  merge2_into a b out = out ++ merge2_new a b /\
  StronglySorted vr_lt (merge2_new a b) /\
  (forall z, In z (merge2_new a b) <-> In z a \/ In z b).
Proof. exact merge2_into_correct. Qed.
Print Assumptions c02_merge2_sorted_dedup.

Theorem c02_merge2_no_duplicates : forall (a b : list vr),
  StronglySorted vr_le a -> StronglySorted vr_le b -> NoDup (merge2_new a b).
Proof. exact merge2_new_nodup. Qed.
Print Assumptions c02_merge2_no_duplicates.
