"""C06 configuration for bin/check."""

CFG = {'assumptions': ['monotone fragment'],
 'corr_is_violation': True,
 'harness': [{'bin': 'h_egg',
              'env': {'EGGLOG_PARALLEL_DB_LEVEL_OP_CUTOFF': '0',
                      'EGGLOG_PARALLEL_INDEX_CONSTRUCTION_CUTOFF': '0',
                      'EGGLOG_PARALLEL_INTER_CONTAINER_CUTOFF': '0',
                      'EGGLOG_PARALLEL_INTRA_CONTAINER_CUTOFF': '0',
                      'EGGLOG_PARALLEL_REBUILD_CUTOFF': '0',
                      'EGGLOG_PARALLEL_TABLE_OP_CUTOFF': '0'},
              'extra': ['--prop', 'C06', '--alt-threads', '4', '--cases', '80'],
              'name': 'h_egg_t4_cut0',
              'prefix': 'cases_egg'},
             {'bin': 'h_egg',
              'extra': ['--prop', 'C06', '--alt-threads', '3', '--cases', '60'],
              'name': 'h_egg_t3_default',
              'prefix': 'cases_egg'},
             {'bin': 'h_egg',
              'env': {'EGGLOG_PARALLEL_REBUILD_CUTOFF': '0', 'EGGLOG_PARALLEL_TABLE_OP_CUTOFF': '0'},
              'extra': ['--prop', 'C06', '--alt-threads', '2', '--cases', '30', '--big-tables'],
              'name': 'h_egg_t2_rebuild0',
              'prefix': 'cases_egg'},
             {'bin': 'h_egg',
              'env': {'EGGLOG_PARALLEL_ACTION_BATCH_SIZE': '1',
                      'EGGLOG_PARALLEL_FREE_JOIN_FORK_DEPTH': '4',
                      'EGGLOG_PARALLEL_TABLE_OP_CUTOFF': '0'},
              'extra': ['--prop', 'C06', '--alt-threads', '8', '--cases', '40'],
              'name': 'h_egg_t8_mixed',
              'prefix': 'cases_egg'}],
 'link_only': 'real OS interleavings, memory ordering, the unsafe disjoint-write code (set_stale_shared, '
              'ParallelRowBufWriter), predicted fresh ids, parallel rebuild and container rebuild: the same '
              'sessions run on a 1-thread engine and on 3/4/8-thread engines in one process (cut-offs 0 / '
              'default / mixed via environment), observations, check outcomes and extraction costs compared '
              'after every command, and both compared with the model',
 'model_targets': ['Egg/Rules.vo'],
 'proof_targets': ['Props/C06.vo'],
 'theorem_backed': 'sharded table merge = serial merge for every shard function of the key, every processing '
                   "order and every merge function; splitting one iteration's matches among workers does not "
                   'change lattice-merge values',
 'tier_a': ['UFSeq', 'MergeArms', 'BridgeFns', 'Facts.shard_hash'],
 'trusted': ['hand-written model coq/Egg/Model.v + Egg/Rules.v tied to the engine by the correspondence '
             'check; the sharding/scheduling oracle of the theorems is universally quantified']}
