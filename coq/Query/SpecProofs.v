(** C02 — facts about the specification matcher (Query/Spec.v). *)
From Coq Require Import List Arith Bool PeanoNat Lia.
Import ListNotations.
Require Import Verif.Query.Spec.
