(** [merge2_into]: the appended run is strictly (value, row id)-sorted (hence free of duplicates)
    and holds exactly the pairs of the two inputs; what was in [out] before is untouched. *)
From Coq Require Import List NArith Bool Lia Sorted Permutation.
Import ListNotations.
Require Import Verif.Base.Res Verif.Index.Prelude Verif.Index.SortFacts Verif.Index.MergeModel.
Local Open Scope N_scope.

(** newest-first and strictly descending = the emitted run is strictly ascending *)
Definition desc (em : list vr) : Prop := StronglySorted (fun p q => vr_lt q p) em.

Lemma vr_le_neq_lt a b : vr_le a b -> a <> b -> vr_lt a b.
Proof.
  destruct a as [a1 a2], b as [b1 b2]. unfold vr_le, vr_lt; simpl. intros [H|[H H']] Hn; [left; auto|].
  right. split; auto. destruct (N.eq_dec a2 b2); [subst; congruence | lia].
Qed.

Lemma push_inv em x :
  desc em -> (forall y, In y em -> vr_le y x) ->
  desc (push em x) /\ (forall z, In z (push em x) <-> In z (x :: em)) /\
  (forall y, In y (push em x) -> vr_le y x).
Proof.
  intros Hd Hle. destruct em as [|y em]; simpl.
  - split; [|split].
    + constructor; constructor.
    + intros z. tauto.
    + intros y [->|[]]. apply vr_le_refl.
  - destruct (vr_eqb y x) eqn:E.
    + apply vr_eqb_eq in E. subst y. split; [|split]; auto.
      intros z. simpl. tauto.
    + assert (Hne : y <> x) by (intros ->; rewrite (proj2 (vr_eqb_eq x x) eq_refl) in E; discriminate).
      assert (Hyx : vr_lt y x) by (apply vr_le_neq_lt; [apply Hle; simpl; auto | exact Hne]).
      split; [|split].
      * constructor; auto. constructor; auto.
        inversion Hd; subst. eapply Forall_impl; [|eassumption]. simpl. intros z Hz.
        eapply vr_lt_trans; eauto.
      * intros z. simpl. tauto.
      * intros z [->|H]; [apply vr_le_refl | apply Hle; exact H].
Qed.

Lemma fold_push l : forall em,
  StronglySorted vr_le l -> desc em -> (forall y z, In y em -> In z l -> vr_le y z) ->
  desc (fold_left push l em) /\ (forall z, In z (fold_left push l em) <-> In z l \/ In z em).
Proof.
  induction l as [|x l IH]; intros em Hs Hd Hle; simpl.
  - split; auto. intros z. tauto.
  - inversion Hs; subst.
    destruct (push_inv em x Hd) as (P1 & P2 & P3); [intros y Hy; apply Hle; simpl; auto|].
    destruct (IH (push em x) H1 P1) as (I1 & I2).
    { intros y z Hy Hz. eapply vr_le_trans; [apply P3; exact Hy|]. eapply Forall_forall in H2; eauto. }
    split; auto. intros z. rewrite I2, P2. simpl. tauto.
Qed.

Lemma merge_loop_inv a : forall b em,
  StronglySorted vr_le a -> StronglySorted vr_le b -> desc em ->
  (forall y z, In y em -> In z (a ++ b) -> vr_le y z) ->
  desc (merge_loop a b em) /\ (forall z, In z (merge_loop a b em) <-> In z a \/ In z b \/ In z em).
Proof.
  induction a as [|x a IHa]; intros b em Ha Hb Hd Hle.
  - simpl. destruct (fold_push b em Hb Hd) as (F1 & F2); [intros; apply Hle; simpl; auto|].
    split; auto. intros z. rewrite F2. simpl. tauto.
  - revert em Hd Hle. induction b as [|y b IHb]; intros em Hd Hle.
    + cbn [merge_loop]. destruct (fold_push (x :: a) em Ha Hd) as (F1 & F2).
      { intros y z Hy Hz. apply Hle; auto. rewrite app_nil_r. exact Hz. }
      split; auto. intros z. rewrite F2. simpl. tauto.
    + cbn [merge_loop]. inversion Ha; subst. inversion Hb; subst.
      destruct (vr_leb x y) eqn:E.
      * apply vr_leb_spec in E.
        destruct (push_inv em x Hd) as (P1 & P2 & P3); [intros y' Hy'; apply Hle; simpl; auto|].
        destruct (IHa (y :: b) (push em x) H1 Hb P1) as (I1 & I2).
        { intros y' z Hy' Hz. eapply vr_le_trans; [apply P3; exact Hy'|].
          apply in_app_or in Hz. destruct Hz as [Hz|[<-|Hz]].
          - eapply Forall_forall in H2; eauto.
          - exact E.
          - eapply vr_le_trans; [exact E|]. eapply Forall_forall in H4; eauto. }
        split; auto. intros z. rewrite I2, P2. simpl. tauto.
      * apply vr_leb_false, vr_lt_le in E.
        destruct (push_inv em y Hd) as (P1 & P2 & P3).
        { intros y' Hy'. apply Hle; auto. apply in_or_app. right. simpl. auto. }
        destruct (IHb H3 (push em y) P1) as (I1 & I2).
        { intros y' z Hy' Hz. eapply vr_le_trans; [apply P3; exact Hy'|].
          apply in_app_or in Hz. destruct Hz as [[<-|Hz]|Hz].
          - exact E.
          - eapply vr_le_trans; [exact E|]. eapply Forall_forall in H2; eauto.
          - eapply Forall_forall in H4; eauto. }
        split; auto. intros z. rewrite I2, P2. simpl. tauto.
Qed.

Lemma rev_desc em : desc em -> StronglySorted vr_lt (rev em).
Proof.
  induction 1 as [|x em Hs IH Hf]; simpl; [constructor|].
  apply SS_app; auto.
  - constructor; constructor.
  - intros a b Ha [<-|[]]. apply in_rev in Ha. eapply Forall_forall in Hf; eauto.
Qed.

(** THE theorem about [merge2_into] *)
Theorem merge2_into_correct a b out :
  StronglySorted vr_le a -> StronglySorted vr_le b ->
  merge2_into a b out = out ++ merge2_new a b /\
  StronglySorted vr_lt (merge2_new a b) /\
  (forall z, In z (merge2_new a b) <-> In z a \/ In z b).
Proof.
  intros Ha Hb. split; [reflexivity|]. unfold merge2_new.
  destruct (merge_loop_inv a b [] Ha Hb) as (M1 & M2); [constructor | intros y z [] |].
  split; [apply rev_desc; exact M1|].
  intros z. rewrite <- in_rev, M2. simpl. tauto.
Qed.

Corollary merge2_new_nodup a b :
  StronglySorted vr_le a -> StronglySorted vr_le b -> NoDup (merge2_new a b).
Proof. intros Ha Hb. apply SS_lt_NoDup. apply (merge2_into_correct a b []); auto. Qed.

(** a strictly sorted run is in particular sorted: merged runs can be merged again (the
    tournament of [merge_sorted_blocks_dedup]) *)
Lemma SS_lt_le l : StronglySorted vr_lt l -> StronglySorted vr_le l.
Proof. intros H. eapply SS_impl_in; [exact H|]. intros a b _ _. apply vr_lt_le. Qed.
