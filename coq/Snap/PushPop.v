(** C08 — push/pop and clone: executable model of a session (definitions only; proofs are in
    Snap/Proofs.v and Snap/Clone.v).

    What is modelled, and where it comes from:
    - [egraph]  : one `egglog::EGraph` value as far as snapshots are concerned: declaration state
                  (sorts, functions, rulesets, rules, globals = TypeInfo + names + functions +
                  rulesets of src/lib.rs:286-311), the database (ABSTRACT: any type [db] with any
                  step functions, Section variables), the backend's table list (table id -> name and
                  `TableIdentity`, core-relations free_join/mod.rs:134-164), the symbol generator
                  and the accumulated run report.
    - [sess]    : the current e-graph + `pushed_egraph` (the linked list of full clones,
                  lib.rs:290-292).  [CPush] copies everything (lib.rs:697-702); [CPop] restores
                  everything EXCEPT the symbol generator and the overall run report
                  (lib.rs:708-721, the two `mem::swap`s).
    - [shared]  : what is NOT copied by `Clone for EGraph`: the `ActionRegistry` behind
                  `Arc<RwLock<_>>` (bridge lib.rs:136-141; `register_table` overwrites by name,
                  lib.rs:69-71, called from `add_table`, lib.rs:644-650) and the process-global
                  `NEXT_TABLE_IDENTITY` counter.
    - name-indexed API access ([CApi], `EGraph::update/read` -> `lookup_action`,
                  exec_state.rs:700-715): registry hit filtered by `TableAction::is_live`
                  (bridge 1449-1452: same identity AND same name at that table id).
    - [pair]    : a clone and its original: two sessions over ONE [shared]. *)
From Coq Require Import List Arith Bool PeanoNat ZArith.
Import ListNotations.
Require Import Verif.Base.Cases.

Definition name := nat.

Inductive ns := NSort | NFunc | NRuleset | NRule | NGlobal.

Definition ns_eqb (a b : ns) : bool :=
  match a, b with
  | NSort, NSort | NFunc, NFunc | NRuleset, NRuleset | NRule, NRule | NGlobal, NGlobal => true
  | _, _ => false
  end.

(** declaration state.  A function carries its auxiliary data (arity / schema code) and the id of
    its backend table (`Function.backend_id`); a rule carries its auxiliary data (ruleset, ...). *)
Record decls := mkDecls {
  d_sorts : list name;
  d_funcs : list (name * (list nat * nat));
  d_rulesets : list name;
  d_rules : list (name * list nat);
  d_globals : list name
}.

Definition decls0 : decls := mkDecls [] [] [] [] [].

Definition fnames (d : decls) : list name := map fst (d_funcs d).

Fixpoint mem (n : name) (l : list name) : bool :=
  match l with [] => false | x :: tl => Nat.eqb n x || mem n tl end.

(** rule names are per ruleset (lib.rs add_rule: `rules.entry(rule.name)` inside the ruleset);
    the ruleset of a rule is the head of its auxiliary data *)
Fixpoint rule_mem (n : name) (rs : nat) (l : list (name * list nat)) : bool :=
  match l with
  | [] => false
  | (m, a) :: tl => (Nat.eqb n m && Nat.eqb rs (nth 0 a 0)) || rule_mem n rs tl
  end.

Definition bound (d : decls) (k : ns) (n : name) (aux : list nat) : bool :=
  match k with
  | NSort => mem n (d_sorts d)
  | NFunc => mem n (fnames d)
  | NRuleset => mem n (d_rulesets d)
  | NRule => rule_mem n (nth 0 aux 0) (d_rules d)
  | NGlobal => mem n (d_globals d)
  end.

(** an accepted declaration; [t] is the table id given to a function *)
Definition add_decl (d : decls) (k : ns) (n : name) (aux : list nat) (t : nat) : decls :=
  match k with
  | NSort => mkDecls (d_sorts d ++ [n]) (d_funcs d) (d_rulesets d) (d_rules d) (d_globals d)
  | NFunc => mkDecls (d_sorts d) (d_funcs d ++ [(n, (aux, t))]) (d_rulesets d) (d_rules d) (d_globals d)
  | NRuleset => mkDecls (d_sorts d) (d_funcs d) (d_rulesets d ++ [n]) (d_rules d) (d_globals d)
  | NRule => mkDecls (d_sorts d) (d_funcs d) (d_rulesets d) (d_rules d ++ [(n, aux)]) (d_globals d)
  | NGlobal => mkDecls (d_sorts d) (d_funcs d) (d_rulesets d) (d_rules d) (d_globals d ++ [n])
  end.

(** the part of the state that `Clone for EGraph` SHARES instead of copying *)
Record shared := mkSh {
  r_reg : list (name * (nat * nat));   (* name -> (table id, identity); newest first *)
  r_next : nat                         (* NEXT_TABLE_IDENTITY *)
}.

Definition shared0 : shared := mkSh [] 0.

Fixpoint reg_find (n : name) (r : list (name * (nat * nat))) : option (nat * nat) :=
  match r with
  | [] => None
  | (m, h) :: tl => if Nat.eqb n m then Some h else reg_find n tl
  end.

Inductive err := EPop | EDecl | EParse.

Section Snap.

(** the database is abstract: ANY state type with ANY step functions.  The step of a database
    command sees the declaration state and the database, and returns the new database, an output,
    what it adds to the run report and how many fresh symbols it consumed.  Its output cannot
    mention the symbol generator or the report: the commands whose output does are [CFresh] and
    [CStats]. *)
Variables (db dcmd dout aop aout : Type).
Variable db_step : decls -> db -> dcmd -> db * dout * nat * nat.
(** effect of an accepted declaration on the backend (new table, new rule, global's cell, ...) *)
Variable db_decl : db -> ns -> name -> list nat -> db.
(** name-indexed API access, after the name has been resolved to a live table id *)
Variable db_api : db -> nat -> aop -> db * aout.
(** typechecking of a declaration beyond "name not bound yet" (sorts exist, ruleset exists...) *)
Variable decl_extra : decls -> ns -> name -> list nat -> bool.
(** what a REJECTED declaration leaves behind in the declaration state (finding F2: typechecking
    is not atomic); the identity when rejection is clean. *)
Variable reject_effect : decls -> ns -> name -> list nat -> decls.

Record egraph := mkEg {
  e_decls : decls;
  e_db : db;
  e_tabs : list (name * nat);   (* table id (position) -> (name, identity) *)
  e_gensym : nat;               (* parser.symbol_gen *)
  e_report : nat                (* overall_run_report *)
}.

Record sess := mkSess { s_cur : egraph; s_stack : list egraph }.

Inductive cmd :=
| CPush
| CPop
| CDecl (k : ns) (n : name) (aux : list nat)
| CDb (c : dcmd)
| CApi (n : name) (op : aop)
| CStats          (* (print-stats): shows the accumulated run report *)
| CFresh          (* any command whose output mentions a freshly generated symbol *)
| CFail.          (* a command rejected before it has any effect (parse error, ...) *)

Inductive out :=
| OOk
| OErr (e : err)
| ODb (o : dout)
| OMissing               (* ApiError::MissingTable *)
| OApi (o : aout)
| OStats (r : nat)
| OFresh (g : nat).

(** `TableAction::is_live` *)
Definition is_live (e : egraph) (n : name) (h : nat * nat) : bool :=
  match nth_error (e_tabs e) (fst h) with
  | Some (m, i) => Nat.eqb n m && Nat.eqb (snd h) i
  | None => false
  end.

(** `lookup_action` *)
Definition lookup_action (sh : shared) (e : egraph) (n : name) : option nat :=
  match reg_find n (r_reg sh) with
  | Some h => if is_live e n h then Some (fst h) else None
  | None => None
  end.

Definition set_cur (s : sess) (e : egraph) : sess := mkSess e (s_stack s).

Definition step (c : cmd) (s : sess) (sh : shared) : sess * shared * out :=
  let e := s_cur s in
  match c with
  | CPush => (mkSess e (e :: s_stack s), sh, OOk)
  | CPop =>
      match s_stack s with
      | [] => (s, sh, OErr EPop)
      | p :: st =>
          (mkSess (mkEg (e_decls p) (e_db p) (e_tabs p) (e_gensym e) (e_report e)) st, sh, OOk)
      end
  | CDecl k n aux =>
      if bound (e_decls e) k n aux || negb (decl_extra (e_decls e) k n aux) then
        (set_cur s (mkEg (reject_effect (e_decls e) k n aux) (e_db e) (e_tabs e) (e_gensym e) (e_report e)),
         sh, OErr EDecl)
      else
        match k with
        | NFunc =>
            let t := length (e_tabs e) in
            let i := r_next sh in
            (set_cur s (mkEg (add_decl (e_decls e) k n aux t) (db_decl (e_db e) k n aux)
                             (e_tabs e ++ [(n, i)]) (e_gensym e) (e_report e)),
             mkSh ((n, (t, i)) :: r_reg sh) (S i), OOk)
        | NGlobal =>
            (* a global becomes a table with a generated name: consumes a fresh symbol *)
            (set_cur s (mkEg (add_decl (e_decls e) k n aux 0) (db_decl (e_db e) k n aux)
                             (e_tabs e) (S (e_gensym e)) (e_report e)), sh, OOk)
        | _ =>
            (set_cur s (mkEg (add_decl (e_decls e) k n aux 0) (db_decl (e_db e) k n aux)
                             (e_tabs e) (e_gensym e) (e_report e)), sh, OOk)
        end
  | CDb d =>
      let '(b, o, dr, dg) := db_step (e_decls e) (e_db e) d in
      (set_cur s (mkEg (e_decls e) b (e_tabs e) (e_gensym e + dg) (e_report e + dr)), sh, ODb o)
  | CApi n op =>
      match lookup_action sh e n with
      | None => (s, sh, OMissing)
      | Some t =>
          let '(b, o) := db_api (e_db e) t op in
          (set_cur s (mkEg (e_decls e) b (e_tabs e) (e_gensym e) (e_report e)), sh, OApi o)
      end
  | CStats => (s, sh, OStats (e_report e))
  | CFresh =>
      (set_cur s (mkEg (e_decls e) (e_db e) (e_tabs e) (S (e_gensym e)) (e_report e)), sh,
       OFresh (e_gensym e))
  | CFail => (s, sh, OErr EParse)
  end.

Fixpoint run (cs : list cmd) (s : sess) (sh : shared) : sess * shared * list out :=
  match cs with
  | [] => (s, sh, [])
  | c :: tl =>
      let '(s1, sh1, o) := step c s sh in
      let '(s2, sh2, os) := run tl s1 sh1 in
      (s2, sh2, o :: os)
  end.

Definition outputs (cs : list cmd) (s : sess) (sh : shared) : list out := snd (run cs s sh).
Definition final (cs : list cmd) (s : sess) (sh : shared) : sess * shared := fst (run cs s sh).

(** the two documented carve-outs, as a function on outputs: the run report shown by
    (print-stats) and the numbering of fresh symbols *)
Definition blur (o : out) : out :=
  match o with
  | OStats _ => OStats 0
  | OFresh _ => OFresh 0
  | o => o
  end.

(** nesting depth bookkeeping: [depth d Q = Some d'] iff Q, started at relative depth d, never
    pops below relative depth 0 and ends at d' *)
Fixpoint depth (d : nat) (cs : list cmd) : option nat :=
  match cs with
  | [] => Some d
  | CPush :: tl => depth (S d) tl
  | CPop :: tl => match d with O => None | S d' => depth d' tl end
  | _ :: tl => depth d tl
  end.

Definition balanced (cs : list cmd) : bool :=
  match depth 0 cs with Some 0 => true | _ => false end.

Variable db0 : db.
Definition egraph0 : egraph := mkEg decls0 db0 [] 0 0.
Definition sess0 : sess := mkSess egraph0 [].

(* ------------------------------------------------------------------------------------------ *)
(** clone: two sessions over ONE shared registry / identity counter *)

Inductive side := SA | SB.

Definition side_eqb (a b : side) : bool :=
  match a, b with SA, SA | SB, SB => true | _, _ => false end.

Record pair := mkPair { p_a : sess; p_b : sess; p_sh : shared }.

(** `b = a.clone()`: every field is copied, the registry handle is shared *)
Definition clone (s : sess) (sh : shared) : pair := mkPair s s sh.

Definition pstep (sd : side) (c : cmd) (p : pair) : pair * out :=
  match sd with
  | SA => let '(a, sh, o) := step c (p_a p) (p_sh p) in (mkPair a (p_b p) sh, o)
  | SB => let '(b, sh, o) := step c (p_b p) (p_sh p) in (mkPair (p_a p) b sh, o)
  end.

Fixpoint prun (cs : list (side * cmd)) (p : pair) : pair * list (side * out) :=
  match cs with
  | [] => (p, [])
  | (sd, c) :: tl =>
      let '(p1, o) := pstep sd c p in
      let '(p2, os) := prun tl p1 in
      (p2, (sd, o) :: os)
  end.

Fixpoint proj {A} (sd : side) (l : list (side * A)) : list A :=
  match l with
  | [] => []
  | (sd', x) :: tl => if side_eqb sd sd' then x :: proj sd tl else proj sd tl
  end.

(** names of the function declarations in a command list *)
Fixpoint fdecl_names (cs : list cmd) : list name :=
  match cs with
  | [] => []
  | CDecl NFunc n _ :: tl => n :: fdecl_names tl
  | _ :: tl => fdecl_names tl
  end.

End Snap.

Arguments mkEg {db}.
Arguments e_decls {db}.
Arguments e_db {db}.
Arguments e_tabs {db}.
Arguments e_gensym {db}.
Arguments e_report {db}.
Arguments mkSess {db}.
Arguments s_cur {db}.
Arguments s_stack {db}.
Arguments CPush {dcmd aop}.
Arguments CPop {dcmd aop}.
Arguments CDecl {dcmd aop}.
Arguments CDb {dcmd aop}.
Arguments CApi {dcmd aop}.
Arguments CStats {dcmd aop}.
Arguments CFresh {dcmd aop}.
Arguments CFail {dcmd aop}.
Arguments OOk {dout aout}.
Arguments OErr {dout aout}.
Arguments ODb {dout aout}.
Arguments OMissing {dout aout}.
Arguments OApi {dout aout}.
Arguments OStats {dout aout}.
Arguments OFresh {dout aout}.
Arguments mkPair {db}.
Arguments p_a {db}.
Arguments p_b {db}.
Arguments p_sh {db}.

(* ------------------------------------------------------------------------------------------ *)
(** A concrete instance, used (a) by the correspondence cases written by harness/src/bin/h_snap.rs
    and (b) for the witnesses of the refuted / non-vacuity statements.

    Database: one table per function, i64 keys of the declared arity, i64 values,
    `:merge (max old new)`.  Declarations as issued by the harness:
      sort      (sort S<n>)
      function  (function g<n> (i64 ^ arity) i64 :merge (max old new)),      aux = [arity]
      ruleset   (ruleset rs<n>)
      rule      (rule ((= v (g<src> x))) ((set (g<dst> x) v)) :ruleset rs<r> :name "r<n>"),
                                                                              aux = [r; src; dst]
      global    (let $x<n> <value>),                                          aux = [value]
    Database commands: (set (g<n> keys) v), (check (= (g<n> keys) v)), (print-size g<n>),
    (run rs<n> 1).  *)

Definition stab := list (list Z * Z).
Definition sdb := list (nat * stab).         (* indexed by table id: (arity, rows) *)

Inductive sdcmd :=
| DSet (f : name) (key : list Z) (v : Z)
| DCheck (f : name) (key : list Z) (v : Z)
| DSize (f : name)
| DRun (rs : name).

Inductive sdout :=
| DOk
| DErrType          (* rejected by the typechecker: unknown function / ruleset, wrong arity *)
| DErrCheck         (* (check ..) failed *)
| DSizeIs (n : nat).

Inductive saop :=
| ASet (key : list Z) (v : Z)
| ALookup (key : list Z)
| ASize.

Inductive saout :=
| AOk
| AErrArity
| AVal (v : option Z)
| ASizeIs (n : nat).

Fixpoint zs_eqb (a b : list Z) : bool :=
  match a, b with
  | [], [] => true
  | x :: ta, y :: tb => Z.eqb x y && zs_eqb ta tb
  | _, _ => false
  end.

Fixpoint tab_get (t : stab) (k : list Z) : option Z :=
  match t with
  | [] => None
  | (k', v) :: tl => if zs_eqb k k' then Some v else tab_get tl k
  end.

Fixpoint tab_set (t : stab) (k : list Z) (v : Z) : stab :=
  match t with
  | [] => [(k, v)]
  | (k', v') :: tl => if zs_eqb k k' then (k', Z.max v' v) :: tl else (k', v') :: tab_set tl k v
  end.

Fixpoint upd_nth {A} (l : list A) (i : nat) (f : A -> A) : list A :=
  match l, i with
  | [], _ => []
  | x :: tl, O => f x :: tl
  | x :: tl, S i' => x :: upd_nth tl i' f
  end.

Fixpoint func_find (n : name) (fs : list (name * (list nat * nat))) : option (list nat * nat) :=
  match fs with
  | [] => None
  | (m, x) :: tl => if Nat.eqb n m then Some x else func_find n tl
  end.

Definition arity_of (aux : list nat) : nat := nth 0 aux 0.

Definition rows (b : sdb) (t : nat) : stab := snd (nth t b (0, [])).
Definition write (b : sdb) (t : nat) (k : list Z) (v : Z) : sdb :=
  upd_nth b t (fun tb => (fst tb, tab_set (snd tb) k v)).

(** all writes of one iteration of the rules of ruleset [rs], computed on the state before the
    iteration (matches first, then actions) *)
Fixpoint rule_writes (d : decls) (b : sdb) (rs : name) (rules : list (name * list nat))
  : list (nat * list Z * Z) :=
  match rules with
  | [] => []
  | (_, aux) :: tl =>
      let here :=
        if Nat.eqb (nth 0 aux 0) rs then
          match func_find (nth 1 aux 0) (d_funcs d), func_find (nth 2 aux 0) (d_funcs d) with
          | Some (_, ts), Some (_, td) => map (fun kv => (td, fst kv, snd kv)) (rows b ts)
          | _, _ => []
          end
        else [] in
      here ++ rule_writes d b rs tl
  end.

Definition sdb_step (d : decls) (b : sdb) (c : sdcmd) : sdb * sdout * nat * nat :=
  match c with
  | DSet f k v =>
      match func_find f (d_funcs d) with
      | Some (aux, t) =>
          if Nat.eqb (arity_of aux) (length k)
          then (write b t k v, DOk, 0, 0)
          else (b, DErrType, 0, 0)
      | None => (b, DErrType, 0, 0)
      end
  | DCheck f k v =>
      match func_find f (d_funcs d) with
      | Some (aux, t) =>
          if Nat.eqb (arity_of aux) (length k)
          then match tab_get (rows b t) k with
               | Some v' => if Z.eqb v v' then (b, DOk, 0, 2) else (b, DErrCheck, 0, 2)
               | None => (b, DErrCheck, 0, 2)
               end
          else (b, DErrType, 0, 0)
      | None => (b, DErrType, 0, 0)
      end
  | DSize f =>
      match func_find f (d_funcs d) with
      | Some (_, t) => (b, DSizeIs (length (rows b t)), 0, 0)
      | None => (b, DErrType, 0, 0)
      end
  | DRun rs =>
      if mem rs (d_rulesets d)
      then (fold_left (fun acc w => write acc (fst (fst w)) (snd (fst w)) (snd w))
                      (rule_writes d b rs (d_rules d)) b, DOk, 1, 0)
      else (b, DErrType, 0, 0)
  end.

Definition sdb_decl (b : sdb) (k : ns) (n : name) (aux : list nat) : sdb :=
  match k with
  | NFunc => b ++ [(arity_of aux, [])]
  | _ => b
  end.

(** the API layer checks the key's arity against the (live) table handle first (`check_arity`) *)
Definition sdb_api (b : sdb) (t : nat) (op : saop) : sdb * saout :=
  let ar := fst (nth t b (0, [])) in
  match op with
  | ASet k v => if Nat.eqb ar (length k) then (write b t k v, AOk) else (b, AErrArity)
  | ALookup k => if Nat.eqb ar (length k) then (b, AVal (tab_get (rows b t) k)) else (b, AErrArity)
  | ASize => (b, ASizeIs (length (rows b t)))
  end.

Definition sdecl_extra (d : decls) (k : ns) (n : name) (aux : list nat) : bool :=
  match k with
  | NRule =>
      mem (nth 0 aux 0) (d_rulesets d)
      && match func_find (nth 1 aux 0) (d_funcs d), func_find (nth 2 aux 0) (d_funcs d) with
         | Some (a1, _), Some (a2, _) => Nat.eqb (arity_of a1) 1 && Nat.eqb (arity_of a2) 1
         | _, _ => false
         end
  | _ => true
  end.

Definition sreject (d : decls) (k : ns) (n : name) (aux : list nat) : decls := d.

Definition scmd := cmd sdcmd saop.
Definition sout := out sdout saout.

Definition sstep := step sdb sdcmd sdout saop saout sdb_step sdb_decl sdb_api sdecl_extra sreject.
Definition srun := run sdb sdcmd sdout saop saout sdb_step sdb_decl sdb_api sdecl_extra sreject.
Definition sprun := prun sdb sdcmd sdout saop saout sdb_step sdb_decl sdb_api sdecl_extra sreject.
Definition ssess0 : sess sdb := sess0 sdb [].

(* ---- decidable equality of outputs, for the cases ---- *)

Definition optZ_eqb (a b : option Z) : bool :=
  match a, b with
  | Some x, Some y => Z.eqb x y
  | None, None => true
  | _, _ => false
  end.

Definition sout_eqb (a b : sout) : bool :=
  match a, b with
  | OOk, OOk => true
  | OErr EPop, OErr EPop | OErr EDecl, OErr EDecl | OErr EParse, OErr EParse => true
  | ODb DOk, ODb DOk | ODb DErrType, ODb DErrType | ODb DErrCheck, ODb DErrCheck => true
  | ODb (DSizeIs x), ODb (DSizeIs y) => Nat.eqb x y
  | OMissing, OMissing => true
  | OApi AOk, OApi AOk | OApi AErrArity, OApi AErrArity => true
  | OApi (AVal x), OApi (AVal y) => optZ_eqb x y
  | OApi (ASizeIs x), OApi (ASizeIs y) => Nat.eqb x y
  | OStats _, OStats _ => true       (* carve-out: the report is not compared *)
  | OFresh _, OFresh _ => true       (* carve-out: fresh names are not compared *)
  | _, _ => false
  end.

(** a single-session case: the commands and the outputs the real engine gave *)
Record scase := mkSCase { sc_cmds : list scmd; sc_expected : list sout }.

Definition check_case (c : scase) : bool :=
  list_eqb sout_eqb (snd (srun (sc_cmds c) ssess0 shared0)) (sc_expected c).

(** a clone case: prefix on the original, then `b = a.clone()`, then interleaved commands *)
Record pcase := mkPCase {
  pc_prefix : list scmd;
  pc_cmds : list (side * scmd);
  pc_expected : list sout
}.

Definition check_pcase (c : pcase) : bool :=
  let '(s, sh, _) := srun (pc_prefix c) ssess0 shared0 in
  list_eqb sout_eqb (map snd (snd (sprun (pc_cmds c) (clone sdb s sh)))) (pc_expected c).

(** one checker for both kinds of cases *)
Inductive xcase := XS (c : scase) | XP (c : pcase).
Definition check_xcase (c : xcase) : bool :=
  match c with XS c => check_case c | XP c => check_pcase c end.
