(** C17 (concurrent half) — the concurrent union-find of union-find/src/concurrent/uf.rs.
    This file only pins statements and prints their assumptions.

    The theorems are about the interleaving semantics UF/ConcModel.v: shared [parent : nat -> nat],
    any number of threads, every atomic step = one load or one cas of find_impl / merge / same_set,
    ALL interleavings, sequentially consistent. Not modelled (stress harness only): Acquire/Release
    orderings, Buffer growth under the ReadOptimizedLock (its protocol: the c19_rolock theorems of C19), u32
    exhaustion. Linearizability: proved at the level of the PARTITION - every find / same_set /
    union has a point inside its interval at which its answer (for union: its effect and the
    absorbed root) agrees with the abstract partition (c17c_response_ok_partial,
    c17c_same_false_lin); REFUTED for the first component of union's result, which can be a stale
    non-root (c17c_union_parent_stale_refuted, c17c_linearizable_refuted). *)
From Coq Require Import List Arith Bool.
Import ListNotations.
Require Import Verif.UF.ConcModel Verif.UF.Conc.

(** in every reachable configuration parent[x] <= x and the partition (same root) is exactly the
    equivalence closure of the arguments of the merges that took effect (successful link CAS, or
    both roots found equal) *)
Theorem c17c_inv : forall s, ConcModel.reachable s ->
  (forall i, parent s i <= i) /\
  (forall x y, eqv (parent s) x y <-> conn (merged s) x y).
Proof. exact conc_inv. Qed.
Print Assumptions c17c_inv.

(** compression never changes the partition: whichever find_impl step a thread takes next
    (load, load, or splitting CAS - successful or failed), every id keeps its root *)
Theorem c17c_compress_preserves : forall s t x0 f, ConcModel.reachable s ->
  fpc_of (thr s t) = Some (x0, f) ->
  (forall x r, root_of (parent s) x r <-> root_of (fst (fstep (parent s) f)) x r) /\
  (forall i, fst (fstep (parent s) f) i <= i).
Proof. exact conc_compress_preserves. Qed.
Print Assumptions c17c_compress_preserves.

(** the only root-changing step, a successful link CAS, makes the partition the old one plus the
    pair of arguments of that merge *)
Theorem c17c_link_effect : forall s t l0 r0 l r, ConcModel.reachable s ->
  thr s t = MergeCas l0 r0 l r -> parent s (Nat.max l r) = Nat.max l r ->
  let p' := upd (parent s) (Nat.max l r) (Nat.min l r) in
  (forall i, p' i <= i) /\
  forall x y, eqv p' x y <->
     (eqv (parent s) x y \/ (eqv (parent s) x l0 /\ eqv (parent s) r0 y)
                         \/ (eqv (parent s) x r0 /\ eqv (parent s) l0 y)).
Proof. exact conc_link_effect. Qed.
Print Assumptions c17c_link_effect.

(** the representative (root) of every id exists, is connected to it by the merges that took
    effect, and is the least id of its class - in every reachable configuration, in particular at
    quiescence *)
Theorem c17c_rep_min : forall s, ConcModel.reachable s -> forall x,
  exists r, root_of (parent s) x r /\ conn (merged s) x r /\
            forall y, conn (merged s) x y -> r <= y.
Proof. exact conc_rep_min. Qed.
Print Assumptions c17c_rep_min.

(** linearization-point facts, PARTIAL linearizability (see the comment at [resp_ok] in
    UF/Conc.v): at the step where a thread responds,
    find(x)=r: r is the root (least member) of x's class now; same_set=true: same class now;
    union(a,b)=(p,c): takes effect now, a~b afterwards, p<=c, c was a root until now and points to
    p now (or p=c is the common root and nothing was written);
    same_set=false: the left root is current, differs from the remembered right root (partial) *)
Theorem c17c_response_ok_partial : forall s t o rs, ConcModel.reachable s ->
  tstep (parent s) (thr s t) = Some o -> o_res o = Some rs -> resp_ok (parent s) (o_par o) rs.
Proof. exact conc_response_ok. Qed.
Print Assumptions c17c_response_ok_partial.

(** linearization point of same_set = false INSIDE the call's interval: if thread t entered
    same_set(a,b) in configuration s0, has not returned since ([incall]), and its next step answers
    false, then in some configuration sm of that interval a and b were in different classes
    (argument: the right root r was a root when observed; the left root l is a root now, hence was
    one then - a non-root never becomes a root again - so two different roots then) *)
Theorem c17c_same_false_lin : forall t s0 s a b o, ConcModel.reachable s0 ->
  thr s0 t = SameL a b b (F0 a) -> incall t s0 s ->
  tstep (parent s) (thr s t) = Some o -> o_res o = Some (RSame a b false) ->
  exists sm, incall t s0 sm /\ steps sm s /\ ~ eqv (parent sm) a b.
Proof. exact conc_same_false_lin. Qed.
Print Assumptions c17c_same_false_lin.

(** REFUTED in the faithful model (so also not linearizable w.r.t. the sequential union, whose
    first component is the class representative): union(5,7) can return parent 5 although 5 is not
    a root any more (3 is the representative). Schedule: [stale_schedule]. *)
Theorem c17c_union_parent_stale_refuted :
  exists s, ConcModel.reachable s /\
    hist s = [RMerge 5 7 5 7; RMerge 5 3 3 5] /\ parent s 5 = 3 /\ parent s 7 = 5 /\
    root_of (parent s) 7 3.
Proof. exact conc_union_parent_stale. Qed.
Print Assumptions c17c_union_parent_stale_refuted.

(** REFUTED: linearizability w.r.t. the sequential union-find (whose [union] returns the
    representative of the merged class). A reachable, quiescent history of four operations -
    union(5,3)=(3,5), then same_set(5,3)=true, then same_set(5,7)=false, all three inside the
    interval of union(5,7)=(5,7) - such that NONE of the four orders compatible with real time is
    explained by the translated sequential structure (gen/UFSeq.v); the last order is explained
    once the stale parent 5 is replaced by the true representative 3. The partition-level
    behaviour (find, same_set, the effect of union) is not affected: c17c_response_ok_partial. *)
Theorem c17c_linearizable_refuted :
  (exists s, ConcModel.reachable s /\ rev (hist s) = nonlin_observed /\
     thr s 1 = Idle /\ thr s 2 = Idle /\ thr s 3 = Idle) /\
  forallb (fun c => negb (explains c)) nonlin_candidates = true /\
  explains ([CUnion 5 3; CSame 5 3; CSame 5 7; CUnion 5 7],
            [RMerge 5 3 3 5; RSame 5 3 true; RSame 5 7 false; RMerge 5 7 3 7]) = true.
Proof. exact conc_not_linearizable_witness. Qed.
Print Assumptions c17c_linearizable_refuted.

(** non-vacuity of the final-state correspondence check *)
Example c17c_case_example :
  ConcModel.check_case ([(5, 7); (5, 3); (9, 8)], 10, [0; 1; 2; 3; 4; 3; 6; 3; 8; 8]) = true.
Proof. vm_compute. reflexivity. Qed.
