(** C15 — command level: printing a command (exact `Display for GenericCommand` text) and parsing
    the text as a program gives the command back, up to the parser's documented normal form
    ([norm_command]: `run-schedule` wraps its schedules in a Sequence and schedules re-parse to
    [rewrap]; everything else is the identity).  Holds for every command satisfying
    [wf_command]. *)
From Coq Require Import List NArith ZArith Bool Lia.
Import ListNotations.
Require Import Verif.Base.Cases Verif.gen.SyntaxFacts Verif.Syntax.Sexp Verif.Syntax.SexpProofs
               Verif.Syntax.Ast Verif.Syntax.AstProofs Verif.Syntax.Tables.
Local Open Scope N_scope.

(** decide [str_eqb] tests between closed keywords *)
Ltac kwt :=
  repeat match goal with
         | |- context [str_eqb ?a ?b] =>
             let v := eval vm_compute in (str_eqb a b) in
             match v with true => idtac | false => idtac end;
             change (str_eqb a b) with v
         end; cbv iota.

Section Cmd.
  Variable fmt_f64 : Z -> str.
  Variable parse_f64 : str -> option fl.
  Hypothesis fmt_chars : forall x, finite_bits x -> numchars (fmt_f64 x).
  Hypothesis fmt_nonempty : forall x, finite_bits x -> fmt_f64 x <> [].
  Hypothesis parse_fmt : forall x, finite_bits x ->
    parse_f64 (print_float fmt_f64 (FFin x)) = Some (FFin x).
  Hypothesis parse_digit : forall s x, parse_f64 s = Some (FFin x) -> has_digit s = true.
  Variable chk : bool.

  Notation wf_atom := (wf_atom parse_f64).
  Notation wf_l := (wf_l parse_f64).
  Notation wf_items := (wf_items parse_f64).
  Notation wf_expr := (wf_expr parse_f64 chk).
  Notation wf_fact := (wf_fact parse_f64 chk).
  Notation wf_action := (wf_action parse_f64 chk).
  Notation wf_sched := (wf_sched parse_f64 chk).

  Ltac kwa := apply (word_atom parse_f64 parse_digit); [repeat split; try discriminate | reflexivity ..].

  (** * generic layout lemmas *)
  Lemma strip_disp : forall w0 sep xs,
    List.map (fun p : str * lsexp => strip (snd p)) (list_disp w0 sep xs) = List.map strip xs.
  Proof. destruct xs; simpl; [reflexivity|]. rewrite map_map. reflexivity. Qed.

  Lemma wf_items_true : forall l, wf_items false l -> wf_items true l.
  Proof. destruct l as [|[w x] tl]; simpl; tauto. Qed.

  Lemma wf_items_app : forall a c, wf_items false a -> wf_items false c -> wf_items false (a ++ c).
  Proof.
    induction a as [|[w x] tl IH]; intros c Ha Hc; simpl; [assumption|].
    simpl in Ha. destruct Ha as (A & B & C & D). repeat split; auto.
  Qed.

  Lemma wf_disp : forall w0 sep xs, ws_str w0 -> w0 <> [] -> ws_str sep -> sep <> [] ->
    Forall wf_l xs -> wf_items false (list_disp w0 sep xs).
  Proof.
    intros w0 sep xs A B C D H. destruct H as [|x tl Hx Htl]; simpl; [exact I|].
    repeat split; auto. induction Htl as [|y tl' Hy _ IH]; simpl; [exact I|]. repeat split; auto.
  Qed.

  Lemma wf_disp0 : forall sep xs, ws_str sep -> sep <> [] ->
    Forall wf_l xs -> wf_items true (list_disp [] sep xs).
  Proof.
    intros sep xs C D H. destruct H as [|x tl Hx Htl]; simpl; [exact I|].
    repeat split; auto. induction Htl as [|y tl' Hy _ IH]; simpl; [exact I|]. repeat split; auto.
  Qed.

  Lemma ws_sp : ws_str sp. Proof. reflexivity. Qed.
  Lemma sp_ne : sp <> []. Proof. discriminate. Qed.
  Lemma ws_tail : forall {A} (xs : list A), ws_str (tail_ws xs). Proof. destruct xs; reflexivity. Qed.

  (** a parenthesised list without a keyword: `({})` *)
  Lemma wf_plain_list : forall sep xs, ws_str sep -> sep <> [] -> Forall wf_l xs ->
    wf_l (LList (list_disp [] sep xs) []).
  Proof. intros. apply wf_l_list. split; [reflexivity | apply wf_disp0; assumption]. Qed.

  (** * lists of sub-terms *)
  Lemma exprs_wf : forall es, Forall wf_expr es -> Forall wf_l (List.map lay_expr es).
  Proof. induction 1 as [|e tl He _ IH]; simpl; constructor; [apply (expr_ok parse_f64 chk e He) | exact IH]. Qed.
  Lemma exprs_parse : forall es n, Forall wf_expr es ->
    mapM (parse_expr chk) (List.map strip (List.map lay_expr es)) n = POk (es, n).
  Proof.
    intros es n H. rewrite map_map. apply (exprs_ok parse_f64 chk es H).
  Qed.
  Lemma facts_wf : forall fs, Forall wf_fact fs -> Forall wf_l (List.map lay_fact fs).
  Proof. induction 1 as [|e tl He _ IH]; simpl; constructor; [apply (fact_ok parse_f64 parse_digit chk e He) | exact IH]. Qed.
  Lemma facts_parse : forall fs n, Forall wf_fact fs ->
    mapM (parse_fact chk) (List.map strip (List.map lay_fact fs)) n = POk (fs, n).
  Proof.
    intros fs n H. rewrite map_map. apply (facts_ok parse_f64 parse_digit chk fs H).
  Qed.
  Lemma actions_wf : forall l, Forall wf_action l -> Forall wf_l (List.map lay_action l).
  Proof. induction 1 as [|e tl He _ IH]; simpl; constructor; [apply (action_ok parse_f64 parse_digit chk e He) | exact IH]. Qed.
  Lemma actions_parse : forall l n, Forall wf_action l ->
    mapM (parse_action chk) (List.map strip (List.map lay_action l)) n = POk (l, n).
  Proof.
    intros l n H. revert n. induction H as [|a tl Ha _ IH]; intro n; simpl; [reflexivity|].
    unfold bindM. destruct (action_ok parse_f64 parse_digit chk a Ha) as [_ B].
    change (strip (lay_action a)) with (sx_action a). rewrite B, IH. reflexivity.
  Qed.
  Lemma atoms_wf : forall l, Forall wf_atom l -> Forall wf_l (List.map LAtom l).
  Proof. induction 1; simpl; constructor; assumption. Qed.
  Lemma atoms_parse : forall l n, atoms (List.map strip (List.map LAtom l)) n = POk (l, n).
  Proof.
    intros l n. unfold atoms. revert n. induction l as [|a tl IH]; intro n; simpl; [reflexivity|].
    unfold bindM. simpl. rewrite IH. reflexivity.
  Qed.

  Definition wf_num (k : N) : Prop := in_i64 (Z.of_N k) = true.
  Lemma uint_ok : forall k n, expect_uint None (SLit (LInt (Z.of_N k))) n = POk (k, n).
  Proof.
    intros k n. unfold expect_uint. assert (Z.leb 0 (Z.of_N k) = true) as -> by (apply Z.leb_le; lia).
    simpl. unfold ret. rewrite N2Z.id. reflexivity.
  Qed.

  (** * option lists: `parse_options` on the flattening of (key, values) groups *)
  Definition nc (s : sexp) : Prop := option_name s = None.
  Definition is_opt (k : str) : Prop := option_name (SAtom k) = Some k.
  Definition oflat (og : list (str * list sexp)) : list sexp :=
    List.concat (List.map (fun kv : str * list sexp => SAtom (fst kv) :: snd kv) og).
  Definition og_ok (og : list (str * list sexp)) : Prop :=
    Forall (fun kv : str * list sexp => is_opt (fst kv) /\ Forall nc (snd kv)) og.

  Lemma take_vals_app : forall vs rest, Forall nc vs ->
    match rest with [] => True | x :: _ => option_name x <> None end ->
    take_vals (vs ++ rest) = (vs, rest).
  Proof.
    intros vs rest H Hr. induction H as [|v tl Hv _ IH]; simpl.
    - destruct rest as [|x r]; [reflexivity|]. simpl. destruct (option_name x); [reflexivity | congruence].
    - rewrite Hv, IH. reflexivity.
  Qed.

  Lemma popts_flat : forall og fuel, og_ok og -> (List.length og < fuel)%nat ->
    parse_options_fuel fuel (oflat og) = POk og.
  Proof.
    induction og as [|[k vs] og IH]; intros fuel Hok Hf; (destruct fuel as [|fuel]; [inversion Hf|]); [reflexivity|].
    inversion Hok as [|? ? [Hk Hvs] Hok']; subst. unfold oflat. cbn [List.map List.concat fst snd].
    fold (oflat og). cbn [parse_options_fuel app]. unfold is_opt in Hk. cbn [fst] in Hk. rewrite Hk.
    rewrite take_vals_app; [| exact Hvs |].
    - rewrite IH; [reflexivity | exact Hok' | simpl in Hf; lia].
    - destruct og as [|[k' vs'] og']; [exact I|]. inversion Hok' as [|? ? [Hk' _] _]; subst.
      unfold oflat. cbn [List.map List.concat fst snd app]. unfold is_opt in Hk'. cbn [fst] in Hk'. rewrite Hk'. discriminate.
  Qed.

  Lemma oflat_len : forall og, (List.length og <= List.length (oflat og))%nat.
  Proof.
    induction og as [|[k vs] og IH]; [simpl; lia|]. unfold oflat. cbn [List.map List.concat fst snd].
    fold (oflat og). simpl. rewrite app_length. lia.
  Qed.

  Lemma parse_options_flat : forall og n, og_ok og -> parse_options (oflat og) n = POk (og, n).
  Proof.
    intros og n H. unfold parse_options. rewrite popts_flat; [reflexivity | exact H |].
    pose proof (oflat_len og). lia.
  Qed.

  Definition nocolon (a : str) : Prop := nc (SAtom a).
  Definition nc_expr (e : expr) : Prop := match e with EVar v => nocolon v | _ => True end.
  Lemma nc_expr_ok : forall e, nc_expr e -> nc (strip (lay_expr e)).
  Proof. intros [v|f args|[]] H; try reflexivity; exact H. Qed.

  Definition og_flag (k : str) (b : bool) : list (str * list sexp) := if b then [(k, [])] else [].
  Definition og_cost (c : option N) : list (str * list sexp) :=
    match c with Some k => [(o_cost, [SLit (LInt (Z.of_N k))])] | None => [] end.
  Definition og_opt (k : str) (o : option str) : list (str * list sexp) :=
    match o with Some v => [(k, [SAtom v])] | None => [] end.
  Definition og_sym (k : str) (v : str) : list (str * list sexp) :=
    match v with [] => [] | _ => [(k, [SAtom v])] end.
  Definition og_name (v : str) : list (str * list sexp) :=
    match v with [] => [] | _ => [(o_name, [SLit (LStr v)])] end.

  Definition sn (p : str * lsexp) : sexp := strip (snd p).

  (** * normal form and well-formedness *)
  Fixpoint norm_command (c : command) : command :=
    match c with
    | CRunSchedule s => CRunSchedule (SSeq [rewrap s])
    | CFail c => CFail (norm_command c)
    | c => c
    end.

  (** the head of a top-level expression action must not be a command keyword of the REGENERATED
      table (otherwise `parse_command` dispatches to that command) *)
  Definition cmd_head_free (a : action) : Prop :=
    match a with
    | AExpr (ECall g _) => is_head command_heads g = false
    | _ => True
    end.

  Fixpoint wf_command (c : command) : Prop :=
    match c with
    | CAddRuleset name => wf_atom name
    | CCombinedRuleset name subs => wf_atom name /\ Forall wf_atom subs
    | CRelation name ins => wf_atom name /\ Forall wf_atom ins
    | CAction a => wf_action a /\ cmd_head_free a
    | CExtract e v => wf_expr e /\ wf_expr v
    | CRunSchedule s => wf_sched s
    | CPrintStats _ => True
    | CCheck fs => Forall wf_fact fs
    | CProve fs => Forall wf_fact fs
    | CProveExists c => wf_atom c
    | CPush k => wf_num k
    | CPop k => wf_num k
    | CPrintSize None => True
    | CPrintSize (Some name) => wf_atom name
    | CInput name _ => wf_atom name
    | COutput _ es => Forall wf_expr es
    | CInclude _ => True
    | CFail c => wf_command c
    | _ => False
    end.

  Ltac items :=
    repeat first [ exact I | apply wf_it | apply wf_items_app ].

  Lemma command_ok : forall c, wf_command c ->
    wf_l (lay_command c) /\ forall n, parse_command chk (strip (lay_command c)) n = POk (norm_command c, n).
  Proof.
    induction c; intro Hwf; simpl in Hwf; try contradiction.
    - (* relation *) destruct Hwf as [Hn Hi]. split.
      + apply wf_kw_list; [kwa | | reflexivity].
        apply wf_it; [exact Hn|]. apply wf_it; [|exact I].
        apply wf_plain_list; [apply ws_sp | apply sp_ne | apply atoms_wf; exact Hi].
      + intro n. cbn [lay_command strip List.map snd it kw]. rewrite strip_disp.
        cbn [parse_command]. kwt. unfold bindM. cbn [expect_atom ret]. rewrite atoms_parse. reflexivity.
    - (* ruleset *) split.
      + apply wf_kw_list; [kwa | | reflexivity]. apply wf_it; [exact Hwf | exact I].
      + intro n. reflexivity.
    - (* combined ruleset *) destruct Hwf as [Hn Hs]. split.
      + unfold lay_command, lay_head_list. apply wf_kw_list; [kwa | | apply ws_tail].
        apply wf_items_app; [apply wf_it; [exact Hn | exact I]|].
        apply wf_disp; [apply ws_sp | apply sp_ne | apply ws_sp | apply sp_ne | apply atoms_wf; exact Hs].
      + intro n. unfold lay_command, lay_head_list. cbn [strip List.map snd it kw app]. rewrite strip_disp.
        cbn [parse_command]. kwt. unfold bindM. cbn [expect_atom ret].
        rewrite atoms_parse. reflexivity.
    - (* action *) destruct Hwf as [Ha Hf]. destruct (action_ok parse_f64 parse_digit chk a Ha) as [A B]. split; [exact A|].
      intro n. cbn [lay_command norm_command].
      destruct a as [v e|f args v|ch f args|x y|m|e]; try (specialize (B n); revert B; unfold sx_action;
        cbn [lay_action strip List.map snd it kw]; try destruct ch; cbn [change_kw parse_command]; kwt; unfold bindM at 1;
        intros ->; reflexivity).
      destruct Ha as (_ & g & args & -> & _). simpl in Hf.
      change (strip (lay_action (AExpr (ECall g args)))) with (SList (SAtom g :: List.map (fun p => strip (snd p)) (List.map (fun a => it (lay_expr a)) args))).
      rewrite parse_command_fallback by exact Hf. unfold bindM.
      specialize (B n). unfold sx_action in B. cbn [lay_action lay_expr strip kw snd List.map] in B.
      rewrite B. reflexivity.
    - (* extract *) destruct Hwf as [He Hv]. destruct (expr_ok parse_f64 chk e He) as [A1 A2].
      destruct (expr_ok parse_f64 chk v Hv) as [B1 B2]. split.
      + apply wf_kw_list; [kwa | | reflexivity]. apply wf_it; [exact A1|]. apply wf_it; [exact B1 | exact I].
      + intro n. cbn [lay_command strip List.map snd it kw]. cbn [parse_command]. kwt. unfold bindM.
        fold (sx_expr e). fold (sx_expr v). rewrite A2, B2. reflexivity.
    - (* run-schedule *) destruct (sched_ok parse_f64 parse_digit chk s Hwf) as [A B]. split.
      + apply wf_kw_list; [kwa | | reflexivity]. apply wf_it; [exact A | exact I].
      + intro n. cbn [lay_command strip List.map snd it kw]. cbn [parse_command]. kwt. unfold bindM.
        cbn [mapM]. unfold bindM. fold (sx_sched s). rewrite B. reflexivity.
    - (* print-stats *) destruct file as [f|]; split.
      + apply wf_kw_list; [kwa | | reflexivity]. apply wf_it; [kwa|]. apply wf_it; [exact I | exact I].
      + intro n. reflexivity.
      + apply wf_kw_list; [kwa | exact I | reflexivity].
      + intro n. reflexivity.
    - (* check *) split.
      + unfold lay_command, lay_head_list. apply wf_kw_list; [kwa | | apply ws_tail]. cbn [app].
        apply wf_disp; [apply ws_sp | apply sp_ne | reflexivity | discriminate | apply facts_wf; exact Hwf].
      + intro n. unfold lay_command, lay_head_list. cbn [strip List.map snd it kw app]. rewrite strip_disp.
        cbn [parse_command]. kwt. unfold bindM. rewrite facts_parse by exact Hwf. reflexivity.
    - (* prove *)
      assert (E : fs <> [] -> lay_command (CProve fs) = lay_head_list k_prove [] (List.map lay_fact fs) sp)
        by (destruct fs; [congruence | reflexivity]).
      destruct fs as [|f0 fs'].
      + split; [apply wf_kw_list; [kwa | exact I | reflexivity] | intro n; reflexivity].
      + rewrite E by discriminate. clear E. remember (f0 :: fs') as fs eqn:Heq. clear Heq. split.
        * unfold lay_head_list. apply wf_kw_list; [kwa | | apply ws_tail]. cbn [app].
          apply wf_disp; [apply ws_sp | apply sp_ne | apply ws_sp | apply sp_ne | apply facts_wf; exact Hwf].
        * intro n. unfold lay_head_list. cbn [strip List.map snd it kw app]. rewrite strip_disp.
          cbn [parse_command]. kwt. unfold bindM. rewrite facts_parse by exact Hwf. reflexivity.
    - (* prove-exists *) split.
      + apply wf_kw_list; [kwa | | reflexivity]. apply wf_it; [exact Hwf | exact I].
      + intro n. reflexivity.
    - (* push *) split.
      + apply wf_kw_list; [kwa | | reflexivity]. apply wf_it; [exact Hwf | exact I].
      + intro m. cbn [lay_command lay_N strip List.map snd it kw]. cbn [parse_command]. kwt. unfold bindM.
        rewrite uint_ok. reflexivity.
    - (* pop *) split.
      + apply wf_kw_list; [kwa | | reflexivity]. apply wf_it; [exact Hwf | exact I].
      + intro m. cbn [lay_command lay_N strip List.map snd it kw]. cbn [parse_command]. kwt. unfold bindM.
        rewrite uint_ok. reflexivity.
    - (* print-size *) destruct name as [nm|]; split.
      + apply wf_kw_list; [kwa | | reflexivity]. apply wf_it; [exact Hwf | exact I].
      + intro n. reflexivity.
      + apply wf_kw_list; [kwa | exact I | reflexivity].
      + intro n. reflexivity.
    - (* input *) split.
      + apply wf_kw_list; [kwa | | reflexivity]. apply wf_it; [exact Hwf|]. apply wf_it; [exact I | exact I].
      + intro n. reflexivity.
    - (* output *) split.
      + unfold lay_command, lay_head_list. apply wf_kw_list; [kwa | | apply ws_tail].
        apply wf_items_app; [apply wf_it; [exact I | exact I]|].
        apply wf_disp; [apply ws_sp | apply sp_ne | apply ws_sp | apply sp_ne | apply exprs_wf; exact Hwf].
      + intro n. unfold lay_command, lay_head_list. cbn [strip List.map snd it kw app lay_dbg]. rewrite strip_disp.
        cbn [parse_command]. kwt. unfold bindM. cbn [expect_string ret]. rewrite exprs_parse by exact Hwf. reflexivity.
    - (* fail *) destruct (IHc Hwf) as [A B]. split.
      + apply wf_kw_list; [kwa | | reflexivity]. apply wf_it; [exact A | exact I].
      + intro n. cbn [lay_command strip List.map snd it kw]. fold lay_command. cbn [parse_command]. kwt.
        unfold bindM. rewrite B. reflexivity.
    - (* include *) split.
      + apply wf_kw_list; [kwa | | reflexivity]. apply wf_it; [exact I | exact I].
      + intro n. reflexivity.
  Qed.

  (** * text level: `Parser::get_program_from_string (c.to_string())` *)
  Lemma read_all_list : forall items cw, wf_l (LList items cw) ->
    read_all parse_f64 (text fmt_f64 (LList items cw)) = POk [strip (LList items cw)].
  Proof.
    intros items cw H. pose proof (read_sexp_text fmt_f64 parse_f64 fmt_chars fmt_nonempty parse_fmt _ H) as R.
    unfold read_all. rewrite text_list in *. cbn [skip_ws]. change (c_lp =? c_semi) with false.
    change (c_lp =? c_nl) with false. change (is_ws c_lp) with false. cbv iota.
    cbn [List.length read_all_loop]. rewrite R. cbn [pbind]. destruct (items_text fmt_f64 items ++ cw ++ [c_rp]); reflexivity.
  Qed.

  Lemma lay_command_list : forall c, wf_command c -> exists items cw, lay_command c = LList items cw.
  Proof.
    intros c H. destruct c; simpl in H; try contradiction; try (eexists; eexists; reflexivity).
    - destruct H as [Ha _]. destruct a; try (eexists; eexists; reflexivity).
      destruct Ha as (_ & g & args & -> & _). eexists; eexists; reflexivity.
    - destruct file; eexists; eexists; reflexivity.
    - destruct fs; eexists; eexists; reflexivity.
    - destruct name; eexists; eexists; reflexivity.
  Qed.

  Theorem command_roundtrip : forall c n, wf_command c ->
    parse_program parse_f64 chk (print_command fmt_f64 c) n = POk ([norm_command c], n).
  Proof.
    intros c n H. destruct (command_ok c H) as [A B]. destruct (lay_command_list c H) as (items & cw & E).
    unfold parse_program, print_command. rewrite E in *. rewrite (read_all_list items cw A).
    cbn [mapM]. unfold bindM. rewrite B. reflexivity.
  Qed.

  (** the normal form is the identity on every command without a `run-schedule` *)
  Fixpoint no_sched (c : command) : Prop :=
    match c with CRunSchedule _ => False | CFail c => no_sched c | _ => True end.
  Lemma norm_command_id : forall c, no_sched c -> norm_command c = c.
  Proof. induction c; intro H; simpl in *; try reflexivity; try contradiction. rewrite IHc by exact H. reflexivity. Qed.

  (** ... and on `run-schedule` it is invisible once singleton sequences are flattened *)
  Lemma norm_command_sched : forall s, flat (SSeq [rewrap s]) = flat s.
  Proof. intro s. simpl. rewrite flat_rewrap. destruct (flat s); reflexivity. Qed.
End Cmd.
