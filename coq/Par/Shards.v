(** C06: the logical effect of the parallel insertion / rebuild variants as a function of an
    explicit sharding and scheduling oracle, compared with the serial variant.
    Over [Egg/Model.v]'s [tab_insert]/[insert_all] (Egg/Merge.v). *)
From Coq Require Import List Arith ZArith Bool PeanoNat Lia Permutation.
Import ListNotations.
Require Import Verif.gen.SourceFacts Verif.Egg.Model Verif.Egg.Merge.

Section Sharding.
  (** any shard function of the KEY (the real one is a hash of the key columns) *)
  Variable h : list val -> nat.

  Definition shard (i : nat) (ws : list row) : list row :=
    filter (fun w => Nat.eqb (h (rargs w)) i) ws.

  Lemma filter_key_shard k i ws :
    filter (fun w => vals_eqb (rargs w) k) (shard i ws)
    = if Nat.eqb (h k) i then filter (fun w => vals_eqb (rargs w) k) ws else [].
  Proof.
    unfold shard. induction ws as [|w ws IH].
    - simpl. destruct (Nat.eqb (h k) i); reflexivity.
    - cbn [filter]. destruct (vals_eqb (rargs w) k) eqn:Ek.
      + assert (Hk : rargs w = k) by (apply vals_eqb_eq; exact Ek). rewrite Hk.
        destruct (Nat.eqb (h k) i) eqn:Ei.
        * cbn [filter]. rewrite Ek. f_equal. exact IH.
        * exact IH.
      + destruct (Nat.eqb (h (rargs w)) i).
        * cbn [filter]. rewrite Ek. exact IH.
        * exact IH.
  Qed.

  (** the writes to key k seen when the shards are processed in ANY order [order] (each shard
      once) are exactly the writes to k in arrival order *)
  Lemma writes_to_sharded k ws : forall order, NoDup order -> In (h k) order ->
    writes_to k (flat_map (fun i => shard i ws) order) = writes_to k ws.
  Proof.
    unfold writes_to. intros order ND Hin. f_equal.
    induction order as [|i order IH]; [destruct Hin|].
    cbn [flat_map]. rewrite filter_app, filter_key_shard.
    inversion ND as [|? ? Hni ND']; subst.
    destruct (Nat.eqb_spec (h k) i) as [E|N].
    - (* the remaining shards contain no row of key k *)
      assert (Z : filter (fun w => vals_eqb (rargs w) k) (flat_map (fun j => shard j ws) order) = []).
      { rewrite <- E in Hni. clear -Hni. induction order as [|j order IH]; [reflexivity|].
        cbn [flat_map]. rewrite filter_app, filter_key_shard.
        destruct (Nat.eqb_spec (h k) j) as [E|_]; [exfalso; apply Hni; left; auto|].
        cbn [app]. apply IH. intro H. apply Hni. right. exact H. }
      rewrite Z, app_nil_r. reflexivity.
    - cbn [app]. apply IH; auto. destruct Hin as [E|H]; [congruence|exact H].
  Qed.

  (** C06 (table merge): pending rows partitioned by a hash of their key, shards processed in
      any order — every key ends with exactly the value the serial merge gives it, for EVERY
      merge function (no algebraic law needed: a key's writes stay in one shard, in order) *)
  Theorem shard_merge_eq_serial m t ws k order : NoDup order -> In (h k) order ->
    tab_get (insert_all m t (flat_map (fun i => shard i ws) order)) k
    = tab_get (insert_all m t ws) k.
  Proof.
    intros ND Hin. rewrite !insert_all_get, writes_to_sharded; auto.
  Qed.

  (** same for the subsumed flag (Egg/Subsume.v states stickiness; here: shard-independence) *)
End Sharding.

(** C06 (rule partition): when the matches of one iteration are split among workers in any way,
    the staged writes arrive in a different order; for a lattice merge the stored value is the
    same (this is [c05_order_irrelevant]); restated here for the multiset of writes *)
Theorem worker_partition_irrelevant m t k (ws ws' : list (list val * Z)) :
  lattice m -> int_table t -> Permutation ws ws' ->
  int_get (insert_all m t (mk_rows ws)) k = int_get (insert_all m t (mk_rows ws')) k.
Proof. exact (c05_order_irrelevant_lemma m t k ws ws'). Qed.

(** ---- the shard function of the CURRENT source ([gen/SourceFacts.v], regenerated every run):
    `hash_code` hashes the key columns `row[0..n_keys]` only and the shard id is a function of
    that hash alone, i.e. the shard of a row is [h (rargs w)] for some [h] — the hypothesis shape
    of [shard_merge_eq_serial]. A shard function that also looks at the VALUE column splits the
    writes to one key among shards, and then the result depends on the processing order: *)
Definition shard_row (hr : row -> nat) (i : nat) (ws : list row) : list row :=
  filter (fun w => Nat.eqb (hr w) i) ws.

Lemma value_dependent_shard_refuted :
  let ws := [mkRow [VId 0] (VInt 5) false; mkRow [VId 0] (VInt 3) false] in
  let hr := fun w => match rret w with VInt 5%Z => 1 | _ => 0 end in
  tab_get (insert_all MNew [] (flat_map (fun i => shard_row hr i ws) [0; 1])) [VId 0] = Some (VInt 5)
  /\ tab_get (insert_all MNew [] ws) [VId 0] = Some (VInt 3).
Proof. split; vm_compute; reflexivity. Qed.

Lemma source_shard_is_by_key : shard_hash_input = ShardByKey.
Proof. vm_compute. reflexivity. Qed.
