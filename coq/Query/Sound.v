(** C02 — soundness of the plan checker. *)
From Coq Require Import List Arith Bool PeanoNat Lia.
Import ListNotations.
Require Import Verif.Query.Spec Verif.Query.Stages Verif.Query.PlanOk Verif.Query.SpecProofs.
