"""C16 configuration for bin/check."""

CFG = {
        "tier_a": ["UFSeq"],
        "model_targets": ["Table/Model.vo"],
        "proof_targets": ["Props/C16.vo"],
        "harness": [{"bin": "h_table", "prefix": "cases_table"}],
        "trusted": [
            "hand-written Gallina model coq/Table/Model.v of SortedWritesTable (serial paths, one shard) and DisplacedTable; tied to the code by the h_table correspondence (same op sequences, physical row ids / physical length / generation compared)",
            "translator /verif/translator for the union-find inside the DisplacedTable model (gen/UFSeq.v)",
        ],
        "theorem_backed": "SortedWritesTable model: for every op sequence (stage_insert/stage_remove/merge/clear/reads) and every merge function that keeps the key and the incoming sort value, the physical state (append-only rows with stale marks, hash of row ids, offsets, pending queues, rehash above the stale threshold) refines the plain map spec; get_row = map lookup; scans return each live row exactly once and nothing else; fast_subset on the sort column is exact for all five comparison kinds (offsets invariant); rehash preserves the abstraction and bumps the generation. DisplacedTable model: clear is refuted (F8 witness), clear-free histories answer get_row as the map",
        "link_only": "Index/ColumnIndex refresh and merge_all's touched-set reset, parallel_insert/parallel_delete/parallel_rehash (multi-shard paths), apply_rebuild/refresh_rows_for_values, clone: not modelled; constrained reads through refine/refine_ref/scan_project and estimate_size are compared with the oracle by the harness only",
        "assumptions": [
            "values are unbounded nat; Value::stale() (u32::MAX) never occurs as data",
            "one shard (no thread pool installed): pending buffers are applied in staging order",
            "rows have the table's arity (RowBuffer asserts it); column reads out of range are modelled as 0",
            "rehash's per-row in-place remap of hash entries is modelled as one simultaneous renaming",
        ],
    }
