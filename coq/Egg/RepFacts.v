(** Facts about [rep] (= translated [find_naive]) and [uf_union]/[uf_unions] (= translated [union])
    used by the C01/C04 proofs. Pure union-find reasoning; everything is derived from the lemmas
    of UF/Seq.v about the translated code. *)
From Coq Require Import List Arith Lia PeanoNat Bool ZArith.
Import ListNotations.
Require Import Verif.Base.Res Verif.gen.UFSeq Verif.UF.Seq Verif.Egg.Model.

(* ------------------------------------------------------------------ *)
(** * rep *)

Lemma Inv_nil : Inv [].
Proof. intro i. unfold par. destruct i; simpl; lia. Qed.

Lemma rep_root p i : Inv p -> root_of p i (rep p i).
Proof.
  intros HI. unfold rep.
  destruct (find_naive_ok p i (length p) HI (Nat.le_refl _)) as (r & E & Hr).
  rewrite E. exact Hr.
Qed.

Lemma rep_unique p i r : Inv p -> root_of p i r -> rep p i = r.
Proof. intros HI H. eapply root_unique; [apply rep_root; auto|exact H]. Qed.

Lemma rep_par p i : Inv p -> par p (rep p i) = rep p i.
Proof. intros HI. eapply root_is_root. apply rep_root; auto. Qed.

Lemma rep_le p i : Inv p -> rep p i <= i.
Proof. intros HI. eapply root_le; eauto. apply rep_root; auto. Qed.

Lemma rep_fix p i : Inv p -> par p i = i -> rep p i = i.
Proof. intros HI H. apply rep_unique; auto. constructor; auto. Qed.

Lemma rep_fix_inv p i : Inv p -> rep p i = i -> par p i = i.
Proof. intros HI H. pose proof (rep_par p i HI) as E. rewrite H in E. exact E. Qed.

Lemma rep_idem p i : Inv p -> rep p (rep p i) = rep p i.
Proof. intros HI. apply rep_fix; auto. apply rep_par; auto. Qed.

Lemma rep_ext p q i : Inv p -> (forall x, par p x = par q x) -> rep q i = rep p i.
Proof.
  intros HI E. assert (HIq : Inv q) by (eapply Inv_ext; eauto).
  apply rep_unique; auto. eapply root_ext; [exact E|]. apply rep_root; auto.
Qed.

Lemma par_app_self p x : par (p ++ [length p]) x = par p x.
Proof.
  unfold par. destruct (lt_eq_lt_dec x (length p)) as [[H|H]|H].
  - rewrite app_nth1 by auto. reflexivity.
  - subst x. rewrite app_nth2 by lia. rewrite Nat.sub_diag. cbn [nth].
    rewrite nth_overflow by lia. reflexivity.
  - rewrite (nth_overflow p) by lia. apply nth_overflow. rewrite app_length. simpl. lia.
Qed.

Lemma Inv_app_self p : Inv p -> Inv (p ++ [length p]).
Proof. apply Inv_ext. intro x. symmetry. apply par_app_self. Qed.

Lemma rep_app_self p i : Inv p -> rep (p ++ [length p]) i = rep p i.
Proof. intros HI. apply rep_ext; auto. intro x. symmetry. apply par_app_self. Qed.

(* ------------------------------------------------------------------ *)
(** * one union *)

Definition glue (ra rb r : nat) : nat :=
  if (negb (Nat.eqb ra rb) && Nat.eqb r (Nat.max ra rb))%bool then Nat.min ra rb else r.

Lemma uf_union_spec p a b : Inv p -> a < length p -> b < length p ->
  exists p', uf_union p a b = Ok p' /\ Inv p' /\ length p' = length p /\
    forall x, rep p' x = glue (rep p a) (rep p b) (rep p x).
Proof.
  intros HI Ha Hb. unfold uf_union.
  destruct (union_ok p a b _ HI (Nat.le_refl _)) as (p' & ra & rb & Hra & Hrb & Hu & HI' & Hl & Hmap).
  rewrite Hu. cbn [bind]. exists p'. split; [reflexivity|]. split; [auto|]. split; [lia|].
  intros x. rewrite (rep_unique p a ra), (rep_unique p b rb) by auto.
  apply rep_unique; auto. apply Hmap. apply rep_root; auto.
Qed.

Lemma glue_merges ra rb : glue ra rb ra = glue ra rb rb.
Proof.
  unfold glue. destruct (Nat.eqb_spec ra rb); cbn [negb andb]; [auto|].
  destruct (Nat.eqb_spec ra (Nat.max ra rb)), (Nat.eqb_spec rb (Nat.max ra rb)); lia.
Qed.

(** [p'] identifies at least what [p] identifies, and [rep p] is compatible with it *)
Definition coarse (p p' : list nat) : Prop := forall i, rep p' (rep p i) = rep p' i.

Lemma coarse_refl p : Inv p -> coarse p p.
Proof. intros HI i. apply rep_idem; auto. Qed.

Lemma coarse_trans p p' p'' : coarse p p' -> coarse p' p'' -> coarse p p''.
Proof.
  intros H1 H2 i. rewrite <- (H2 (rep p i)). rewrite H1. apply H2.
Qed.

Lemma coarse_eq p p' a b : coarse p p' -> rep p a = rep p b -> rep p' a = rep p' b.
Proof. intros H E. rewrite <- (H a), <- (H b), E. reflexivity. Qed.

Lemma glue_coarse p p' ra rb : Inv p ->
  (forall x, rep p' x = glue ra rb (rep p x)) -> coarse p p'.
Proof. intros HI H i. rewrite !H. rewrite rep_idem; auto. Qed.

(** soundness transfer for an arbitrary equivalence [E] on ids *)
Lemma glue_sound (E : nat -> nat -> Prop) p p' a b :
  (forall x y, E x y -> E y x) -> (forall x y z, E x y -> E y z -> E x z) ->
  Inv p -> a < length p -> b < length p ->
  (forall x, rep p' x = glue (rep p a) (rep p b) (rep p x)) ->
  E a b -> (forall i, i < length p -> E i (rep p i)) ->
  forall i, i < length p -> E i (rep p' i).
Proof.
  intros Es Et HI Ha Hb Hg Eab Hs i Hi. rewrite Hg. unfold glue.
  destruct (Nat.eqb_spec (rep p a) (rep p b)) as [|N]; cbn [negb andb]; [apply Hs; auto|].
  destruct (Nat.eqb_spec (rep p i) (Nat.max (rep p a) (rep p b))) as [Em|]; [|apply Hs; auto].
  assert (Erarb : E (rep p a) (rep p b)).
  { eapply Et; [apply Es, Hs; auto|]. eapply Et; [exact Eab|]. apply Hs; auto. }
  pose proof (Hs i Hi) as Ei. rewrite Em in Ei.
  destruct (Nat.max_spec (rep p a) (rep p b)) as [[Hlt Hmx]|[Hlt Hmx]];
  destruct (Nat.min_spec (rep p a) (rep p b)) as [[Hlt' Hmn]|[Hlt' Hmn]]; try lia;
  rewrite Hmx in Ei; rewrite Hmn.
  - eapply Et; [exact Ei|]. apply Es. exact Erarb.
  - eapply Et; [exact Ei|]. exact Erarb.
Qed.

(* ------------------------------------------------------------------ *)
(** * counting roots *)

Definition isroot (p : list nat) (i : nat) : bool := Nat.eqb (par p i) i.
Definition nroots (p : list nat) : nat := length (filter (isroot p) (seq 0 (length p))).

Lemma filter_le {A} (f g : A -> bool) l :
  (forall x, In x l -> f x = true -> g x = true) -> length (filter f l) <= length (filter g l).
Proof.
  induction l as [|y tl IH]; intros H; cbn [filter]; [lia|].
  assert (IH' : length (filter f tl) <= length (filter g tl)) by (apply IH; intros; apply H; simpl; auto).
  destruct (f y) eqn:Ef.
  - rewrite (H y) by (simpl; auto). simpl. lia.
  - destruct (g y); simpl; lia.
Qed.

Lemma filter_lt {A} (f g : A -> bool) l x :
  (forall y, In y l -> f y = true -> g y = true) -> In x l -> f x = false -> g x = true ->
  length (filter f l) < length (filter g l).
Proof.
  induction l as [|y tl IH]; intros H Hin Hf Hg; [destruct Hin|].
  cbn [filter].
  assert (Hle : length (filter f tl) <= length (filter g tl))
    by (apply filter_le; intros; apply H; simpl; auto).
  destruct Hin as [->|Hin].
  - rewrite Hf, Hg. simpl. lia.
  - assert (IH' : length (filter f tl) < length (filter g tl))
      by (apply IH; auto; intros; apply H; simpl; auto).
    destruct (f y) eqn:Ef.
    + rewrite (H y) by (simpl; auto). simpl. lia.
    + destruct (g y); simpl; lia.
Qed.

Lemma filter_len_le {A} (f : A -> bool) l : length (filter f l) <= length l.
Proof. induction l as [|y tl IH]; cbn [filter]; [lia|]. destruct (f y); simpl; lia. Qed.

Lemma nroots_le_len p : nroots p <= length p.
Proof.
  unfold nroots. rewrite <- (seq_length (length p) 0) at 2. apply filter_len_le.
Qed.

Lemma glue_roots p p' a b : Inv p -> Inv p' ->
  (forall x, rep p' x = glue (rep p a) (rep p b) (rep p x)) ->
  forall x, isroot p' x = true -> isroot p x = true.
Proof.
  intros HI HI' Hg x Hx. unfold isroot in *. apply Nat.eqb_eq in Hx. apply Nat.eqb_eq.
  apply rep_fix in Hx; auto. rewrite Hg in Hx. unfold glue in Hx.
  destruct (Nat.eqb_spec (rep p a) (rep p b)) as [|N]; cbn [negb andb] in Hx.
  - apply rep_fix_inv; auto.
  - destruct (Nat.eqb_spec (rep p x) (Nat.max (rep p a) (rep p b))).
    + rewrite <- Hx. destruct (Nat.min_spec (rep p a) (rep p b)) as [[_ ->]|[_ ->]]; apply rep_par; auto.
    + apply rep_fix_inv; auto.
Qed.

Lemma glue_roots_strict p p' a b : Inv p -> Inv p' -> a < length p -> b < length p ->
  (forall x, rep p' x = glue (rep p a) (rep p b) (rep p x)) ->
  rep p a <> rep p b ->
  exists x0, x0 < length p /\ isroot p x0 = true /\ isroot p' x0 = false.
Proof.
  intros HI HI' Ha Hb Hg N.
  pose proof (rep_le p a HI). pose proof (rep_le p b HI).
  exists (Nat.max (rep p a) (rep p b)). split; [lia|]. unfold isroot. split.
  - apply Nat.eqb_eq. destruct (Nat.max_spec (rep p a) (rep p b)) as [[_ ->]|[_ ->]]; apply rep_par; auto.
  - apply Nat.eqb_neq. intros E. apply rep_fix in E; auto. rewrite Hg in E.
    assert (Em : rep p (Nat.max (rep p a) (rep p b)) = Nat.max (rep p a) (rep p b)).
    { destruct (Nat.max_spec (rep p a) (rep p b)) as [[_ ->]|[_ ->]]; apply rep_idem; auto. }
    rewrite Em in E. unfold glue in E.
    destruct (Nat.eqb_spec (rep p a) (rep p b)); [contradiction|]. cbn [negb andb] in E.
    rewrite Nat.eqb_refl in E. lia.
Qed.

Lemma nroots_mono p p' : length p' = length p ->
  (forall x, isroot p' x = true -> isroot p x = true) -> nroots p' <= nroots p.
Proof. intros Hl H. unfold nroots. rewrite Hl. apply filter_le. intros; auto. Qed.

Lemma nroots_strict p p' x0 : length p' = length p ->
  (forall x, isroot p' x = true -> isroot p x = true) ->
  x0 < length p -> isroot p x0 = true -> isroot p' x0 = false -> nroots p' < nroots p.
Proof.
  intros Hl H Hx Hr Hr'. unfold nroots. rewrite Hl. apply (filter_lt _ _ _ x0); auto.
  apply in_seq. lia.
Qed.

(* ------------------------------------------------------------------ *)
(** * a list of unions *)

Definition pair_lt (n : nat) (ab : nat * nat) : Prop := fst ab < n /\ snd ab < n.

Lemma uf_unions_spec : forall us p, Inv p -> Forall (pair_lt (length p)) us ->
  exists p', uf_unions p us = Ok p' /\ Inv p' /\ length p' = length p /\ coarse p p'
    /\ Forall (fun ab => rep p' (fst ab) = rep p' (snd ab)) us
    /\ nroots p' <= nroots p
    /\ (forall a b tl, us = (a, b) :: tl -> rep p a <> rep p b -> nroots p' < nroots p).
Proof.
  induction us as [|[a b] tl IH]; intros p HI Hlt.
  - exists p. cbn [uf_unions]. repeat split; auto.
    + apply coarse_refl; auto.
    + intros a b tl E. discriminate.
  - inversion Hlt as [|x l [Ha Hb] Htl]; subst. cbn [fst snd] in Ha, Hb.
    destruct (uf_union_spec p a b HI Ha Hb) as (p1 & Hu & HI1 & Hl1 & Hg).
    destruct (IH p1 HI1) as (p' & Hus & HI' & Hl' & Hc & Hm & Hn & _).
    { rewrite Hl1. exact Htl. }
    exists p'. cbn [uf_unions]. rewrite Hu. cbn [bind].
    assert (Hc1 : coarse p p1) by (eapply glue_coarse; eauto).
    assert (Hr1 : forall x, isroot p1 x = true -> isroot p x = true) by (eapply glue_roots; eauto).
    assert (Hn1 : nroots p1 <= nroots p) by (apply nroots_mono; auto).
    split; [exact Hus|]. split; [auto|]. split; [lia|].
    split; [eapply coarse_trans; eauto|].
    split; [|split; [lia|]].
    + constructor; auto. cbn [fst snd]. apply (coarse_eq p1 p'); auto.
      rewrite !Hg. apply glue_merges.
    + intros a0 b0 tl0 E N. injection E as <- <- <-.
      destruct (glue_roots_strict p p1 a b HI HI1 Ha Hb Hg N) as (x0 & Hx0 & Hr & Hr').
      pose proof (nroots_strict p p1 x0 Hl1 Hr1 Hx0 Hr Hr'). lia.
Qed.

Lemma uf_unions_sound (E : nat -> nat -> Prop) :
  (forall x y, E x y -> E y x) -> (forall x y z, E x y -> E y z -> E x z) ->
  forall us p p', Inv p -> Forall (pair_lt (length p)) us ->
  Forall (fun ab => E (fst ab) (snd ab)) us ->
  uf_unions p us = Ok p' ->
  (forall i, i < length p -> E i (rep p i)) ->
  forall i, i < length p -> E i (rep p' i).
Proof.
  intros Es Et. induction us as [|[a b] tl IH]; intros p p' HI Hlt HE Hu Hs.
  - cbn [uf_unions] in Hu. injection Hu as <-. exact Hs.
  - inversion Hlt as [|x l [Ha Hb] Htl]; subst. cbn [fst snd] in Ha, Hb.
    inversion HE as [|x l Eab HEtl]; subst. cbn [fst snd] in Eab.
    destruct (uf_union_spec p a b HI Ha Hb) as (p1 & Hu1 & HI1 & Hl1 & Hg).
    cbn [uf_unions] in Hu. rewrite Hu1 in Hu. cbn [bind] in Hu.
    rewrite <- Hl1. apply (IH p1 p'); auto.
    + rewrite Hl1. exact Htl.
    + rewrite Hl1. apply (glue_sound E p p1 a b); auto.
Qed.
