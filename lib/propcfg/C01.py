"""C01 configuration for bin/check."""

CFG = {'assumptions': ['ids unbounded nat',
                 "the model's rule interpreter instantiates actions through witness terms so every model run "
                 'is a term-level history covered by the theorems',
                 'probe terms bounded to depth 3 / 36 terms in the observation only'],
 'corr_is_violation': True,
 'harness': [{'bin': 'h_egg', 'extra': ['--prop', 'C01'], 'name': 'h_egg', 'prefix': 'cases_egg'}],
 'link_only': 'still link-only: set on constructor tables, subsume, function applications nested in action patterns, containers; rule matching, functions with lattice merges and relations inside the same sessions '
              '(executable model compared with the engine after every command); extraction landing in the '
              'same class; (check ..) as the observer',
 'model_targets': ['Egg/Rules.vo'],
 'proof_targets': ['Props/C01.vo'],
 'theorem_backed': 'for every term-level command history over constructor tables: run terminates without '
                   'panic (rebuild fuel suffices), soundness (no invented equality), completeness (no missed '
                   'equality) w.r.t. the congruence closure of the asserted unions, UnionId merge agrees '
                   "with the union-find's choice; for every program of the rule interpreter in the constructor fragment (prog_ctor_okb): every state reached is the result of a term-level history (c01_rules_history/stepwise), hence c01_rules_sound/complete/iff; MIXED signatures (any sg; fragment prog_mixed_okb: expr/union over constructor patterns, set/delete on non-constructor tables, panic, unrestricted rule bodies): c01_mixed_rebuild_proj, c01_mixed_rules_history/stepwise/sound/complete/iff on constructor terms; rebuild-loop control regenerated from the source (gen/ParFacts.v): c01_source_loop_exit, c01_rebuild_fix, c01_source_run_ok/sound/complete, c01_capped_loop_refuted, c01_source_loop_order, c01_source_break_iff_nothing_changed, c01_source_rebuild_guards; c01_rebuild_pass_bound",
 'tier_a': ['UFSeq', 'MergeArms', 'BridgeFns', 'ParFacts.rebuild_loop_exit_condition', 'ParFacts.rebuild_loop_order', 'ParFacts.rebuild_break_flags', 'ParFacts.rebuild_guard_run_rules', 'ParFacts.rebuild_guard_flush'],
 'trusted': ['translator /verif/translator: gen/UFSeq.v (union-find), gen/MergeArms.v (UnionId=min, Old, '
             'New), gen/BridgeFns.v (combine_subsumed) are regenerated from the source on every run and used '
             'by Egg/Model.v',
             'hand-written model coq/Egg/Model.v + Egg/Rules.v (naive matching, term-level commands) tied to '
             'the engine by the correspondence check h_egg (observations after every command: class vector '
             'of probe terms up to depth 3, table sizes, subsumed counts, int-valued probes)']}
