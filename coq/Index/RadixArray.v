(** The array level of the radix sort: the counting / prefix-sum / scatter pass of the source
    ([array_pass]) computes exactly the stable distribution [bucket_pass], never indexes out of
    bounds and never overflows a [u32] counter (for blocks of at most [u32::MAX] pairs); hence
    the whole routine ([radix_sort], with the two ping-pong buffers) returns the block sorted by
    (value, row id), whatever the scratch buffer held. *)
From Coq Require Import List Arith NArith Bool Lia Sorted Permutation.
Import ListNotations.
Require Import Verif.Base.Res Verif.Index.Prelude Verif.gen.PureFns Verif.Index.RadixModel
  Verif.Index.SortFacts Verif.Index.RadixProofs.
Local Open Scope N_scope.

(* ---- checked array accesses ------------------------------------------------------------------ *)

Lemma aget_ok {A} (l : list A) i d : (N.to_nat i < length l)%nat -> aget l i = Ok (nth (N.to_nat i) l d).
Proof.
  intros H. unfold aget. destruct (nth_error l (N.to_nat i)) eqn:E.
  - f_equal. symmetry. apply nth_error_nth. exact E.
  - apply nth_error_None in E. lia.
Qed.

Lemma set_nth_opt_ok {A} (l : list A) : forall i v, (i < length l)%nat -> set_nth_opt l i v = Some (set_nth l i v).
Proof.
  induction l as [|x l IH]; intros i v H; simpl in H; [lia|].
  destruct i; simpl; auto. rewrite IH by lia. reflexivity.
Qed.

Lemma aset_ok {A} (l : list A) i v : (N.to_nat i < length l)%nat -> aset l i v = Ok (set_nth l (N.to_nat i) v).
Proof. intros H. unfold aset. rewrite set_nth_opt_ok by exact H. reflexivity. Qed.

Lemma incr_u32_ok c : c + 1 <= u32_max -> incr_u32 c = Ok (c + 1).
Proof. intros H. unfold incr_u32. apply N.leb_le in H. rewrite H. reflexivity. Qed.

(* ---- list helpers ---------------------------------------------------------------------------------- *)

Definition sumN (c : list N) : N := fold_right N.add 0 c.

Lemma firstn_plus {A} (l : list A) : forall a b, firstn (a + b) l = firstn a l ++ firstn b (skipn a l).
Proof.
  induction l as [|x l IH]; intros a b.
  - rewrite !firstn_nil, skipn_nil, firstn_nil. reflexivity.
  - destruct a; simpl; auto. rewrite IH. reflexivity.
Qed.

Lemma firstn_S_nth {A} (l : list A) d : forall i, (i < length l)%nat -> firstn (S i) l = firstn i l ++ [nth i l d].
Proof.
  induction l as [|x l IH]; intros i H; simpl in H; [lia|].
  destruct i; simpl; auto. f_equal. apply IH. lia.
Qed.

Lemma sumN_app a b : sumN (a ++ b) = sumN a + sumN b.
Proof. induction a; simpl; lia. Qed.

Lemma nth_skipn_plus {A} (l : list A) d : forall n i, nth i (skipn n l) d = nth (n + i) l d.
Proof.
  induction l as [|x l IH]; intros n i; destruct n; simpl; auto. destruct i; auto.
Qed.

Lemma nth_firstn_low {A} (l : list A) d : forall n i, (i < n)%nat -> nth i (firstn n l) d = nth i l d.
Proof.
  induction l as [|x l IH]; intros n i H; destruct n; simpl; auto; try lia.
  destruct i; simpl; auto. apply IH. lia.
Qed.

(** a destination that holds, bucket after bucket, the elements of [f 0], [f 1], ... is their
    concatenation *)
Lemma assemble {A} (d0 : A) (f : nat -> list A) (dst : list A) : forall m,
  (forall i, (i < m)%nat -> forall j, (j < length (f i))%nat ->
     nth (length (concat (map f (seq 0 i))) + j) dst d0 = nth j (f i) d0) ->
  (length (concat (map f (seq 0 m))) <= length dst)%nat ->
  firstn (length (concat (map f (seq 0 m)))) dst = concat (map f (seq 0 m)).
Proof.
  induction m as [|m IH]; intros H Hl; [reflexivity|].
  rewrite seq_S, map_app, concat_app in *. simpl in *. rewrite app_nil_r in *.
  rewrite app_length in *. rewrite firstn_plus. f_equal.
  - apply IH; [|lia]. intros i Hi j Hj. apply H; auto.
  - apply (nth_ext _ _ d0 d0).
    + rewrite firstn_length, skipn_length. lia.
    + intros j Hj. rewrite firstn_length, skipn_length in Hj.
      rewrite nth_firstn_low by lia. rewrite nth_skipn_plus. apply H; lia.
Qed.

(* ---- one pass ------------------------------------------------------------------------------------------ *)

Definition vr0 : vr := (0, 0).

Section Pass.
Variable k : N.

Definition bucket (l : list vr) (i : nat) : list vr := filter (fun p => digit k (fst p) =? N.of_nat i) l.
Definition cn (l : list vr) (i : nat) : nat := length (bucket l i).
(** start of bucket [i] in the destination *)
Definition stn (l : list vr) (i : nat) : nat := length (concat (map (bucket l) (seq 0 i))).

Lemma bucket_app l1 l2 i : bucket (l1 ++ l2) i = bucket l1 i ++ bucket l2 i.
Proof. apply filter_app. Qed.

Lemma cn_app l1 l2 i : cn (l1 ++ l2) i = (cn l1 i + cn l2 i)%nat.
Proof. unfold cn. rewrite bucket_app, app_length. reflexivity. Qed.

Lemma cn_cons p l i : cn (p :: l) i = ((if (digit k (fst p) =? N.of_nat i)%N then 1 else 0) + cn l i)%nat.
Proof. unfold cn, bucket. simpl. destruct (digit k (fst p) =? N.of_nat i); reflexivity. Qed.

Lemma stn_S l i : stn l (S i) = (stn l i + cn l i)%nat.
Proof. unfold stn, cn. rewrite seq_S, map_app, concat_app, app_length. simpl. rewrite app_nil_r. reflexivity. Qed.

Lemma stn_mono l i j : (i <= j)%nat -> (stn l i <= stn l j)%nat.
Proof. induction 1; auto. rewrite stn_S. lia. Qed.

Lemma buckets_concat l : concat (map (bucket l) (seq 0 256)) = bucket_pass k l.
Proof.
  rewrite bucket_pass_eq. unfold digits256. rewrite flat_map_concat_map, map_map. reflexivity.
Qed.

Lemma stn_256 l : stn l 256 = length l.
Proof.
  unfold stn. rewrite buckets_concat. symmetry. apply Permutation_length, bucket_pass_perm.
Qed.

Lemma stn_bound l i : (i < 256)%nat -> (stn l i + cn l i <= length l)%nat.
Proof. intros H. rewrite <- stn_S, <- (stn_256 l). apply stn_mono. lia. Qed.

Lemma digit_idx (p : vr) : (N.to_nat (digit k (fst p)) < 256)%nat.
Proof. pose proof (digit_lt k (fst p)). lia. Qed.

(** counting *)
Lemma count_digits_spec src : forall count,
  length count = 256%nat ->
  (forall i, (i < 256)%nat -> nth i count 0 + N.of_nat (length src) <= u32_max) ->
  exists count', count_digits k src count = Ok count' /\ length count' = 256%nat /\
    forall i, (i < 256)%nat -> nth i count' 0 = nth i count 0 + N.of_nat (cn src i).
Proof.
  induction src as [|p src IH]; intros count Hl Hb; cbn [count_digits].
  - exists count. repeat split; auto. intros i Hi. unfold cn; simpl. lia.
  - pose proof (digit_idx p) as Hd. set (b := digit k (fst p)) in *.
    rewrite (aget_ok count b 0) by lia. cbn [bind].
    assert (Hbb := Hb (N.to_nat b) Hd). simpl length in Hbb.
    rewrite incr_u32_ok by lia. cbn [bind].
    rewrite aset_ok by lia. cbn [bind].
    destruct (IH (set_nth count (N.to_nat b) (nth (N.to_nat b) count 0 + 1))) as (c' & C1 & C2 & C3).
    + rewrite length_set_nth. exact Hl.
    + intros i Hi. rewrite nth_set_nth by lia. specialize (Hb i Hi). simpl length in Hb.
      destruct (Nat.eqb_spec i (N.to_nat b)); [subst i|]; lia.
    + exists c'. repeat split; auto. intros i Hi. rewrite (C3 i Hi), nth_set_nth by lia.
      rewrite cn_cons. fold b.
      destruct (Nat.eqb_spec i (N.to_nat b)) as [->|Hne].
      * rewrite N2Nat.id, N.eqb_refl. lia.
      * destruct (N.eqb_spec b (N.of_nat i)); [subst b; lia | lia].
Qed.

(** exclusive prefix sums *)
Lemma excl_prefix_spec c : forall p, p + sumN c <= u32_max ->
  exists s, excl_prefix p c = Ok s /\ length s = length c /\
    forall i, (i < length c)%nat -> nth i s 0 = p + sumN (firstn i c).
Proof.
  induction c as [|x c IH]; intros p H; cbn [excl_prefix].
  - exists []. repeat split; auto. simpl. intros; lia.
  - simpl in H. assert (E : (p + x <=? u32_max) = true) by (apply N.leb_le; lia). rewrite E. cbn [bind].
    destruct (IH (p + x)) as (s & S1 & S2 & S3); [lia|].
    rewrite S1. cbn [bind]. exists (p :: s). repeat split; [simpl; lia|].
    intros i Hi. destruct i; simpl; [lia|]. rewrite S3 by (simpl in Hi; lia). lia.
Qed.

Lemma sum_firstn_counts l counts : length counts = 256%nat ->
  (forall i, (i < 256)%nat -> nth i counts 0 = N.of_nat (cn l i)) ->
  forall i, (i <= 256)%nat -> sumN (firstn i counts) = N.of_nat (stn l i).
Proof.
  intros Hl Hc. induction i as [|i IH]; intros Hi; [reflexivity|].
  rewrite (firstn_S_nth counts 0) by lia. rewrite sumN_app, IH by lia. simpl.
  rewrite Hc by lia. rewrite stn_S. lia.
Qed.

(** the scatter *)
Lemma scatter_inv all : N.of_nat (length all) <= u32_max ->
  forall (rest done : list vr) (pos : list N) (dst : list vr), all = done ++ rest ->
    length dst = length all -> length pos = 256%nat ->
    (forall i, (i < 256)%nat -> nth i pos 0 = N.of_nat (stn all i + cn done i)) ->
    (forall i, (i < 256)%nat -> forall j, (j < cn done i)%nat ->
       nth (stn all i + j) dst vr0 = nth j (bucket done i) vr0) ->
    exists dst', scatter k rest pos dst = Ok dst' /\ length dst' = length all /\
      (forall i, (i < 256)%nat -> forall j, (j < cn all i)%nat ->
         nth (stn all i + j) dst' vr0 = nth j (bucket all i) vr0).
Proof.
  intros Hn. induction rest as [|p rest IH]; intros done pos dst Hall Hld Hlp I1 I3; cbn [scatter].
  - rewrite app_nil_r in Hall. subst done. exists dst. auto.
  - pose proof (digit_idx p) as Hd. remember (digit k (fst p)) as b eqn:Eb.
    remember (N.to_nat b) as ib eqn:Eib.
    assert (Hbi : b = N.of_nat ib) by lia.
    assert (Hcn : (cn done ib < cn all ib)%nat).
    { rewrite Hall, cn_app, cn_cons. rewrite <- Eb, Hbi, N.eqb_refl. lia. }
    pose proof (stn_bound all ib Hd) as Hsb.
    rewrite (aget_ok pos b 0) by lia. rewrite <- Eib. rewrite (I1 ib Hd). cbn [bind].
    rewrite aset_ok by lia. cbn [bind]. rewrite incr_u32_ok by lia. cbn [bind].
    rewrite aset_ok by lia. rewrite <- Eib. cbn [bind].
    rewrite Nat2N.id.
    apply (IH (done ++ [p])).
    + rewrite <- app_assoc. exact Hall.
    + rewrite length_set_nth. exact Hld.
    + rewrite length_set_nth. exact Hlp.
    + intros i Hi. rewrite nth_set_nth by lia. rewrite cn_app, cn_cons. rewrite <- Eb.
      destruct (Nat.eqb_spec i ib) as [->|Hne].
      * rewrite Hbi, N.eqb_refl. unfold cn at 3; simpl. lia.
      * rewrite (I1 i Hi). destruct (N.eqb_spec b (N.of_nat i)) as [Hb|Hb]; [exfalso; apply Hne; lia|].
        unfold cn at 3; simpl. lia.
    + intros i Hi j Hj. rewrite nth_set_nth by lia. rewrite bucket_app.
      rewrite cn_app, cn_cons in Hj. rewrite <- Eb in Hj. change (cn [] i) with 0%nat in Hj.
      destruct (Nat.eqb_spec i ib) as [->|Hne].
      * rewrite Hbi, N.eqb_refl in Hj.
        destruct (Nat.eqb_spec (stn all ib + j) (stn all ib + cn done ib)) as [He|He].
        -- assert (j = cn done ib) by lia. subst j. unfold cn. rewrite app_nth2 by lia.
           rewrite Nat.sub_diag. unfold bucket. simpl. rewrite <- Eb, Hbi, N.eqb_refl. reflexivity.
        -- rewrite app_nth1 by (fold (cn done ib); lia). apply I3; auto. lia.
      * destruct (N.eqb_spec b (N.of_nat i)) as [Hb|Hb]; [exfalso; apply Hne; lia|].
        assert (Hj' : (j < cn done i)%nat) by lia.
        assert ((cn done i <= cn all i)%nat) by (rewrite Hall, cn_app; lia).
        destruct (Nat.eqb_spec (stn all i + j) (stn all ib + cn done ib)) as [He|He].
        -- exfalso. destruct (Nat.lt_ge_cases i ib) as [Hlt|Hge].
           ++ pose proof (stn_mono all (S i) ib Hlt). rewrite stn_S in *. lia.
           ++ assert (Hlt : (S ib <= i)%nat) by lia. pose proof (stn_mono all (S ib) i Hlt). rewrite stn_S in *. lia.
        -- rewrite app_nth1 by (fold (cn done i); lia). apply I3; auto.
Qed.

(** THE pass lemma *)
Theorem array_pass_eq_bucket_pass (src dst : list vr) :
  N.of_nat (length src) <= u32_max -> length dst = length src ->
  array_pass k src dst = Ok (bucket_pass k src).
Proof.
  intros Hn Hl. unfold array_pass.
  destruct (count_digits_spec src (repeat 0 256)) as (counts & C1 & C2 & C3).
  { apply repeat_length. }
  { intros i Hi. rewrite nth_repeat. lia. }
  rewrite C1. cbn [bind].
  assert (Hc : forall i, (i < 256)%nat -> nth i counts 0 = N.of_nat (cn src i)).
  { intros i Hi. rewrite (C3 i Hi), nth_repeat. lia. }
  pose proof (sum_firstn_counts src counts C2 Hc) as Hs.
  destruct (excl_prefix_spec counts 0) as (starts & S1 & S2 & S3).
  { rewrite <- (firstn_all counts), C2. rewrite Hs by lia. rewrite stn_256. lia. }
  rewrite S1. cbn [bind].
  destruct (scatter_inv src Hn src [] starts dst eq_refl Hl) as (dst' & D1 & D2 & D3).
  { lia. }
  { intros i Hi. rewrite S3 by lia. rewrite Hs by lia. unfold cn at 1; simpl. lia. }
  { intros i Hi j Hj. unfold cn in Hj; simpl in Hj. lia. }
  rewrite D1. f_equal.
  rewrite <- buckets_concat.
  pose proof (assemble vr0 (bucket src) dst' 256 D3) as HA.
  fold (stn src 256) in HA. rewrite stn_256 in HA. rewrite <- D2 in HA. rewrite firstn_all in HA.
  apply HA. lia.
Qed.

End Pass.

(* ---- the pass loop with the two buffers -------------------------------------------------------------- *)

Lemma bucket_pass_length k l : length (bucket_pass k l) = length l.
Proof. symmetry. apply Permutation_length, bucket_pass_perm. Qed.

Lemma array_passes_eq p : forall k src dst,
  N.of_nat (length src) <= u32_max -> length dst = length src -> (k + N.of_nat p) * 8 <= 32 ->
  array_passes p k src dst = Ok (bucket_passes p k src).
Proof.
  induction p as [|p IH]; intros k src dst Hn Hl Hk; cbn [array_passes bucket_passes]; auto.
  assert (E : (k * 8 <? 32) = true) by (apply N.ltb_lt; lia). rewrite E.
  rewrite array_pass_eq_bucket_pass by auto. cbn [bind].
  apply IH; rewrite ?bucket_pass_length; auto; lia.
Qed.

(** the whole routine computes the bucket-level function, whatever the scratch buffer holds *)
Theorem radix_sort_eq_buckets data scratch :
  N.of_nat (length data) <= u32_max -> (length data <= length scratch)%nat ->
  radix_sort data scratch = Ok (radix_sort_buckets data).
Proof.
  intros Hn Hs. unfold radix_sort, radix_sort_with, radix_sort_buckets, radix_sort_buckets_with.
  destruct (ulen_vr data <? 64); auto.
  destruct (vals_sorted_from 0 data); auto.
  assert (E : (ulen_vr data <=? ulen_vr scratch) = true) by (apply N.leb_le; unfold ulen_vr; lia).
  rewrite E. apply array_passes_eq; auto.
  - rewrite firstn_length. lia.
  - rewrite N2Nat.id. pose proof (radix_passes_for_le4 (max_val data)). lia.
Qed.

(** THE theorem about [radix_sort_slice_by_value] *)
Theorem radix_sort_correct data scratch :
  Forall (fun q => fst q < 2 ^ 32) data -> rowids_ascending data ->
  N.of_nat (length data) <= u32_max -> (length data <= length scratch)%nat ->
  exists out, radix_sort data scratch = Ok out /\ StronglySorted vr_le out /\ Permutation data out.
Proof.
  intros HF Hr Hn Hs. exists (radix_sort_buckets data). split.
  - apply radix_sort_eq_buckets; auto.
  - apply radix_sort_buckets_correct; auto.
Qed.

(** the scratch buffer must be at least as long as the block (the source's [&mut scratch[..n]]) *)
Lemma radix_sort_short_scratch_panics data scratch :
  (64 <= length data)%nat -> vals_sorted_from 0 data = false -> (length scratch < length data)%nat ->
  radix_sort data scratch = Panic.
Proof.
  intros H1 H2 H3. unfold radix_sort, radix_sort_with.
  assert (E1 : (ulen_vr data <? 64) = false) by (apply N.ltb_ge; unfold ulen_vr; lia).
  assert (E2 : (ulen_vr data <=? ulen_vr scratch) = false) by (apply N.leb_gt; unfold ulen_vr; lia).
  rewrite E1, H2, E2. reflexivity.
Qed.
