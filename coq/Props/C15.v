(** C15 — Printing and re-parsing a program is the identity, at every stage.
    This file only pins statements and prints their assumptions.

    Text = list of Unicode scalar values.  [fmt_f64] / [parse_f64] stand for Rust's
    `f64::to_string` / `str::parse::<f64>`; the three hypotheses about them are tested on the real
    functions by harness/src/bin/h_syntax (float_hypothesis) and named in the trusted base. *)
From Coq Require Import List NArith ZArith Bool String.
Import ListNotations.
Require Import Verif.Base.Cases Verif.Syntax.Sexp Verif.Syntax.SexpProofs Verif.Syntax.Ast Verif.Syntax.AstProofs.
Local Open Scope N_scope.

(** the escape lemma at the heart: lexing the escaped form of ANY sequence of characters
    (quotes, backslashes, newlines, any code point) gives it back *)
Theorem c15_string_escape_roundtrip : forall (s rest : str),
  lex_string false (escape s ++ c_quote :: rest) = POk (s, rest).
Proof. exact lex_string_escape. Qed.
Print Assumptions c15_string_escape_roundtrip.

(** i64: every value in range prints to a text that `parse::<i64>` maps back to it *)
Theorem c15_int_roundtrip : forall z, in_i64 z = true -> parse_i64 (print_int z) = Some z.
Proof. exact parse_print_int. Qed.
Print Assumptions c15_int_roundtrip.

(** every literal the lexer can produce (Int in the i64 range, Bool, String of any characters,
    NaN, +-inf, finite floats relative to the oracle) prints to a text that reads back as itself *)
Theorem c15_lit_roundtrip :
  forall (fmt_f64 : Z -> str) (parse_f64 : str -> option fl),
    (forall x, finite_bits x -> numchars (fmt_f64 x)) ->
    (forall x, finite_bits x -> fmt_f64 x <> []) ->
    (forall x, finite_bits x -> parse_f64 (print_float fmt_f64 (FFin x)) = Some (FFin x)) ->
    forall l, wf_lit l -> read_sexp parse_f64 (print_lit fmt_f64 l) = POk (SLit l, []).
Proof. exact lit_roundtrip. Qed.
Print Assumptions c15_lit_roundtrip.

(** ALL s-expressions: a well-formed tree prints to a text that reads back as the same tree *)
Theorem c15_sexp_roundtrip :
  forall (fmt_f64 : Z -> str) (parse_f64 : str -> option fl),
    (forall x, finite_bits x -> numchars (fmt_f64 x)) ->
    (forall x, finite_bits x -> fmt_f64 x <> []) ->
    (forall x, finite_bits x -> parse_f64 (print_float fmt_f64 (FFin x)) = Some (FFin x)) ->
    forall s, wf_sexp parse_f64 s -> read_sexp parse_f64 (print_sexp fmt_f64 s) = POk (s, []).
Proof. exact sexp_roundtrip. Qed.
Print Assumptions c15_sexp_roundtrip.

(** ... and under ANY layout (blanks of any kind between items, before the closing parenthesis),
    followed by anything that starts with a delimiter: what the `Display` impls emit *)
Theorem c15_layout_roundtrip :
  forall (fmt_f64 : Z -> str) (parse_f64 : str -> option fl),
    (forall x, finite_bits x -> numchars (fmt_f64 x)) ->
    (forall x, finite_bits x -> fmt_f64 x <> []) ->
    (forall x, finite_bits x -> parse_f64 (print_float fmt_f64 (FFin x)) = Some (FFin x)) ->
    forall l rest, wf_l parse_f64 l -> follow_ok rest ->
      read_sexp parse_f64 (text fmt_f64 l ++ rest) = POk (strip l, skip_ws false rest).
Proof. exact read_sexp_layout. Qed.
Print Assumptions c15_layout_roundtrip.

(** the reader never exhausts the fuel it supplies itself: its result is a tree or a parse error *)
Theorem c15_reader_total : forall (parse_f64 : str -> option fl) s, read_sexp parse_f64 s <> PFuel.
Proof. exact read_sexp_total. Qed.
Print Assumptions c15_reader_total.

(** [wf_atom] is not vacuous: every atom the lexer itself produces satisfies it *)
Theorem c15_lexer_atoms_wf : forall (parse_f64 : str -> option fl) s x r a,
  next_token s = POk (TOther x, r) -> classify parse_f64 x = SAtom a -> wf_atom parse_f64 a.
Proof. exact lexer_atoms_wf. Qed.
Print Assumptions c15_lexer_atoms_wf.

(** expressions, facts, actions: print (exact `Display` text) then parse = identity, parser state
    (wildcard counter) unchanged; [chk] = ensure_no_reserved_symbols *)
Theorem c15_expr_roundtrip :
  forall (fmt_f64 : Z -> str) (parse_f64 : str -> option fl),
    (forall x, finite_bits x -> numchars (fmt_f64 x)) ->
    (forall x, finite_bits x -> fmt_f64 x <> []) ->
    (forall x, finite_bits x -> parse_f64 (print_float fmt_f64 (FFin x)) = Some (FFin x)) ->
    forall chk e n, wf_expr parse_f64 chk e ->
      parse_expr_str parse_f64 chk (print_expr fmt_f64 e) n = POk (e, n).
Proof. exact expr_roundtrip. Qed.
Print Assumptions c15_expr_roundtrip.

Theorem c15_fact_roundtrip :
  forall (fmt_f64 : Z -> str) (parse_f64 : str -> option fl),
    (forall x, finite_bits x -> numchars (fmt_f64 x)) ->
    (forall x, finite_bits x -> fmt_f64 x <> []) ->
    (forall x, finite_bits x -> parse_f64 (print_float fmt_f64 (FFin x)) = Some (FFin x)) ->
    (forall s x, parse_f64 s = Some (FFin x) -> has_digit s = true) ->
    forall chk f n, wf_fact parse_f64 chk f ->
      parse_fact_str parse_f64 chk (print_fact fmt_f64 f) n = POk (f, n).
Proof. exact fact_roundtrip. Qed.
Print Assumptions c15_fact_roundtrip.

(** includes `(panic msg)` for EVERY message (after repo fix 0357906 the message is printed as a
    string literal; before it, this theorem was false for messages with a quote or a backslash) *)
Theorem c15_action_roundtrip :
  forall (fmt_f64 : Z -> str) (parse_f64 : str -> option fl),
    (forall x, finite_bits x -> numchars (fmt_f64 x)) ->
    (forall x, finite_bits x -> fmt_f64 x <> []) ->
    (forall x, finite_bits x -> parse_f64 (print_float fmt_f64 (FFin x)) = Some (FFin x)) ->
    (forall s x, parse_f64 s = Some (FFin x) -> has_digit s = true) ->
    forall chk a n, wf_action parse_f64 chk a ->
      parse_action_str parse_f64 chk (print_action fmt_f64 a) n = POk (a, n).
Proof. exact action_roundtrip. Qed.
Print Assumptions c15_action_roundtrip.

(** schedules: re-parsing the printed schedule gives [rewrap s] (bodies of saturate / repeat
    wrapped in one more `seq`), NOT s: known finding C15-schedule-reparse-adds-seq *)
Theorem c15_schedule_reparse :
  forall (fmt_f64 : Z -> str) (parse_f64 : str -> option fl),
    (forall x, finite_bits x -> numchars (fmt_f64 x)) ->
    (forall x, finite_bits x -> fmt_f64 x <> []) ->
    (forall x, finite_bits x -> parse_f64 (print_float fmt_f64 (FFin x)) = Some (FFin x)) ->
    (forall s x, parse_f64 s = Some (FFin x) -> has_digit s = true) ->
    forall chk s n, wf_sched parse_f64 chk s ->
      parse_sched_str parse_f64 chk (print_sched fmt_f64 s) n = POk (rewrap s, n).
Proof. exact sched_reparse. Qed.
Print Assumptions c15_schedule_reparse.

Theorem c15_schedule_roundtrip_refuted : exists s, rewrap s <> s.
Proof. exists (SSaturate (SRun [] None)). discriminate. Qed.

(** the difference disappears when singleton sequences are flattened (it is semantically inert) *)
Theorem c15_schedule_roundtrip_partial : forall s, flat (rewrap s) = flat s.
Proof. exact flat_rewrap. Qed.
Print Assumptions c15_schedule_roundtrip_partial.

(** non-vacuity: concrete well-formed inputs, and a concrete run of the model *)
Example c15_wf_example : forall parse_f64,
  (forall s x, parse_f64 s = Some (FFin x) -> has_digit s = true) ->
  wf_action parse_f64 true
    (AUnion (ECall (s_ "g") [EVar (s_ "x"); ELit (LInt (-9223372036854775808))]) (ELit (LStr (s_ "a\b")))).
Proof.
  intros p H.
  assert (forall k, tok_ok k -> has_digit k = false -> str_eqb k k_true = false -> str_eqb k k_false = false ->
                    str_eqb k k_NaN = false -> str_eqb k k_inf = false -> str_eqb k k_ninf = false -> wf_atom p k) as W
      by (intros; apply word_atom; assumption).
  assert (wf_atom p (s_ "g")) by (apply W; [repeat split; try discriminate | reflexivity ..]).
  assert (wf_atom p (s_ "x")) by (apply W; [repeat split; try discriminate | reflexivity ..]).
  simpl.
  split; [split; [assumption | split; [split; [assumption | split; [discriminate | intros _; reflexivity]]
                                      | split; [right; reflexivity | exact I]]]
         | right; exact I].
Qed.

Example c15_example :
  check_case (KCmd ([], []) true
                (CRule (mkRule [APanic [34; 92]] [FEq (EVar (s_ "x")) (ELit (LInt 1))] [34] (s_ "r") Naive true false))
                (s_ "(rule ((= x 1))" ++ [10] ++ s_ "      ((panic " ++ [34; 92; 34; 92; 92; 34] ++ s_ "))" ++ [10]
                   ++ s_ "        :ruleset r :name " ++ [34; 92; 34; 34] ++ s_ " :naive :no-decomp)")
                (POk [CRule (mkRule [APanic [34; 92]] [FEq (EVar (s_ "x")) (ELit (LInt 1))] [34] (s_ "r") Naive true false)]))
  = true.
Proof. vm_compute. reflexivity. Qed.
