(** C05: the collision paths of core-relations/src/table/mod.rs, as the source is written NOW.
    [gen/SourceFacts.v] (regenerated on every run) lists, for every place where the table's merge
    function is called on (cur, new, scratch) and reports a change, which buffer the path stores.
    This file gives that fact its meaning: the value a path keeps as a function of the buffer it
    stores, and the theorem that a path computes the fold of the merge iff it stores the merged row. *)
From Coq Require Import List ZArith Bool Lia String.
Import ListNotations.
Require Import Verif.gen.SourceFacts Verif.Egg.Model Verif.Egg.Merge.

(** the merge callback computes [v] from (cur, new) and reports "changed" iff [v <> cur]; on a change
    the path stores the buffer its [store_kind] names ([StoreOther]: no recognisable store, the raw
    incoming row stays where it was staged) *)
Definition site_val (sk : store_kind) (m : mergefn) (cur new : Z) : Z :=
  let v := zmerge m cur new in
  if Z.eqb v cur then cur
  else match sk with
       | StoreMerged => v
       | StoreIncoming => new
       | StoreCurrent => cur
       | StoreOther => new
       end.

Definition is_merged (sk : store_kind) : bool :=
  match sk with StoreMerged => true | _ => false end.

Lemma site_val_merged m cur new : site_val StoreMerged m cur new = zmerge m cur new.
Proof. unfold site_val. destruct (Z.eqb_spec (zmerge m cur new) cur) as [E|_]; congruence. Qed.

Lemma site_fold_merged m ws : forall a, fold_left (site_val StoreMerged m) ws a = fold_left (zmerge m) ws a.
Proof. induction ws as [|w ws IH]; intro a; cbn [fold_left]; [reflexivity|]. rewrite site_val_merged. apply IH. Qed.

(** every collision path of the CURRENT source stores the merged row *)
Lemma collision_sites_all_merged : forallb (fun s => is_merged (snd s)) collision_sites = true.
Proof. vm_compute. reflexivity. Qed.

(** the property names four collision paths in this file (serial with and without sort column,
    per-shard parallel flush, in-batch staging); none may silently disappear from the inventory *)
Lemma collision_sites_count : 4 <= List.length collision_sites.
Proof. vm_compute. repeat constructor. Qed.

(** hence every path, on any write sequence to one key, keeps the fold of the merge *)
Lemma every_collision_path_folds : forall s, In s collision_sites ->
  forall m ws a, fold_left (site_val (snd s) m) ws a = fold_left (zmerge m) ws a.
Proof.
  intros s Hin m ws a.
  pose proof collision_sites_all_merged as H. rewrite forallb_forall in H. specialize (H s Hin).
  destruct (snd s); try discriminate. apply site_fold_merged.
Qed.

(** in-batch staging followed by the flush against the stored row: the staged writes are folded
    among themselves first (seeded by the first staged write), the result then meets the stored
    value; for a lattice merge this is the fold of all writes over the stored value *)
Lemma staged_then_flush m : lattice m -> forall ws w0 stored,
  zmerge m stored (fold_left (zmerge m) ws w0) = fold_left (zmerge m) (w0 :: ws) stored.
Proof.
  intros L ws. induction ws as [|w ws IH]; intros w0 stored; cbn [fold_left]; [reflexivity|].
  rewrite IH. cbn [fold_left]. rewrite (zmerge_assoc m L). reflexivity.
Qed.

Lemma staged_path_value : forall st fl, In st collision_sites -> In fl collision_sites ->
  forall m, lattice m -> forall ws w0 stored,
  site_val (snd fl) m stored (fold_left (site_val (snd st) m) ws w0) = fold_left (zmerge m) (w0 :: ws) stored.
Proof.
  intros st fl Hst Hfl m L ws w0 stored.
  rewrite (every_collision_path_folds st Hst).
  pose proof collision_sites_all_merged as H. rewrite forallb_forall in H. specialize (H fl Hfl).
  destruct (snd fl); try discriminate. rewrite site_val_merged. apply staged_then_flush. exact L.
Qed.

(** the fact is not vacuous: a path that stores the raw incoming row loses writes under a
    non-selective lattice (bit-or of 1, 2, 4 is 7; keeping the incoming row gives 4), although
    min / max cannot tell the difference *)
Lemma store_incoming_refuted :
  fold_left (site_val StoreIncoming MOr) [2; 4]%Z 1%Z <> fold_left (zmerge MOr) [2; 4]%Z 1%Z.
Proof. vm_compute. discriminate. Qed.

Lemma store_incoming_invisible_to_selective m : m = MMin \/ m = MMax ->
  forall cur new, site_val StoreIncoming m cur new = zmerge m cur new.
Proof.
  intros [-> | ->] cur new; unfold site_val; cbn [zmerge].
  - destruct (Z.eqb_spec (Z.min cur new) cur) as [E|N]; lia.
  - destruct (Z.eqb_spec (Z.max cur new) cur) as [E|N]; lia.
Qed.
