(** C10 — the abstract [step] of the schedule laws instantiated with the shared rule interpreter
    (Egg/Rules.v): one iteration of a (possibly combined) ruleset over the Egg model, together with
    the [changed] flag as the engine computes it.  Executable definitions only.

    The flag is NOT a comparison of the two states: like the engine it is the disjunction, over the
    ground commands the iteration issues, of what the table merges report
      - a row was added (gen/SchedRunFacts.v [table_merge_changed]: [added || es.changed] —
        removals are not an input),
      - the merge of a colliding row changed the stored value or subsume flag
        ([merge_callback_changed]: [cur != out] on either column),
      - a union of two different classes was staged (an insertion into the union-find table).
    [table_merge_changed], [merge_callback_changed], [iteration_changed] are regenerated from
    core-relations / egglog-bridge / egglog-reports on every run; [collect_rule_ids] (gen/SchedFns.v)
    resolves the ruleset, at run time, against the current ruleset table.
    Tie to the engine: harness h_sched (stream "egg": per-iteration flags and the observable
    database after the schedule, kernel-evaluated by [check_egg]). *)
From Coq Require Import List Arith ZArith Bool PeanoNat.
Import ListNotations.
Require Import Verif.Base.Res Verif.Base.Cases Verif.gen.UFSeq Verif.Egg.Model Verif.Egg.Rules.
Require Import Verif.Sched.Syntax Verif.gen.SchedFns Verif.gen.SchedRunFacts Verif.Sched.Algebra.

Definition grew (s s' : state) : bool := negb (Nat.eqb (length (uf s')) (length (uf s))).
Definition val_neqb (a b : val) : bool := negb (val_eqb a b).
Definition bool_neqb (a b : bool) : bool := negb (Bool.eqb a b).
Definition nonempty {A} (l : list A) : bool := match l with [] => false | _ => true end.

(** the engine's [changed] contribution of one ground command executed from [s] *)
Definition xflag (sg : list mergefn) (s : state) (c : xcmd) : bool :=
  match c with
  | XC (CAdd t) => table_merge_changed (grew s (fst (add_term s t))) false false
  | XC (CUnion t1 t2) =>
      let '(s1, v1) := add_term s t1 in
      let '(s2, v2) := add_term s1 t2 in
      table_merge_changed (grew s s2) false
        (match v1, v2 with VId a, VId b => negb (Nat.eqb a b) | _, _ => false end)
  | XSet f ts v =>
      let '(s1, vs) := Rules.add_terms s ts in
      let '(s2, w) := add_term s1 v in
      match tab_lookup (get_tab (tabs s2) f) vs with
      | None => table_merge_changed true false false
      | Some r =>
          let '(v', us, _) := merge_vals (nth f sg MUnionId) (rret r) w in
          table_merge_changed (grew s s2) false
            (merge_callback_changed val_neqb bool_neqb (rret r) v' (rsub r) (combine_sub (rsub r) false)
             || nonempty us)
      end
  | XSubsume f ts =>
      let '(s0, vs) := Rules.add_terms s ts in
      match tab_lookup (get_tab (tabs s0) f) vs with
      | None => table_merge_changed true false false
      | Some r =>
          table_merge_changed (grew s s0) false
            (merge_callback_changed val_neqb bool_neqb (rret r) (rret r) (rsub r) (combine_sub (rsub r) true))
      end
  | XDelete f ts =>
      let '(s1, vs) := Rules.add_terms s ts in
      table_merge_changed (grew s s1)
        (match tab_lookup (get_tab (tabs s1) f) vs with Some _ => true | None => false end) false
  | XPanic => false
  end.

(** [Rules.xrun] with the flag accumulated *)
Fixpoint xrun_f (sg : list mergefn) (s : state) (cs : list xcmd) : xres * bool :=
  match cs with
  | [] => ((s, None), false)
  | c :: tl =>
      match xexec sg s c with
      | (s', None) => let '(r, b) := xrun_f sg s' tl in (r, xflag sg s c || b)
      | r => (r, xflag sg s c)
      end
  end.

Definition iteration_f (sg : list mergefn) (rules : list rule) (s : state) : xres * bool :=
  let '(r, b) := xrun_f sg s (flat_map (rule_cmds s) rules) in
  (r, iteration_changed b false).

(** a program: signature, declared rules (by id) and the ruleset table *)
Record prog := mkProg {
  p_sg : list mergefn;
  p_rules : list rule;
  p_rsets : list (nat * ruleset_def) }.

(** the rules a ruleset name stands for NOW ([step_rules]: [collect_rule_ids] on the current table) *)
Definition resolve (p : prog) (name : nat) : list rule :=
  match collect_rule_ids (S (length (p_rsets p))) name (p_rsets p) [] with
  | Ok ids => map (fun i => nth i (p_rules p) (mkRule [] [])) ids
  | _ => []
  end.

(** database state of a schedule run: the e-graph, and the execution error that aborted the run *)
Definition dbst := xres.

Definition egg_backend (p : prog) (st : dbst) (r : nat) : dbst * bool :=
  match st with
  | (_, Some _) => (st, false)
  | (s, None) => iteration_f (p_sg p) (resolve p r) s
  end.

(** [step_rules] over the Egg model: [RunReport::singleton] of one backend iteration *)
Definition egg_step (p : prog) : dbst -> nat -> dbst * RunReport bool :=
  step_of (egg_backend p) (fun b : bool => b).

(** [check_facts]: the [:until] facts have a match on the current database *)
Definition egg_holds (st : dbst) (fs : list fact) : bool :=
  nonempty (match_body (fst st) fs [[]]).

Definition egg_exec (p : prog) (fuel : nat) (st : dbst) (sched : schedule nat (list fact))
  : Res (dbst * RunReport bool) :=
  run_schedule (egg_step p) egg_holds fuel st sched.

(** fragments of the positive theorem: commands / rules that only insert, set, union, subsume *)
Definition xcmd_monotone (c : xcmd) : bool :=
  match c with XDelete _ _ => false | XPanic => false | _ => true end.
Definition action_monotone (a : action) : bool :=
  match a with ADelete _ _ => false | APanic => false | _ => true end.
Definition rule_monotone (r : rule) : bool := forallb action_monotone (rhead r).

(** ** correspondence with the engine (harness h_sched, stream "egg") *)
Fixpoint setup (sg : list mergefn) (s : state) (acts : list action) : option state :=
  match acts with
  | [] => Some s
  | a :: tl => match ground_action s [] a with
               | Some c => match xexec sg s c with
                           | (s', None) => setup sg s' tl
                           | _ => None
                           end
               | None => None
               end
  end.

Record egg_case := mkEggCase {
  ec_prog : prog;
  ec_setup : list action;
  ec_sched : schedule nat (list fact);
  ec_probes : list term;
  ec_iprobes : list term;
  ec_flags : list bool;          (* the engine's [changed] flag of every iteration, in order *)
  ec_obs : obs                   (* the engine's observable database after the schedule *)
}.

Definition check_egg (c : egg_case) : bool :=
  let p := ec_prog c in
  match setup (p_sg p) (init (length (p_sg p))) (ec_setup c) with
  | None => false
  | Some s0 =>
      match egg_exec p (S (length (ec_flags c))) (s0, None) (ec_sched c) with
      | Ok ((s', None), rep) =>
          list_eqb Bool.eqb (iterations rep) (ec_flags c)
          && obs_eqb (observe s' (ec_probes c) (ec_iprobes c)) (ec_obs c)
      | _ => false
      end
  end.
