(** C20: iteration order as a function of (history, hasher values, capacity policy, shard count).
    See Det/IterModel.v for the model. *)
From Coq Require Import List Arith PeanoNat Bool Lia.
Import ListNotations.
Require Import Verif.Det.IterModel.

(* ------------------------------------------------------------------------------------------- *)
(** * (a) insertion-ordered containers: the hasher is invisible *)

Lemma find_filter {A} (f g : A -> bool) (l : list A) :
  (forall x, g x = true -> f x = true) -> find g (filter f l) = find g l.
Proof.
  intros H. induction l as [|a t IH]; simpl; auto.
  destruct (f a) eqn:Fa; simpl.
  - destruct (g a); auto.
  - destruct (g a) eqn:Ga; auto. apply H in Ga. congruence.
Qed.

Lemma find_map_S (g : nat -> bool) (l : list nat) :
  find g (map S l) = option_map S (find (fun p => g (S p)) l).
Proof. induction l as [|a t IH]; simpl; auto. destruct (g (S a)); auto. Qed.

Lemma find_seq_pos (es : list entry) (k : nat) :
  find (fun p => key_at es p =? k) (seq 0 (length es)) = find_pos es k.
Proof.
  induction es as [|e t IH]; auto.
  cbn [length seq find find_pos].
  change (key_at (e :: t) 0) with (fst e).
  destruct (fst e =? k); auto.
  rewrite <- seq_shift, find_map_S.
  change (fun p => key_at (e :: t) (S p) =? k) with (fun p => key_at t p =? k).
  rewrite IH. reflexivity.
Qed.

(** the probe of the hash index finds exactly the first position holding the key, whatever the
    hasher and the number of buckets *)
Lemma im_lookup_spec (h : nat -> nat) (nb : nat) (es : list entry) (k : nat) :
  im_lookup h nb es k = find_pos es k.
Proof.
  unfold im_lookup, im_bucket. rewrite find_filter.
  - apply find_seq_pos.
  - intros p Hp. apply Nat.eqb_eq in Hp. rewrite Hp. apply Nat.eqb_refl.
Qed.

Lemma im_step_ref (h : nat -> nat) (m : imap) (o : op) :
  im_entries (im_step h m o) = ref_step (im_entries m) o.
Proof.
  destruct o; simpl; try rewrite im_lookup_spec; try destruct (find_pos (im_entries m) k); reflexivity.
Qed.

Lemma im_fold_ref (h : nat -> nat) (ops : list op) : forall m,
  im_entries (fold_left (im_step h) ops m) = fold_left ref_step ops (im_entries m).
Proof.
  induction ops as [|o t IH]; simpl; intros m; auto. rewrite IH, im_step_ref. reflexivity.
Qed.

(** iteration over an insertion-ordered container is the hasher-free replay of the history *)
Theorem im_iter_is_history (h : nat -> nat) (nb0 : nat) (ops : list op) :
  im_iter (im_run h nb0 ops) = ref_run ops.
Proof. unfold im_iter, im_run, ref_run. apply im_fold_ref. Qed.

Corollary im_iter_any_hasher (h1 h2 : nat -> nat) (nb1 nb2 : nat) (ops : list op) :
  im_iter (im_run h1 nb1 ops) = im_iter (im_run h2 nb2 ops).
Proof. rewrite !im_iter_is_history. reflexivity. Qed.

(* ------------------------------------------------------------------------------------------- *)
(** * (b) bucket-ordered tables: the order depends on the hasher only through its VALUES *)

Lemma upd_nth_ext {A} (f g : A -> A) : (forall x, f x = g x) ->
  forall n l, upd_nth n f l = upd_nth n g l.
Proof.
  intros H n l. revert n. induction l as [|x t IH]; intros [|n]; simpl; auto.
  - rewrite H. reflexivity.
  - rewrite IH. reflexivity.
Qed.

Section Ext.
  Variables h1 h2 : nat -> nat.
  Hypothesis Hh : forall k, h1 k = h2 k.

  Lemma t_insert_raw_ext bs k v : t_insert_raw h1 bs k v = t_insert_raw h2 bs k v.
  Proof. unfold t_insert_raw. rewrite Hh. reflexivity. Qed.

  Lemma t_grow_ext bs : t_grow h1 bs = t_grow h2 bs.
  Proof.
    unfold t_grow. generalize (repeat (@nil entry) (2 * length bs)) as acc.
    generalize (t_iter bs) as l.
    induction l as [|e t IH]; simpl; intros acc; auto.
    rewrite t_insert_raw_ext. apply IH.
  Qed.

  Lemma t_insert_ext lf bs k v : t_insert h1 lf bs k v = t_insert h2 lf bs k v.
  Proof. unfold t_insert. rewrite t_insert_raw_ext, t_grow_ext. reflexivity. Qed.

  Lemma t_remove_ext bs k : t_remove h1 bs k = t_remove h2 bs k.
  Proof. unfold t_remove. rewrite Hh. reflexivity. Qed.

  Lemma t_step_ext lf bs o : t_step h1 lf bs o = t_step h2 lf bs o.
  Proof. destruct o; simpl; auto using t_insert_ext, t_remove_ext. Qed.

  Lemma t_fold_ext lf ops : forall bs,
    fold_left (t_step h1 lf) ops bs = fold_left (t_step h2 lf) ops bs.
  Proof. induction ops as [|o t IH]; simpl; intros bs; auto. rewrite t_step_ext. apply IH. Qed.

  Lemma t_run_ext pol ops : t_run h1 pol ops = t_run h2 pol ops.
  Proof. unfold t_run. apply t_fold_ext. Qed.

  Lemma sh_step_ext lf shs o : sh_step h1 lf shs o = sh_step h2 lf shs o.
  Proof.
    destruct o; simpl; auto; rewrite Hh; apply upd_nth_ext; intros bs;
      auto using t_insert_ext, t_remove_ext.
  Qed.

  Lemma sh_fold_ext lf ops : forall shs,
    fold_left (sh_step h1 lf) ops shs = fold_left (sh_step h2 lf) ops shs.
  Proof. induction ops as [|o t IH]; simpl; intros shs; auto. rewrite sh_step_ext. apply IH. Qed.

  Lemma sh_run_ext n pol ops : sh_run h1 n pol ops = sh_run h2 n pol ops.
  Proof. unfold sh_run. apply sh_fold_ext. Qed.
End Ext.

(** two processes whose hashers agree on every key and that use the same capacity policy iterate a
    bucket-ordered table in the same order after the same history *)
Theorem t_iter_function_of_history_seed_policy (h1 h2 : nat -> nat) (pol1 pol2 : policy) (ops : list op) :
  (forall k, h1 k = h2 k) -> pol1 = pol2 ->
  t_iter (t_run h1 pol1 ops) = t_iter (t_run h2 pol2 ops).
Proof. intros Hh ->. rewrite (t_run_ext h1 h2 Hh). reflexivity. Qed.

Theorem sh_iter_function_of_history_seed_policy_shards
  (h1 h2 : nat -> nat) (n1 n2 : nat) (pol1 pol2 : policy) (ops : list op) :
  (forall k, h1 k = h2 k) -> n1 = n2 -> pol1 = pol2 ->
  sh_iter (sh_run h1 n1 pol1 ops) = sh_iter (sh_run h2 n2 pol2 ops).
Proof. intros Hh -> ->. rewrite (sh_run_ext h1 h2 Hh). reflexivity. Qed.

(** the process-level statement: a class whose hasher values / policy / shard count do not vary with
    the environment shows the same order in every process; an insertion-ordered class needs nothing *)
Theorem observe_env_independent (c : cmodel) :
  env_fixed c -> forall e1 e2 ops, observe c e1 ops = observe c e2 ops.
Proof.
  destruct c as [hf nb0 | hf pol | hf shards pol]; simpl.
  - intros _ e1 e2 ops. apply im_iter_any_hasher.
  - intros [Hh Hp] e1 e2 ops. apply t_iter_function_of_history_seed_policy; auto.
  - intros [Hh [Hp Hs]] e1 e2 ops. apply sh_iter_function_of_history_seed_policy_shards; auto.
Qed.

Lemma class_fx_bucket_fixed : env_fixed class_fx_bucket.
Proof. simpl. split; reflexivity. Qed.

Lemma class_dash_explicit_fixed n : env_fixed (class_dash_explicit n).
Proof. simpl. repeat split; reflexivity. Qed.

Lemma class_index_seeded_fixed : env_fixed class_index_seeded.
Proof. exact I. Qed.

(* ------------------------------------------------------------------------------------------- *)
(** * (c) refutations: a seed, or a shard count, that varies with the process *)

Definition env_a : env := {| e_seed := 0; e_cpus := 1; e_base := 40 |}.
Definition env_b : env := {| e_seed := 5; e_cpus := 2; e_base := 96 |}.
Definition hist3 : list op := [Ins 1 10; Ins 2 20; Ins 3 30; Ins 4 40; Ins 5 50].

Theorem seeded_bucket_order_refuted :
  exists e1 e2 ops, observe class_seeded_bucket e1 ops <> observe class_seeded_bucket e2 ops.
Proof.
  exists env_a, env_b, hist3. intros H.
  assert (E : entries_eqb (observe class_seeded_bucket env_a hist3)
                          (observe class_seeded_bucket env_b hist3) = false) by (vm_compute; reflexivity).
  rewrite H in E. clear H.
  assert (R : forall l, entries_eqb l l = true).
  { induction l as [|a t IH]; simpl; auto. unfold entry_eqb. rewrite !Nat.eqb_refl, IH. reflexivity. }
  rewrite R in E. discriminate.
Qed.

(** the same fixed hasher, the same history -- but the default shard count follows the CPUs the
    process may use (the shape of finding F13) *)
Theorem dash_default_order_refuted :
  exists e1 e2 ops, e_seed e1 = e_seed e2 /\
    observe class_dash_default e1 ops <> observe class_dash_default e2 ops.
Proof.
  exists env_a, {| e_seed := 0; e_cpus := 2; e_base := 40 |}, hist3. split; [reflexivity|]. intros H.
  assert (E : entries_eqb (observe class_dash_default env_a hist3)
                          (observe class_dash_default {| e_seed := 0; e_cpus := 2; e_base := 40 |} hist3) = false)
    by (vm_compute; reflexivity).
  rewrite H in E. clear H.
  assert (R : forall l, entries_eqb l l = true).
  { induction l as [|a t IH]; simpl; auto. unfold entry_eqb. rewrite !Nat.eqb_refl, IH. reflexivity. }
  rewrite R in E. discriminate.
Qed.

(** non-vacuity: the fixed-hasher table does NOT iterate in insertion order (so (b) is not (a) in
    disguise), and its order depends on the history, not only on the contents ([Clr] keeps capacity) *)
Example fx_bucket_order_not_insertion :
  observe class_fx_bucket env_a hist3 <> ref_run hist3.
Proof. vm_compute. discriminate. Qed.

Example fx_bucket_order_depends_on_history :
  exists ops1 ops2, ref_run ops1 = ref_run ops2 /\
    observe class_fx_bucket env_a ops1 <> observe class_fx_bucket env_a ops2.
Proof.
  exists [Ins 1 10; Ins 2 20; Ins 3 30],
         [Ins 9 0; Ins 8 0; Ins 7 0; Ins 6 0; Ins 5 0; Clr; Ins 1 10; Ins 2 20; Ins 3 30].
  split; [vm_compute; reflexivity | vm_compute; discriminate].
Qed.

Example seeded_index_order_same :
  observe class_index_seeded env_a hist3 = observe class_index_seeded env_b hist3.
Proof. apply observe_env_independent. exact I. Qed.
