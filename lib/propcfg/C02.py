"""C02 configuration for bin/check."""

CFG = {
        "tier_a": [],
        "model_targets": ["Query/PlanOk.vo"],
        "proof_targets": ["Props/C02.vo"],
        "harness": [{"bin": "h_plans", "prefix": "cases_plans"}],
        "trusted": [],
        "theorem_backed": "",
        "link_only": "",
        "assumptions": [],
    }
