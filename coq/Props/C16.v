(** C16 — The table store behaves like a keyed map with timestamp-ordered scans.
    This file only pins statements and prints their assumptions.

    Model: coq/Table/Model.v (physical SortedWritesTable: append-only rows with stale marks, hash
    of row ids compared by row content, offsets, pending queues, rehash above the stale threshold;
    DisplacedTable over the union-find translated from union-find/src/lib.rs).
    Spec: coq/Table/MapSpec.v (a plain map key -> latest merged row). *)
From Coq Require Import List Arith PeanoNat Sorted.
Import ListNotations.
Require Import Verif.Base.Res Verif.Table.Model Verif.Table.MapSpec Verif.Table.Refine Verif.Table.Displaced.
Require Import Verif.Table.NoPanic Verif.Table.GenLink Verif.Table.DispLink.
From Coq Require Import NArith.
Require Verif.gen.TableFns.

(** For EVERY sequence of stage_insert / stage_remove / merge / clear / read operations and every
    merge function that respects the MergeFn contract, starting from the empty table: if the run
    does not hit the table's own sort-order assertion, then get_row answers as the map does, a full
    scan returns exactly the map's rows -- each live row once (distinct row ids, distinct keys),
    stale (removed or superseded) rows never --, a constrained scan is the full scan filtered, len is
    the number of live rows, and the pending queues are the spec's. *)
Theorem c16_refines_map : forall c mf ops t,
  mf_ok c mf -> run c mf empty ops = Ok t ->
  let s := s_run c mf s_init ops in
  (forall k, option_map snd (get c t k) = sm s k) /\
  (forall r, In r (map snd (scan_all t)) <-> sm s (key_of c r) = Some r) /\
  NoDup (map fst (scan_all t)) /\
  NoDup (map (fun p => key_of c (snd p)) (scan_all t)) /\
  (forall cs i r, In (i, r) (scan_cs t cs) <-> In (i, r) (scan_all t) /\ eval_cs cs r = true) /\
  length (rows t) - stale t = length (scan_all t) /\
  pins t = s_ins s /\ prem t = s_rem s.
Proof. exact table_answers_as_map. Qed.
Print Assumptions c16_refines_map.

(** ... and the hypothesis "the run does not panic" is exactly the caller contract: if rows are
    staged with non-decreasing sort values (timestamps never go back; no condition at all for a
    table without sort column), EVERY op sequence runs to completion -- neither serial_insert's
    sort-order assertion nor rehash's expect fires. *)
Theorem c16_no_panic : forall c mf ops,
  mf_ok c mf -> (forall sc, sortc c = Some sc -> wf_ops sc 0 ops) ->
  exists t, run c mf empty ops = Ok t.
Proof. exact run_nopanic_empty. Qed.
Print Assumptions c16_no_panic.

(** The offsets invariant in every reachable state of a table with sort column [sc]: offsets is
    strictly increasing in both components, every entry (v, s) points inside the table and splits
    the live rows (exactly those with a sort value below v lie before s), and every live sort value
    has an entry. *)
Theorem c16_offsets_inv : forall c mf ops t sc,
  mf_ok c mf -> run c mf empty ops = Ok t -> sortc c = Some sc ->
  StronglySorted (fun a b => fst a < fst b /\ snd a < snd b) (offs t) /\
  (forall v s, In (v, s) (offs t) ->
     s < length (rows t) /\
     forall i r, live_at (rows t) i = Some r -> (i < s <-> col r sc < v)) /\
  (forall i r, live_at (rows t) i = Some r -> In (col r sc) (map fst (offs t))).
Proof. exact table_offsets_inv. Qed.
Print Assumptions c16_offsets_inv.

(** [binary_search_sort_val] AS REGENERATED from table/mod.rs (gen/TableFns.v), on every strictly
    increasing offsets vector and for EVERY library binary search that meets the documented contract
    of [binary_search_by_key]: it never panics (the [self.offsets[got]] index is in bounds) and returns
    the first entry >= val: Ok (its row id, the next entry's row id or next_row) when the entry holds
    val, else Err (its row id or next_row). *)
Theorem c16_binary_search_sort_val : forall bs o n v,
  bs_contract bs -> StronglySorted (fun a b => fst a < fst b /\ snd a < snd b) o ->
  TableFns.binary_search_sort_val bs o n v = Ok (to_rres (bsearch o v n)).
Proof. exact binary_search_sort_val_spec. Qed.
Print Assumptions c16_binary_search_sort_val.

(** the contract is inhabited, by two different executable searches (first / last match) *)
Theorem c16_bs_contract_inhabited : bs_contract lin_bs /\ bs_contract last_bs.
Proof. exact (conj lin_bs_contract last_bs_contract). Qed.
Print Assumptions c16_bs_contract_inhabited.

(** [fast_subset] AS REGENERATED from table/mod.rs (all six arms), in every reachable state and for
    every contract-abiding library binary search: it never panics, answers exactly as the
    specification, and hence independently of which binary search the library implements (the
    executable model [fast_subset] runs it with [lin_bs]). *)
Theorem c16_fast_subset_total : forall c mf ops t bs cn,
  mf_ok c mf -> run c mf empty ops = Ok t -> bs_contract bs ->
  fast_subset_with bs c t cn = Ok (fast_subset_spec c t cn) /\
  fast_subset_with bs c t cn = fast_subset c t cn.
Proof. exact table_fast_subset_total. Qed.
Print Assumptions c16_fast_subset_total.

(** ... hence a timestamp-range subset is exact: whenever the regenerated fast_subset answers
    (Eq/Lt/Le/Gt/Ge against a constant on the sort column), the dense range it returns contains
    exactly the live rows that satisfy the constraint, i.e. scanning it = scanning under the
    constraint. *)
Theorem c16_fast_subset_exact : forall c mf ops t sc bs cn lo hi,
  mf_ok c mf -> run c mf empty ops = Ok t -> bs_contract bs ->
  sortc c = Some sc -> fast_subset_with bs c t cn = Ok (Some (lo, hi)) ->
  (forall i r, In (i, r) (scan_all t) -> (lo <= i < hi <-> eval_c cn r = true)) /\
  scan_range t lo hi = scan_cs t [cn].
Proof. exact table_fast_subset_gen_exact. Qed.
Print Assumptions c16_fast_subset_exact.

(** fast_subset only ever answers constraints on the sort column *)
Theorem c16_fast_subset_only_sort : forall bs c t cn lo hi, fast_subset_with bs c t cn = Ok (Some (lo, hi)) ->
  exists sc, sortc c = Some sc /\
    match cn with CEq _ _ => False | CEqC cl _ | CLt cl _ | CGt cl _ | CLe cl _ | CGe cl _ => cl = sc end.
Proof. exact fast_subset_with_only_sort. Qed.
Print Assumptions c16_fast_subset_only_sort.

(** Compaction: in every reachable state rehash succeeds (its expect cannot fire), changes no
    answer, bumps the major generation, and leaves exactly the live rows. *)
Theorem c16_rehash_preserves : forall c mf ops t,
  mf_ok c mf -> run c mf empty ops = Ok t ->
  exists t', rehash c t = Ok t' /\
    (forall k, option_map snd (get c t' k) = option_map snd (get c t k)) /\
    (forall r, In r (map snd (scan_all t')) <-> In r (map snd (scan_all t))) /\
    gen t' = S (gen t) /\ stale t' = 0 /\ length (rows t') = length (scan_all t).
Proof. exact table_rehash_preserves. Qed.
Print Assumptions c16_rehash_preserves.

(** merge = do_delete; do_insert; then rehash exactly when stale > max(16, n/2) -- the guard is
    regenerated from SortedWritesTable::maybe_rehash (TableFns.maybe_rehash_skip) *)
Theorem c16_merge_rehash_threshold : forall c mf t t',
  merge c mf t = Ok t' ->
  exists t2, do_insert c mf (do_delete c t) = Ok t2 /\
    (stale t2 <= Nat.max 16 (length (rows t2) / 2) -> t' = t2) /\
    (Nat.max 16 (length (rows t2) / 2) < stale t2 -> rehash c t2 = Ok t').
Proof. exact merge_rehash_threshold. Qed.
Print Assumptions c16_merge_rehash_threshold.

(** clearing a non-empty table empties it, drops the pending queues and bumps the generation *)
Theorem c16_clear_bumps : forall t, rows t <> [] ->
  gen (clear t) = S (gen t) /\ rows (clear t) = [] /\ pins (clear t) = [] /\ prem (clear t) = [].
Proof. exact clear_bumps. Qed.
Print Assumptions c16_clear_bumps.

(** the hypothesis [mf_ok] is satisfiable: every merge function the harness installs has it *)
Theorem c16_merge_fns_ok : forall c m cur q r, mf_of c m cur q = Some r ->
  key_of c r = key_of c q /\ (forall sc, sortc c = Some sc -> col r sc = col q sc).
Proof. exact mf_of_ok. Qed.
Print Assumptions c16_merge_fns_ok.

(** DisplacedTable, for EVERY sequence of stage_insert / merge / clear / reads (after the repair
    of finding F8, clear included): if the run does not hit the increasing-timestamp assertion,
    get_row never panics and answers as the map  displaced id -> (id, canonical id, timestamp);
    every (constrained) scan never panics and returns exactly the matching rows of the map, each
    displaced id once. *)
Theorem c16_displaced : forall ops d,
  drun dempty ops = Ok d ->
  let s := ds_run ds_init ops in
  (forall k, exists o, dget d k = Ok o /\ option_map snd o = ds_get s k) /\
  (forall cs, exists l, dscan_ids d (seq 0 (length (disp d))) cs = Ok l /\
     (forall r, In r (map snd l) <-> eval_cs cs r = true /\ exists k, ds_get s k = Some r) /\
     NoDup (map (fun p => col (snd p) 0) l)) /\
  dpend d = ds_pend s.
Proof. exact displaced_answers_as_map. Qed.
Print Assumptions c16_displaced.

(** [DisplacedTable::timestamp_bounds] AS REGENERATED from uf/mod.rs (binary search, then the two
    linear loops widening the match), on every timestamp-sorted vector, for EVERY contract-abiding
    library binary search (which may report ANY of several equal timestamps) and enough fuel: no
    panic (neither the [off - 1] underflow nor an index out of bounds), and the answer is
    Ok(#{ts < val}, #{ts <= val}) when val occurs, else Err(#{ts < val}). *)
Theorem c16_timestamp_bounds : forall l v bs fuel,
  StronglySorted le (map snd l) -> bs_contract bs -> length l < fuel ->
  TableFns.timestamp_bounds bs fuel l v = Ok (tb_spec l v).
Proof. intros l v bs fuel HS. exact (timestamp_bounds_spec l v HS bs fuel). Qed.
Print Assumptions c16_timestamp_bounds.

(** [DisplacedTable::fast_subset] AS REGENERATED from uf/mod.rs, in every reachable state of the
    DisplacedTable and for every contract-abiding library binary search: it never panics, equals
    the specification (hence is independent of the library's tie-break; the executable model [dfast]
    runs it with [lin_bs]), and the dense range it returns for a constraint on an existing column
    holds EXACTLY the rows (displaced id, canonical id, timestamp) that satisfy the constraint. *)
Theorem c16_displaced_fast_subset_exact : forall ops d bs cn,
  drun dempty ops = Ok d -> bs_contract bs ->
  dfast_with bs d cn = Ok (dfast_spec d cn) /\
  dfast_with bs d cn = dfast d cn /\
  (cn_cols_ok cn -> forall lo hi, dfast_spec d cn = Some (lo, hi) ->
     forall i k ts canon, nth_error (disp d) i = Some (k, ts) ->
       (lo <= i < hi <-> eval_c cn [k; canon; ts] = true)).
Proof. exact displaced_fast_subset_exact. Qed.
Print Assumptions c16_displaced_fast_subset_exact.

(** the timestamps of a DisplacedTable are sorted in every reachable state *)
Theorem c16_displaced_sorted : forall ops d, drun dempty ops = Ok d -> StronglySorted le (map snd (disp d)).
Proof. intros ops d H. exact (drun_sorted ops dempty d (SSorted_nil le) H). Qed.
Print Assumptions c16_displaced_sorted.

(** the strategy thresholds of table/rebuild.rs AS REGENERATED ([incremental_rebuild], and
    [do_rebuild]'s use of it): incremental iff the rebuilder has a hint column, the table has more
    than 10000 physical rows and (8192 in the parallel case, else 8) * |recent uf updates| <= rows *)
Theorem c16_incremental_rebuild_threshold : forall hint u n par,
  TableFns.do_rebuild_incremental hint u n par = true <->
  hint = true /\ (10000 < n /\ u * (if par then 8192 else 8) <= n)%N.
Proof.
  intros hint u n par. unfold TableFns.do_rebuild_incremental, TableFns.incremental_rebuild.
  destruct hint; [|split; [discriminate|intros (H & _); discriminate]].
  destruct par; rewrite Bool.andb_true_iff, N.ltb_lt, N.leb_le; tauto.
Qed.
Print Assumptions c16_incremental_rebuild_threshold.

(** the observing run evaluated by the correspondence check is built from the proved [step] and
    the reads the theorems above are about *)
Theorem c16_run_obs_step : forall c mf t o tl t', step c mf t o = Ok t' ->
  run_obs c mf t (o :: tl) = (match read c t o with Some b => [b] | None => [] end) ++ run_obs c mf t' tl.
Proof. exact run_obs_step. Qed.
Print Assumptions c16_run_obs_step.

(** non-vacuity: concrete non-trivial runs *)
Example c16_example :
  run_obs (mkCfg 1 (Some 2)) (mf_of (mkCfg 1 (Some 2)) MNew) empty
    [OIns [1;10;0]; OIns [2;20;0]; OMerge; OGet [1]; OIns [1;11;1]; ORem [2]; OMerge; OScan; OFast (CGe 2 1)]
  = [[[0; 1; 10; 0]]; [[2; 1; 11; 1]]; [[1]; [2; 1; 11; 1]]].
Proof. vm_compute. reflexivity. Qed.

(** 18 writes to one key in one merge leave 17 stale rows > max(16, 18/2): the merge compacts *)
Example c16_example_rehash :
  exists t, run (mkCfg 1 None) (mf_of (mkCfg 1 None) MAlways) empty
              (map (fun v => OIns [1; v]) (seq 0 18) ++ [OMerge]) = Ok t
    /\ rows t = [Some [1; 17]] /\ gen t = 1 /\ stale t = 0 /\ hash t = [0].
Proof. eexists. vm_compute. repeat split. Qed.

(** the two library-search instances really differ (duplicates), the regenerated code does not *)
Example c16_example_tb :
  lin_bs [3; 5; 5; 5; 9] 5 = ROk 1 /\ last_bs [3; 5; 5; 5; 9] 5 = ROk 3 /\
  TableFns.timestamp_bounds lin_bs 6 [(1, 3); (2, 5); (3, 5); (4, 5); (6, 9)] 5 = Ok (ROk (1, 4)) /\
  TableFns.timestamp_bounds last_bs 6 [(1, 3); (2, 5); (3, 5); (4, 5); (6, 9)] 5 = Ok (ROk (1, 4)) /\
  TableFns.timestamp_bounds last_bs 6 [(1, 3); (2, 5); (3, 5); (4, 5); (6, 9)] 7 = Ok (RErr 4).
Proof. vm_compute. repeat split. Qed.

(** the replay of finding F8, on the repaired model: after clear the old key is absent *)
Example c16_example_f8 :
  drun_obs dempty [DIns 5 1 0; DIns 6 2 0; DMerge; DGet 5; DClear; DGet 5; DIns 7 3 1; DMerge; DGet 5; DScan]
  = [[[0; 5; 1; 0]]; []; []; [[0; 7; 3; 1]]].
Proof. vm_compute. reflexivity. Qed.
