(** C01 over MIXED signatures: executable definitions only (no proofs).

    A signature [sg : list mergefn] is mixed when besides constructors ([MUnionId]) it declares
    relations ([MOld] on unit), lattice functions ([MMin]/[MMax]/[MOr]/[MAnd]), [:merge old/new]
    and [:no-merge] ([MAssertEq]) functions. Their rows may be keyed by e-class ids, are re-keyed
    by [rebuild] and trigger rules (rule bodies are unrestricted), but they never stage a union.

    [proj sg s]: the constructor part of a state (every non-constructor table emptied; same
    union-find, same witnesses). [prog_mixed_okb]: the decidable fragment of the C01 theorems
    for mixed signatures ([Egg/MixedProofs.v]). *)
From Coq Require Import List Arith ZArith Bool PeanoNat.
Import ListNotations.
Require Import Verif.Base.Res Verif.Egg.Model Verif.Egg.CmdOk Verif.Egg.Rules.

Definition is_ctor_m (m : mergefn) : bool := match m with MUnionId => true | _ => false end.

(** table [f] is a constructor table (tables beyond the signature default to constructors, as in
    [rebuild_tabs] and [xexec]) *)
Definition is_ctor (sg : list mergefn) (f : nat) : bool := is_ctor_m (nth f sg MUnionId).

Fixpoint ptabs (sg : list mergefn) (ts : list table) : list table :=
  match ts, sg with
  | t :: tl, m :: sg' => (if is_ctor_m m then t else []) :: ptabs sg' tl
  | _, _ => ts
  end.

Definition proj (sg : list mergefn) (s : state) : state := mkSt (uf s) (ptabs sg (tabs s)) (wit s).

(** ground terms over the constructors of the signature (integer literals are leaves) *)
Fixpoint cterm_okb (sg : list mergefn) (n : nat) (t : term) : bool :=
  match t with
  | TI _ => true
  | T f l => (f <? n) && is_ctor sg f && forallb (cterm_okb sg n) l
  end.

Fixpoint cpat_okb (sg : list mergefn) (n : nat) (p : pat) : bool :=
  match p with
  | PVar _ => true
  | PInt _ => true
  | PAdd _ _ => true
  | PApp f ps => (f <? n) && is_ctor sg f && forallb (cpat_okb sg n) ps
  end.

(** actions of the fragment: expressions and unions over constructor patterns; [set] and [delete]
    on NON-constructor tables (relations, lattice / old / new / no-merge functions) with
    constructor patterns as keys and value; [panic]. Not in the fragment: [set] on a constructor
    table, [subsume], function applications nested inside action patterns. *)
Definition mact_okb (sg : list mergefn) (n : nat) (a : action) : bool :=
  match a with
  | AExpr p => cpat_okb sg n p
  | AUnion p q => cpat_okb sg n p && cpat_okb sg n q
  | ASet f ps v => negb (is_ctor sg f) && forallb (cpat_okb sg n) ps && cpat_okb sg n v
  | ADelete f ps => negb (is_ctor sg f) && forallb (cpat_okb sg n) ps
  | APanic => true
  | ASubsume _ _ => false
  end.

Definition mrule_okb (sg : list mergefn) (n : nat) (r : rule) : bool :=
  forallb (mact_okb sg n) (rhead r).

(** rule BODIES are unrestricted: they may match relations and lattice functions *)
Definition mkcmd_okb (sg : list mergefn) (n : nat) (k : command) : bool :=
  match k with
  | KAct a => mact_okb sg n a
  | KRule r => mrule_okb sg n r
  | KRun _ => true
  end.

(** the mixed fragment: ANY signature; actions as above *)
Definition prog_mixed_okb (n : nat) (sg : list mergefn) (ks : list command) : bool :=
  forallb (mkcmd_okb sg n) ks.

(** ground commands of the fragment and the term-level history they amount to on the
    constructor part *)
Definition ccmd_okb (sg : list mergefn) (n : nat) (c : cmd) : bool :=
  match c with
  | CAdd t => cterm_okb sg n t
  | CUnion a b => cterm_okb sg n a && cterm_okb sg n b
  end.

Definition mxc_okb (sg : list mergefn) (n : nat) (x : xcmd) : bool :=
  match x with
  | XC c => ccmd_okb sg n c
  | XSet f ts v => negb (is_ctor sg f) && forallb (cterm_okb sg n) ts && cterm_okb sg n v
  | XDelete f ts => negb (is_ctor sg f) && forallb (cterm_okb sg n) ts
  | XPanic => true
  | XSubsume _ _ => false
  end.

(** an ill-sorted union (a side is an integer literal) is executed by [exec] as two insertions *)
Definition cmd_norm' (c : cmd) : list cmd :=
  match c with
  | CUnion a b => if is_T a && is_T b then [c] else [CAdd a; CAdd b]
  | CAdd _ => [c]
  end.

Definition xproj (x : xcmd) : list cmd :=
  match x with
  | XC c => cmd_norm' c
  | XSet _ ts v => map CAdd ts ++ [CAdd v]
  | XDelete _ ts => map CAdd ts
  | XSubsume _ ts => map CAdd ts
  | XPanic => []
  end.

(** the ground commands a program issues, in order, up to and including the one that raises an
    error: the log of what [pexec] hands to [xexec] *)
Fixpoint xrun_log (sg : list mergefn) (s : state) (cs : list xcmd) : list xcmd :=
  match cs with
  | [] => []
  | c :: tl => match xexec sg s c with
               | (s', None) => c :: xrun_log sg s' tl
               | _ => [c]
               end
  end.

Fixpoint run_n_log (sg : list mergefn) (rules : list rule) (n : nat) (s : state) : list xcmd :=
  match n with
  | O => []
  | S n' =>
      let cs := flat_map (rule_cmds s) rules in
      match iteration sg rules s with
      | (s', None) =>
          if (Nat.eqb (tabs_size s') (tabs_size s) && Nat.eqb (length (uf s')) (length (uf s))
              && Nat.eqb (n_sub s') (n_sub s)
              && Base.Cases.list_eqb Nat.eqb (map (rep (uf s')) (seq 0 (length (uf s'))))
                                  (map (rep (uf s)) (seq 0 (length (uf s))))
              && Base.Cases.list_eqb (Base.Cases.list_eqb (fun a b => val_eqb (rret a) (rret b))) (tabs s') (tabs s))%bool
          then xrun_log sg s cs
          else xrun_log sg s cs ++ run_n_log sg rules n' s'
      | _ => xrun_log sg s cs
      end
  end.

Definition pexec_log (sg : list mergefn) (ps : pstate) (k : command) : list xcmd :=
  let '(s, rules) := ps in
  match k with
  | KAct a => match ground_action s [] a with Some c => [c] | None => [] end
  | KRule _ => []
  | KRun n => run_n_log sg rules n s
  end.

Fixpoint plog (sg : list mergefn) (ps : pstate) (ks : list command) : list xcmd :=
  match ks with
  | [] => []
  | k :: tl => match pexec sg ps k with
               | (ps', None) => pexec_log sg ps k ++ plog sg ps' tl
               | _ => pexec_log sg ps k
               end
  end.

Definition xunions (xs : list xcmd) : list (term * term) :=
  flat_map (fun x => match x with XC (CUnion a b) => [(a, b)] | _ => [] end) xs.
