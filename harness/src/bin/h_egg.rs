//! Shared driver for the Egg-core properties (C01, C03, C04, C05, C13): generated sessions run on
//! the real engine command by command; property predicates evaluated on the raw dumps after every
//! command; the same sessions written as cases for the Gallina model (coq/Egg/Rules.v).
//!
//! extra args: --prop C01|C03|C04|C05|C13
use std::collections::{BTreeMap, HashMap, HashSet};
use verif_harness::egg::*;
use verif_harness::egg_gen::*;
use verif_harness::util::*;

struct Viol {
    what: String,
    key: String,
    program: String,
    at: usize,
}

/// naive congruence closure over a finite universe of ground terms (C01 twin, rule-free sessions)
struct Closure {
    terms: Vec<Pat>,
    ix: HashMap<Pat, usize>,
    cls: Vec<usize>,
}
impl Closure {
    fn new() -> Self {
        Closure { terms: vec![], ix: HashMap::new(), cls: vec![] }
    }
    fn add(&mut self, p: &Pat) -> usize {
        if let Some(i) = self.ix.get(p) {
            return *i;
        }
        if let Pat::App(_, args) = p {
            for a in args {
                self.add(a);
            }
        }
        let i = self.terms.len();
        self.terms.push(p.clone());
        self.ix.insert(p.clone(), i);
        self.cls.push(i);
        i
    }
    fn merge(&mut self, a: usize, b: usize) -> bool {
        let (ca, cb) = (self.cls[a], self.cls[b]);
        if ca == cb {
            return false;
        }
        for c in self.cls.iter_mut() {
            if *c == cb {
                *c = ca;
            }
        }
        true
    }
    fn close(&mut self) {
        loop {
            let mut changed = false;
            let n = self.terms.len();
            for i in 0..n {
                for j in (i + 1)..n {
                    if self.cls[i] == self.cls[j] {
                        continue;
                    }
                    if let (Pat::App(f, a), Pat::App(g, b)) = (&self.terms[i], &self.terms[j]) {
                        if f == g
                            && a.len() == b.len()
                            && a.iter().zip(b.iter()).all(|(x, y)| self.cls[self.ix[x]] == self.cls[self.ix[y]])
                        {
                            let (i2, j2) = (i, j);
                            changed |= self.merge(i2, j2);
                        }
                    }
                }
            }
            if !changed {
                break;
            }
        }
    }
}

fn main() {
    let o = verif_harness::parse_opts();
    let mut prop = "C01".to_string();
    let mut threads = 1usize;
    let mut ncases_override: Option<usize> = None;
    let mut alt_threads = 4usize;
    let mut i = 0;
    while i < o.extra.len() {
        if o.extra[i] == "--prop" {
            prop = o.extra[i + 1].clone();
            i += 1;
        } else if o.extra[i] == "--alt-threads" {
            alt_threads = o.extra[i + 1].parse().expect("alt-threads");
            i += 1;
        } else if o.extra[i] == "--cases" {
            ncases_override = Some(o.extra[i + 1].parse::<usize>().expect("cases"));
            i += 1;
        } else if o.extra[i] == "--threads" {
            threads = o.extra[i + 1].parse().expect("threads");
            i += 1;
        }
        i += 1;
    }
    let bias = match prop.as_str() {
        "C01" => Bias::C01,
        "C03" => Bias::C03,
        "C04" => Bias::C04,
        "C05" => Bias::C05,
        "C13" => Bias::C13,
        "C06" => Bias::C03,
        "C14" => Bias::C03,
        _ => Bias::C01,
    };
    let header = "From Coq Require Import List ZArith NArith.\nImport ListNotations.\nRequire Import Verif.Base.Cases Verif.Egg.Model Verif.Egg.Rules.\n";
    let mut w = CaseWriter::new(&o.out, "cases_egg", header, "check_case", 40);
    let ncases = match (o.thorough, bias) {
        (false, _) => ncases_override.unwrap_or(240),
        (true, _) => ncases_override.map(|n| n * 12).unwrap_or(3000),
    };
    let mut viols: Vec<Viol> = Vec::new();
    let mut distinct: HashSet<String> = HashSet::new();
    let mut nontrivial = 0usize;
    let mut cmd_hist: BTreeMap<String, usize> = BTreeMap::new();
    let mut err_hist: BTreeMap<String, usize> = BTreeMap::new();
    let mut size_hist: BTreeMap<String, usize> = BTreeMap::new();
    let mut samples: Vec<serde_json::Value> = Vec::new();
    let mut model_cases = 0usize;
    let mut twin_evals = 0usize;
    let mut err_samples: Vec<String> = Vec::new();

    // silence the default panic printer: panics are observations here
    std::panic::set_hook(Box::new(|_| {}));

    let mut programs: Vec<(Program, String)> = Vec::new();
    let mut extra_probes: HashMap<String, Vec<Pat>> = HashMap::new();
    // C01: long congruence chains that must be closed inside ONE rebuild (a chain of depth k needs
    // about k passes): towers F^k(a), F^k(b) built first, then a single union of the leaves
    if prop == "C01" && o.replay.is_none() {
        for (n, k) in [7usize, 40, 130, 260].iter().enumerate() {
            let decls = vec![
                Decl { name: "K0".into(), kind: Kind::Ctor, args: vec![] },
                Decl { name: "K1".into(), kind: Kind::Ctor, args: vec![] },
                Decl { name: "F0".into(), kind: Kind::Ctor, args: vec![Sort::S] },
            ];
            let tower = |base: usize, h: usize| {
                let mut t = Pat::App(base, vec![]);
                for _ in 0..h {
                    t = Pat::App(2, vec![t]);
                }
                t
            };
            let cmds = vec![
                Cmd::Act(Action::Expr(tower(0, *k))),
                Cmd::Act(Action::Expr(tower(1, *k))),
                Cmd::Act(Action::Union(tower(0, 0), tower(1, 0))),
            ];
            let tag = format!("deep-chain k={k} #{n}");
            extra_probes.insert(tag.clone(), vec![tower(0, *k), tower(1, *k), tower(0, *k / 2), tower(1, *k / 2), tower(0, 1), tower(1, 1)]);
            programs.push((Program { decls, cmds, expect: vec![] }, tag));
        }
    }
    if let Some(path) = &o.replay {
        let txt = std::fs::read_to_string(path).expect("replay");
        let v: serde_json::Value = serde_json::from_str(&txt).expect("json");
        // replay files carry the case index + seed + prop: regenerate deterministically
        let viol = if v.get("violation").is_some() { &v["violation"] } else { &v };
        let seed = viol["seed"].as_u64().unwrap_or(o.seed);
        let idx = viol["case"].as_u64().unwrap_or(0);
        let mut r = Rng::for_case(seed, idx);
        let n = r.range(3, 14);
        programs.push((Gen::new(&mut r, bias).program(n), format!("replay seed={seed} case={idx}")));
    } else {
        for ci in 0..ncases {
            let mut r = Rng::for_case(o.seed, ci as u64);
            let n = r.range(3, 14);
            // C06 alternates rule-heavy sessions with sessions full of colliding lattice writes
            let b = if prop == "C06" && ci % 2 == 1 { Bias::C05 } else { bias };
            programs.push((Gen::new(&mut r, b).program(n), format!("seed={} case={}", o.seed, ci)));
        }
    }

    // ---- C03: nested containers (depth 2..4) rewritten in place: the parent row keeps its id
    //      and values, so only the container dirty-id closure re-stamps it for semi-naive
    //      evaluation. Raw text programs, semi-naive and naive engines in lockstep.
    let mut raw_cases = 0usize;
    if (prop == "C03" || prop == "C06" || prop == "C14") && o.replay.is_none() {
        let threads_mode = prop == "C06";
        let kinds = [("Vec", "vec-of"), ("Set", "set-of")];
        let mut progs: Vec<(String, Vec<String>, Vec<String>)> = Vec::new();
        // the order in which container KINDS are first declared decides the order of the per-kind
        // environments (a closure computed environment by environment is order-sensitive)
        for pre in ["", "(sort PreS (Set i64))\n", "(sort PreV (Vec i64))\n"] {
        for depth in 2..=4usize {
            for mask in 0..(1usize << depth.min(3)) {
                let mut setup = format!("{pre}(sort E)\n");
                let mut sort_names = vec!["E".to_string()];
                for lvl in 0..depth {
                    let (k, _) = kinds[(mask >> (lvl.min(2))) & 1];
                    let nm = format!("C{lvl}");
                    setup.push_str(&format!("(sort {nm} ({k} {}))\n", sort_names[lvl]));
                    sort_names.push(nm);
                }
                setup.push_str(&format!("(constructor b () E)\n(constructor c () E)\n(constructor w (E) E)\n(constructor k (i64) E)\n(constructor p ({0}) E)\n(constructor q ({0}) E)\n(relation Hit (E))\n", sort_names[depth]));
                let nest = |leaf: &str| {
                    let mut t = leaf.to_string();
                    for lvl in 0..depth {
                        let (_, of) = kinds[(mask >> (lvl.min(2))) & 1];
                        t = format!("({of} {t})");
                    }
                    t
                };
                let steps = vec![
                    format!("(rule ((= x (p {}))) ((Hit x) (union x (b))))", nest("(b)")),
                    format!("(let $n (p {}))", nest("(w (b))")),
                    "(run 2)".to_string(),
                    "(union (w (b)) (b))".to_string(),
                    "(run 2)".to_string(),
                    format!("(let $m (p {}))", nest("(c)")),
                    "(rewrite (w x) x)".to_string(),
                    "(union (c) (w (w (b))))".to_string(),
                    "(run-schedule (saturate (run)))".to_string(),
                ];
                let probes = vec!["(= $n (b))".to_string(), "(Hit $n)".to_string(), format!("(= (p {}) (b))", nest("(b)"))];
                progs.push((setup.clone(), steps.clone(), probes.clone()));
                // variant: a YOUNGER container id already denotes the content the older one is
                // rebuilt into (the rebuilt container collides with it and keeps its own, older id:
                // only the dirty-id report re-stamps the parent row), plus padding containers so
                // that the parallel container rebuild is chosen with the default cut-off too
                let mut steps2 = steps.clone();
                let mut pad = format!("(let $y (q {}))", nest("(b)"));
                for i in 0..10 {
                    pad.push_str(&format!("\n(q {})", nest(&format!("(k {i})"))));
                }
                steps2.insert(2, pad);
                progs.push((setup, steps2, probes));
            }
        }
        }
        for (setup, steps, probes) in &progs {
            raw_cases += 1;
            let mut a = egglog::EGraph::default();
            let mut b = if threads_mode { egglog::EGraph::default().with_num_threads(alt_threads) } else { egglog::EGraph::default() };
            if !threads_mode {
                b.seminaive = false;
            }
            let (side_a, side_b) = if threads_mode { ("1 thread".to_string(), format!("{alt_threads} threads")) } else { ("semi-naive".to_string(), "naive".to_string()) };
            let (ra, _) = step(&mut a, setup);
            let (rb, _) = step(&mut b, setup);
            if ra.is_err() || rb.is_err() {
                viols.push(Viol { what: format!("harness: nested-container setup rejected: {:?}", ra.err().or(rb.err())), key: "harness-header".into(), program: setup.clone(), at: 0 });
                continue;
            }
            let mut done = String::new();
            'steps: for (k, st) in steps.iter().enumerate() {
                let (ra, pa) = step(&mut a, st);
                let (rb, pb) = step(&mut b, st);
                done.push_str(st);
                done.push('\n');
                let mut diff: Option<String> = None;
                if ra.is_ok() != rb.is_ok() || pa || pb {
                    diff = Some(format!("command outcome differs ({side_a} {:?}, {side_b} {:?})", ra.as_ref().map(|_| ()), rb.as_ref().map(|_| ())));
                }
                if diff.is_none() && !st.starts_with("(let $m") && k >= 1 {
                    for pr in probes {
                        if pr.contains("$m") {
                            continue;
                        }
                        let (ca, _) = step(&mut a, &format!("(check {pr})"));
                        let (cb, _) = step(&mut b, &format!("(check {pr})"));
                        if ca.is_ok() != cb.is_ok() {
                            diff = Some(format!("(check {pr}) {} with {side_a} but {} with {side_b}", if ca.is_ok() { "holds" } else { "fails" }, if cb.is_ok() { "holds" } else { "fails" }));
                            break;
                        }
                    }
                    if diff.is_none() {
                        let (sa, _) = step(&mut a, "(print-size)");
                        let (sb, _) = step(&mut b, "(print-size)");
                        let fmt = |r: Result<Vec<egglog::CommandOutput>, String>| r.map(|o| o.iter().map(|x| x.to_string()).collect::<String>()).unwrap_or_else(|e| e);
                        let (sa, sb) = (fmt(sa), fmt(sb));
                        if sa != sb {
                            diff = Some(format!("table sizes differ: {side_a} {sa:?} {side_b} {sb:?}"));
                        }
                    }
                }
                if let Some(dm) = diff {
                    viols.push(Viol { what: format!("nested containers, after `{st}`: {dm}"), key: if threads_mode { "C06-threads-differ".into() } else if prop == "C14" { "C14-semi-vs-naive".into() } else { "C03-semi-vs-naive".into() }, program: format!("{setup}{done}"), at: k });
                    break 'steps;
                }
            }
        }
    }
    // ---- C03: several rulesets and combined rulesets whose members are also run on their own, so
    //      that the rules of one batch have DIFFERENT last-run timestamps; top-level writes in
    //      between. Semi-naive and naive engines in lockstep (each rule keeps its own timestamp).
    if prop == "C03" && o.replay.is_none() {
        let nprog = if o.thorough { 400 } else { 40 };
        for pi in 0..nprog {
            raw_cases += 1;
            let mut r = Rng::for_case(o.seed ^ 0xC03B, pi as u64);
            let setup = "(relation edge (i64 i64))\n(relation path (i64 i64))\n(relation source (i64))\n(relation sink (i64))\n(ruleset ra)\n(ruleset rb)\n(ruleset rc)\n(rule ((edge x y)) ((path x y)) :ruleset ra)\n(rule ((edge x y)) ((source x)) :ruleset rb)\n(rule ((path x y) (edge y z)) ((path x z)) :ruleset rc)\n(rule ((edge x y)) ((sink y)) :ruleset rc)\n".to_string();
            let orders = [["ra", "rb"], ["rb", "ra"], ["ra", "rc"], ["rc", "rb"]];
            let o1 = orders[r.below(4)];
            let o2 = orders[r.below(4)];
            let setup = format!("{setup}(unstable-combined-ruleset c1 {} {})\n(unstable-combined-ruleset c2 {} {})\n(unstable-combined-ruleset all c1 rc)\n", o1[0], o1[1], o2[0], o2[1]);
            let mut a = egglog::EGraph::default();
            let mut b = egglog::EGraph::default();
            b.seminaive = false;
            let (ra, _) = step(&mut a, &setup);
            let (rb, _) = step(&mut b, &setup);
            if ra.is_err() || rb.is_err() {
                viols.push(Viol { what: format!("harness: ruleset setup rejected: {:?}", ra.err().or(rb.err())), key: "harness-header".into(), program: setup.clone(), at: 0 });
                continue;
            }
            let mut done = String::new();
            let ncmd = r.range(6, 16);
            let mut next_node = 1i64;
            for k in 0..ncmd {
                let st = match r.below(10) {
                    0..=3 => {
                        next_node += 1;
                        format!("(edge {} {})", r.below(next_node as usize), next_node)
                    }
                    4 => format!("(run {} 1)", ["ra", "rb", "rc"][r.below(3)]),
                    5 => format!("(run {} {})", ["ra", "rb", "rc"][r.below(3)], r.range(1, 2)),
                    6 => "(run c1 1)".to_string(),
                    7 => "(run c2 1)".to_string(),
                    8 => "(run all 1)".to_string(),
                    _ => format!("(run-schedule (seq (run {}) (run {})))", ["ra", "rb", "rc", "c1"][r.below(4)], ["c2", "rb", "all"][r.below(3)]),
                };
                let (ra, pa) = step(&mut a, &st);
                let (rb, pb) = step(&mut b, &st);
                done.push_str(&st);
                done.push('\n');
                let mut diff: Option<String> = None;
                if ra.is_ok() != rb.is_ok() || pa || pb {
                    diff = Some("command outcome differs".to_string());
                } else {
                    let fmt = |r: Result<Vec<egglog::CommandOutput>, String>| r.map(|o| o.iter().map(|x| x.to_string()).collect::<String>()).unwrap_or_else(|e| e);
                    let (sa, _) = step(&mut a, "(print-size)");
                    let (sb, _) = step(&mut b, "(print-size)");
                    let (sa, sb) = (fmt(sa), fmt(sb));
                    if sa != sb {
                        diff = Some(format!("table sizes differ: semi-naive {sa:?} naive {sb:?}"));
                    }
                }
                if let Some(dm) = diff {
                    viols.push(Viol { what: format!("rulesets with different run histories, after `{st}`: {dm}"), key: "C03-semi-vs-naive".into(), program: format!("{setup}{done}"), at: k });
                    break;
                }
            }
        }
    }
    // ---- C01: big tables (> 10k rows, so the incremental rebuild / index-driven paths run) with a
    //      FEW unions whose consequences are known analytically; rows with a value repeated in two
    //      columns, displaced output ids, parents of displaced rows. Known-answer checks.
    if prop == "C01" && o.replay.is_none() {
        let variants: Vec<(&str, Vec<(String, bool)>)> = vec![
            ("(let $x (Num -2))\n(let $z (Num -1))\n(let $y (Add $x $x))\n(let $xp (Add $x $pad))\n(union $y $z)\n(let $w1 (Add (Add $x $x) $pad))\n(let $w2 (Add $z $pad))",
             vec![("(= $y $z)".into(), true), ("(= (Add $x $x) $z)".into(), true), ("(= $w1 $w2)".into(), true), ("(= $x $z)".into(), false), ("(= $xp $z)".into(), false)]),
            ("(let $z (Num -1))\n(let $x (Num -2))\n(let $w (Num -3))\n(let $y (Tri $x $w $x))\n(let $p (Add $y $pad))\n(union $z $y)",
             vec![("(= (Tri $x $w $x) $z)".into(), true), ("(= $p $p)".into(), true), ("(= $x $w)".into(), false)]),
            ("(let $a (Num -5))\n(let $b (Num -6))\n(let $fa (Add $a $a))\n(let $fb (Add $b $b))\n(let $ga (Tri $fa $fa $a))\n(let $gb (Tri $fb $fb $b))\n(let $pa (Add $ga $pad))\n(let $pb (Add $gb $pad))\n(union $a $b)",
             vec![("(= $fa $fb)".into(), true), ("(= $ga $gb)".into(), true), ("(= $pa $pb)".into(), true), ("(= $fa $a)".into(), false)]),
        ];
        let grow = if o.thorough { 15 } else { 14 };
        for (vi, (body, checks)) in variants.iter().enumerate() {
            raw_cases += 1;
            let setup = format!(
                "(datatype E (Num i64) (Add E E) (Tri E E E))\n(let $pad (Num 0))\n(ruleset grow)\n(rule ((= e (Num i)) (> i 0) (< i {})) ((Num (* 2 i)) (Num (+ 1 (* 2 i)))) :ruleset grow)\n(Num 1)\n(run grow 20)\n(ruleset fill)\n(rule ((= e (Num i)) (> i 0)) ((Add e $pad) (Tri e $pad e)) :ruleset fill)\n(run fill 1)\n",
                1usize << (grow - 1)
            );
            let mut eg = egglog::EGraph::default();
            let (r0, p0) = step(&mut eg, &setup);
            if r0.is_err() || p0 {
                viols.push(Viol { what: format!("harness: big known-answer setup failed: {:?}", r0.err()), key: "harness-header".into(), program: setup.clone(), at: 0 });
                continue;
            }
            let (r1, p1) = step(&mut eg, body);
            if r1.is_err() || p1 {
                viols.push(Viol { what: format!("big known-answer program failed: {:?}", r1.err()), key: "C01-big-failed".into(), program: format!("{setup}{body}"), at: 1 });
                continue;
            }
            for (chk, want) in checks {
                let (rc, pc) = step(&mut eg, &format!("(check {chk})"));
                if pc || rc.is_ok() != *want {
                    viols.push(Viol {
                        what: format!("big tables (variant {vi}): (check {chk}) {} but by congruence closure of the single union it must {}", if rc.is_ok() { "holds" } else { "fails" }, if *want { "hold (missed equality)" } else { "fail (invented equality)" }),
                        key: if *want { "C01-missed".into() } else { "C01-invented".into() },
                        program: format!("{setup}{body}\n(check {chk})"),
                        at: 2,
                    });
                    break;
                }
            }
        }
    }
    // ---- C06: big tables (several thousand rows, above 2048 x threads) with a few unions, so
    //      that the chunked parallel rebuild / merge / index paths see more than one chunk per
    //      worker; raw text programs, 1-thread and alt-thread engines in lockstep.
    if prop == "C06" && o.replay.is_none() && o.extra.iter().any(|x| x == "--big-tables") {
        let sizes: &[(usize, usize)] = if o.thorough { &[(70, 50), (80, 50), (95, 37), (120, 61)] } else { &[(80, 50)] };
        for (side, stride) in sizes {
            raw_cases += 1;
            let setup = "(datatype S (F i64) (G S))\n(relation N (i64))\n(relation AllOk (i64))\n(ruleset gen-n)\n(ruleset gen-terms)\n(ruleset do-union)\n(ruleset walk)\n(N 0)\n".to_string();
            let last = (side * side / stride - 1) * stride;
            let steps = vec![
                format!("(rule ((N i) (< i {})) ((N (+ i 1))) :ruleset gen-n)", side - 1),
                "(run-schedule (saturate (run gen-n)))".to_string(),
                format!("(rule ((N i) (N j)) ((G (F (+ (* {side} i) j)))) :ruleset gen-terms)"),
                "(run-schedule (run gen-terms))".to_string(),
                format!("(rule ((= a (F k)) (= b (F (+ k 1))) (= 0 (% k {stride}))) ((union a b)) :ruleset do-union)"),
                "(run-schedule (run do-union))".to_string(),
                "(rule ((= (G (F 0)) (G (F 1)))) ((AllOk 0)) :ruleset walk)".to_string(),
                format!("(rule ((AllOk k) (= (G (F (+ k {stride}))) (G (F (+ k {})))) ) ((AllOk (+ k {stride}))) :ruleset walk)", stride + 1),
                "(run-schedule (saturate (run walk)))".to_string(),
            ];
            let probes = vec!["(= (G (F 0)) (G (F 1)))".to_string(), format!("(AllOk {last})"), format!("(AllOk {})", last / 2 / stride * stride)];
            let mut a = egglog::EGraph::default();
            let mut b = egglog::EGraph::default().with_num_threads(alt_threads);
            let (ra, _) = step(&mut a, &setup);
            let (rb, _) = step(&mut b, &setup);
            if ra.is_err() || rb.is_err() {
                viols.push(Viol { what: format!("harness: big-table setup rejected: {:?}", ra.err().or(rb.err())), key: "harness-header".into(), program: setup.clone(), at: 0 });
                continue;
            }
            let mut done = String::new();
            for (k, st) in steps.iter().enumerate() {
                let (ra, pa) = step(&mut a, st);
                let (rb, pb) = step(&mut b, st);
                done.push_str(st);
                done.push('\n');
                let mut diff: Option<String> = None;
                if ra.is_ok() != rb.is_ok() || pa || pb {
                    diff = Some(format!("command outcome differs (1 thread {:?}, {alt_threads} threads {:?})", ra.as_ref().map(|_| ()), rb.as_ref().map(|_| ())));
                }
                if diff.is_none() && k >= 5 {
                    for pr in &probes {
                        let (ca, _) = step(&mut a, &format!("(check {pr})"));
                        let (cb, _) = step(&mut b, &format!("(check {pr})"));
                        if ca.is_ok() != cb.is_ok() {
                            diff = Some(format!("(check {pr}) {} with 1 thread but {} with {alt_threads} threads", if ca.is_ok() { "holds" } else { "fails" }, if cb.is_ok() { "holds" } else { "fails" }));
                            break;
                        }
                    }
                    if diff.is_none() {
                        let fmt = |r: Result<Vec<egglog::CommandOutput>, String>| r.map(|o| o.iter().map(|x| x.to_string()).collect::<String>()).unwrap_or_else(|e| e);
                        let (sa, _) = step(&mut a, "(print-size)");
                        let (sb, _) = step(&mut b, "(print-size)");
                        let (sa, sb) = (fmt(sa), fmt(sb));
                        if sa != sb {
                            diff = Some(format!("table sizes differ: 1 thread {sa:?}, {alt_threads} threads {sb:?}"));
                        }
                    }
                }
                if let Some(dm) = diff {
                    viols.push(Viol { what: format!("big tables ({side}x{side} terms), after `{st}`: {dm}"), key: "C06-threads-differ".into(), program: format!("{setup}{done}"), at: k });
                    break;
                }
            }
        }
    }
    for (ci, (p, tag)) in programs.iter().enumerate() {
        let text = p.text();
        let fresh = distinct.insert(text.clone());
        let mut probes = enumerate_probes(p, 3, 36, &[0, 1, 2]);
        if let Some(ex) = extra_probes.get(tag) {
            probes = ex.clone();
            probes.push(Pat::App(0, vec![]));
            probes.push(Pat::App(1, vec![]));
        }
        // int probes: function / relation applications on small terms
        let mut iprobes: Vec<Pat> = Vec::new();
        for (f, d) in p.decls.iter().enumerate() {
            if d.kind != Kind::Ctor {
                for t in probes.iter().filter(|t| pat_size(t) <= 3).take(8) {
                    iprobes.push(Pat::App(f, vec![t.clone()]));
                }
            }
        }
        let mut eg = if threads > 1 { egglog::EGraph::default().with_num_threads(threads) } else { egglog::EGraph::default() };
        // C03: a second engine with semi-naive evaluation switched off, run in lockstep
        let mut eg_naive: Option<egglog::EGraph> = if prop == "C03" {
            let mut e = egglog::EGraph::default();
            e.seminaive = false;
            let _ = step(&mut e, &p.header());
            Some(e)
        } else if prop == "C06" {
            // C06: the main engine runs single-threaded, the second one with `alt_threads`
            // threads (the parallel cut-offs come from the environment of this process)
            let mut e = egglog::EGraph::default().with_num_threads(alt_threads);
            let _ = step(&mut e, &p.header());
            Some(e)
        } else {
            None
        };
        let alt_name = if prop == "C06" { format!("{alt_threads} threads") } else { "naive".to_string() };
        let alt_key = if prop == "C06" { "C06-threads-differ" } else { "C03-semi-vs-naive" };
        let (r0, _) = step(&mut eg, &p.header());
        if let Err(e) = r0 {
            viols.push(Viol { what: format!("harness: header rejected: {e}"), key: "harness-header".into(), program: text.clone(), at: 0 });
            continue;
        }
        let mut expected: Vec<Obs> = Vec::new();
        let mut model_ok = true; // still comparable with the model
        let mut model_cmds: Vec<String> = Vec::new();
        let mut rule_free = true;
        let mut closure = Closure::new();
        let mut present: Vec<usize> = Vec::new();
        let mut any_delete = false;
        let mut did_union = false;
        let mut did_rebuild_merge = false;
        let mut writes: Vec<(usize, Pat, i64)> = Vec::new(); // top-level sets (C05 twin)
        let mut nm_writes: Vec<(usize, Pat, i64)> = Vec::new(); // top-level sets on :no-merge functions
        let mut prev_nm_rows: Vec<(usize, u32, i64)> = Vec::new(); // rows of :no-merge functions before the command
        let mut subsumed: Vec<(usize, V, String)> = Vec::new(); // top-level subsumes (C13 twin): (table, key, text)
        let mut failed_cmds = 0usize;
        let mut prev_sizes: Option<Vec<usize>> = None;
        for (k, c) in p.cmds.iter().enumerate() {
            let ctext = p.cmd_text(c);
            *cmd_hist
                .entry(
                    match c {
                        Cmd::Act(Action::Expr(_)) => "insert",
                        Cmd::Act(Action::Union(..)) => "union",
                        Cmd::Act(Action::Set(..)) => "set",
                        Cmd::Act(Action::Subsume(..)) => "subsume",
                        Cmd::Act(Action::Delete(..)) => "delete",
                        Cmd::Act(Action::Panic) => "panic",
                        Cmd::Rule(_) => "rule",
                        Cmd::Run(_) => "run",
                        Cmd::Raw(_) => "fault",
                    }
                    .to_string(),
                )
                .or_insert(0) += 1;
            // key of a row about to be deleted, evaluated on the state before the command
            let mut pre_delete_key: Option<V> = None;
            if let Cmd::Act(Action::Delete(_, args)) = c {
                if let Ok(dpre) = dump(&eg, p) {
                    pre_delete_key = Dump::eval(&dpre.index(), &args[0]);
                }
            }
            let (res, panicked) = step(&mut eg, &ctext);
            let ok = res.is_ok();
            if let Err(e) = &res {
                failed_cmds += 1;
                *err_hist.entry(if panicked { "PANIC".into() } else { classify_error(e) }).or_insert(0) += 1;
                if !matches!(c, Cmd::Raw(_)) && err_samples.len() < 6 {
                    err_samples.push(format!("{} => {}", ctext, e.chars().take(160).collect::<String>()));
                }
                if panicked {
                    viols.push(Viol {
                        what: format!("engine panicked on command {k}: {}", e.chars().take(200).collect::<String>()),
                        key: "engine-panic".into(),
                        program: text.clone(),
                        at: k,
                    });
                    break;
                }
                if !matches!(c, Cmd::Raw(_)) {
                    // a generated monotone command failed: nothing to compare with the model any more
                    model_ok = false;
                }
                // a command that fails at run time may have been partially applied (e.g. the union
                // that creates a :no-merge conflict is performed before the error is raised): the
                // history of "unions performed" is no longer known exactly, so the independent
                // congruence-closure and merge-fold oracles stop here (the invariant twins go on)
                rule_free = false;
            }
            if matches!(c, Cmd::Raw(_)) {
                model_ok = false;
                rule_free = false;
            }
            if matches!(c, Cmd::Rule(_)) {
                rule_free = false;
            }
            // The model instantiates rule actions through witness TERMS; after a delete a witness
            // term may mention a deleted row, so re-adding it would resurrect the row, which the
            // engine (working on ids) does not do. Deletion is outside the monotone fragment: stop
            // comparing with the model at the first rule run after a delete (the engine-side
            // predicates keep running).
            if matches!(c, Cmd::Run(_)) && any_delete && !rule_free {
                model_ok = false;
            }
            // ---- known answers attached to the program by the generator (C05 batch mode: the fold
            //      of every value written to one key within one iteration) ----
            for (at, fact) in &p.expect {
                if *at == k && ok {
                    let (rc, pc) = step(&mut eg, &format!("(check {fact})"));
                    if rc.is_err() || pc {
                        viols.push(Viol {
                            what: format!("after command {k} `{}`: (check {fact}) fails, but {fact} is the merge of all values written to that key within this iteration", ctext.replace('\n', " ")),
                            key: "C05-batch-fold".into(),
                            program: text.clone(),
                            at: k,
                        });
                    }
                }
            }
            let d = match dump(&eg, p) {
                Ok(d) => d,
                Err(e) => {
                    viols.push(Viol { what: format!("dump failed after command {k}: {e}"), key: "dump-failed".into(), program: text.clone(), at: k });
                    break;
                }
            };
            // ---- C04 twin, after EVERY command (also failed ones) ----
            twin_evals += 1;
            if let Some(msg) = d.invariant(&eg, p) {
                viols.push(Viol {
                    what: format!("after command {k} `{}` ({}): {msg}", ctext.replace('\n', " "), if ok { "ok" } else { "failed" }),
                    key: if !ok && ctext.contains("panic") || ctext.contains("(/ 1 0)") {
                        "F3-failed-rule-skips-rebuild".into()
                    } else {
                        "C04-invariant".into()
                    },
                    program: text.clone(),
                    at: k,
                });
                break;
            }
            // ---- C04: the serialised e-graph and the read API describe the same rows ----
            if prop == "C04" {
                let ser = eg.serialize(egglog::SerializeConfig::default());
                let mut per_op: BTreeMap<String, usize> = BTreeMap::new();
                let mut ser_classes: HashSet<String> = HashSet::new();
                for (_id, node) in ser.egraph.nodes.iter() {
                    *per_op.entry(node.op.clone()).or_insert(0) += 1;
                    if p.decls.iter().any(|dd| dd.kind == Kind::Ctor && dd.name == node.op) {
                        ser_classes.insert(format!("{}", node.eclass));
                    }
                }
                let mut dump_classes: HashSet<V> = HashSet::new();
                let mut bad: Option<String> = None;
                for (f, dd) in p.decls.iter().enumerate() {
                    let n_ser = per_op.get(&dd.name).copied().unwrap_or(0);
                    if n_ser != d.tables[f].len() {
                        bad = Some(format!("serialize has {} nodes for {} but the read API has {} rows", n_ser, dd.name, d.tables[f].len()));
                    }
                    if dd.kind == Kind::Ctor {
                        for r in &d.tables[f] {
                            dump_classes.insert(r.ret.clone());
                        }
                    }
                }
                if bad.is_none() && ser_classes.len() != dump_classes.len() {
                    bad = Some(format!("serialize has {} e-classes of constructor nodes, the read API {}", ser_classes.len(), dump_classes.len()));
                }
                if let (Some(msg), true) = (bad, ser.is_complete()) {
                    viols.push(Viol { what: format!("after command {k} `{}`: {msg}", ctext.replace('\n', " ")), key: "C04-serialize-disagrees".into(), program: text.clone(), at: k });
                    break;
                }
            }
            let ob = d.observe(&probes, &iprobes);
            if let Some(en) = eg_naive.as_mut() {
                let (rn, pn) = step(en, &ctext);
                let same_outcome = rn.is_ok() == ok && !pn;
                let obn = dump(en, p).map(|dn| dn.observe(&probes, &iprobes));
                match obn {
                    Ok(obn) if same_outcome && obn == ob => {}
                    Ok(obn) => {
                        viols.push(Viol {
                            what: format!(
                                "after command {k} `{}`: the reference engine and the {alt_name} engine differ: reference {} sizes {:?} subs {:?} ints {:?} classes {:?}; {alt_name} {} sizes {:?} subs {:?} ints {:?} classes {:?}",
                                ctext.replace('\n', " "),
                                if ok { "ok" } else { "failed" }, ob.sizes, ob.subs, ob.ints, ob.classes,
                                if rn.is_ok() { "ok" } else { "failed" }, obn.sizes, obn.subs, obn.ints, obn.classes
                            ),
                            key: alt_key.into(),
                            program: text.clone(),
                            at: k,
                        });
                        break;
                    }
                    Err(e) => {
                        viols.push(Viol { what: format!("naive engine dump failed: {e}"), key: "dump-failed".into(), program: text.clone(), at: k });
                        break;
                    }
                }
            }
            // ---- C01: (check ..) and extraction as independent observers of equality ----
            if prop == "C01" && ok {
                let mut rr = Rng::for_case(o.seed ^ 0xC01, (ci * 100 + k) as u64);
                let repr: Vec<usize> = (0..probes.len()).filter(|i| ob.classes[*i] >= 0).collect();
                for _ in 0..4 {
                    if repr.len() < 2 {
                        break;
                    }
                    let (a, b) = (*rr.pick(&repr), *rr.pick(&repr));
                    let (res, pan) = step(&mut eg, &format!("(check (= {} {}))", p.pat_text(&probes[a]), p.pat_text(&probes[b])));
                    let same = ob.classes[a] == ob.classes[b];
                    if pan || res.is_ok() != same {
                        viols.push(Viol {
                            what: format!("after command {k}: (check (= {} {})) {} but the table dump puts them in {} e-class",
                                p.pat_text(&probes[a]), p.pat_text(&probes[b]), if res.is_ok() { "succeeds" } else { "fails" }, if same { "the same" } else { "different" }),
                            key: "C01-check-disagrees-with-tables".into(), program: text.clone(), at: k });
                        break;
                    }
                }
                if let Some(&a) = repr.first() {
                    // extraction lands in the class of the term it was asked for
                    let a = if repr.len() > 1 { *rr.pick(&repr) } else { a };
                    let (res, _) = step(&mut eg, &format!("(extract {})", p.pat_text(&probes[a])));
                    if let Ok(outs) = res {
                        for out in outs {
                            if let egglog::CommandOutput::ExtractBest(dag, _c, t) = out {
                                let txt = dag.to_string(t);
                                // evaluate the printed term through (check (= term probe))
                                let (r2, _) = step(&mut eg, &format!("(check (= {} {}))", txt, p.pat_text(&probes[a])));
                                if r2.is_err() {
                                    viols.push(Viol {
                                        what: format!("after command {k}: (extract {}) returned {} which (check ..) does not place in the same class", p.pat_text(&probes[a]), txt),
                                        key: "C01-extract-outside-class".into(), program: text.clone(), at: k });
                                }
                            }
                        }
                    }
                }
            }
            // ---- C13: extraction never returns a term built on a subsumed row ----
            if prop == "C13" && ok {
                let mut rr = Rng::for_case(o.seed ^ 0xC13, (ci * 100 + k) as u64);
                let repr: Vec<usize> = (0..probes.len()).filter(|i| ob.classes[*i] >= 0).collect();
                for _ in 0..3 {
                    if repr.is_empty() {
                        break;
                    }
                    let a = *rr.pick(&repr);
                    let (res, pan) = step(&mut eg, &format!("(extract {})", p.pat_text(&probes[a])));
                    if pan {
                        viols.push(Viol { what: format!("after command {k}: (extract {}) panicked", p.pat_text(&probes[a])), key: "C13-extract-panic".into(), program: text.clone(), at: k });
                        break;
                    }
                    if let Ok(outs) = res {
                        for out in outs {
                            if let egglog::CommandOutput::ExtractBest(dag, _c, t) = out {
                                let txt = dag.to_string(t);
                                if let Some(tp) = parse_term(p, &txt) {
                                    // the dump `d` was taken before the extract; extraction does not change rows
                                    if let Err(why) = d.eval_visible(p, &tp) {
                                        viols.push(Viol {
                                            what: format!("after command {k}: (extract {}) returned {txt}: {why}", p.pat_text(&probes[a])),
                                            key: "C13-extracted-subsumed".into(), program: text.clone(), at: k });
                                    }
                                }
                            }
                        }
                    }
                }
            }
            if let Some(ps) = &prev_sizes {
                if ob.sizes.iter().zip(ps.iter()).any(|(a, b)| a < b) {
                    did_rebuild_merge = true;
                }
            }
            prev_sizes = Some(ob.sizes.clone());
            // ---- C05 :no-merge twin: a command that makes two different STORED values meet on one
            //      key (directly, or because a union makes their keys equal) must fail; it must
            //      never succeed silently keeping either. Judged on the rows stored before the
            //      command (not on the write history: a failed command may be partially applied).
            {
                if ok {
                    let mut bad: Option<String> = None;
                    'outer: for (i, (f1, k1, v1)) in prev_nm_rows.iter().enumerate() {
                        for (f2, k2, v2) in prev_nm_rows.iter().skip(i + 1) {
                            if f1 == f2 && v1 != v2 && canon_u32(&eg, *k1) == canon_u32(&eg, *k2) {
                                bad = Some(format!(
                                    "the keys of two rows of the :no-merge function {} holding different values ({v1} and {v2}) became equal",
                                    p.decls[*f1].name
                                ));
                                break 'outer;
                            }
                        }
                    }
                    if let (None, Cmd::Act(Action::Set(f, args, Pat::Int(z)))) = (&bad, c) {
                        if p.decls[*f].kind == Kind::Func(Merge::NoMerge) {
                            if let Some(V::Id(key)) = Dump::eval(&d.index(), &args[0]) {
                                for (f1, k1, v1) in prev_nm_rows.iter() {
                                    if f1 == f && canon_u32(&eg, *k1) == key && v1 != z {
                                        bad = Some(format!("the key already held {v1} and {z} was written to the :no-merge function {}", p.decls[*f].name));
                                    }
                                }
                            }
                        }
                    }
                    if let Some(msg) = bad {
                        viols.push(Viol {
                            what: format!("command {k} `{}` succeeded although {msg}: a value was silently kept", ctext.replace('\n', " ")),
                            key: "C05-nomerge-silent".into(),
                            program: text.clone(),
                            at: k,
                        });
                    }
                }
                prev_nm_rows.clear();
                for (f, decl) in p.decls.iter().enumerate() {
                    if decl.kind == Kind::Func(Merge::NoMerge) {
                        for r in &d.tables[f] {
                            if let (V::Id(key), V::Int(v)) = (&r.args[0], &r.ret) {
                                prev_nm_rows.push((f, *key, *v));
                            }
                        }
                    }
                }
            }
            // ---- twins that need the command to have succeeded ----
            if ok {
                match c {
                    Cmd::Act(Action::Expr(t)) => {
                        let i = closure.add(t);
                        present.push(i);
                    }
                    Cmd::Act(Action::Union(a, b)) => {
                        let (i, j) = (closure.add(a), closure.add(b));
                        present.push(i);
                        present.push(j);
                        closure.merge(i, j);
                        did_union = true;
                    }
                    Cmd::Act(Action::Set(f, args, v)) => {
                        for a in args {
                            let i = closure.add(a);
                            present.push(i);
                        }
                        if let (Pat::Int(z), Kind::Func(m)) = (v, &p.decls[*f].kind) {
                            if *m == Merge::NoMerge {
                                nm_writes.push((*f, args[0].clone(), *z));
                            } else {
                                writes.push((*f, args[0].clone(), *z));
                            }
                        }
                    }
                    Cmd::Act(Action::Subsume(f, args)) => {
                        let t = Pat::App(*f, args.clone());
                        let i = closure.add(&t);
                        present.push(i);
                        let ix = d.index();
                        if let Some(key) = Dump::eval(&ix, &args[0]) {
                            subsumed.push((*f, key, p.pat_text(&t)));
                        }
                    }
                    Cmd::Act(Action::Delete(f, args)) => {
                        any_delete = true;
                        for a in args {
                            let i = closure.add(a);
                            present.push(i);
                        }
                        // the deleted key is no longer tracked as subsumed
                        // (the delete ran on the state BEFORE this dump; its key was evaluated then)
                        if let Some(key) = pre_delete_key.take() {
                            subsumed.retain(|(g, a, _)| !(g == f && *a == key));
                        }
                    }
                    _ => {}
                }
                // C01 twin: rule-free, delete-free sessions against the independent closure
                if rule_free && !any_delete && (prop == "C01" || prop == "C04" || prop == "C13" || prop == "C05") {
                    for pr in &probes {
                        closure.add(pr);
                    }
                    closure.close();
                    let pres_cls: HashSet<usize> = present.iter().map(|i| closure.cls[*i]).collect();
                    // represented = all subterms (incl. itself) are CC-equal to a present term
                    fn represented(c: &Closure, pres: &HashSet<usize>, present_sub: &HashSet<usize>, p: &Pat) -> bool {
                        let i = c.ix[p];
                        let _ = present_sub;
                        pres.contains(&c.cls[i])
                    }
                    // present terms are subterm-closed: collect classes of all subterms of present terms
                    let mut pres_all: HashSet<usize> = pres_cls.clone();
                    let mut stack: Vec<Pat> = present.iter().map(|i| closure.terms[*i].clone()).collect();
                    while let Some(t) = stack.pop() {
                        pres_all.insert(closure.cls[closure.ix[&t]]);
                        if let Pat::App(_, args) = &t {
                            for a in args {
                                stack.push(a.clone());
                            }
                        }
                    }
                    let dummy = HashSet::new();
                    for (a, pa) in probes.iter().enumerate() {
                        let ra = represented(&closure, &pres_all, &dummy, pa);
                        let ia = ob.classes[a] >= 0;
                        if ra != ia {
                            viols.push(Viol {
                                what: format!(
                                    "after command {k}: term {} is {} by the engine but {} by congruence closure of the asserted unions",
                                    p.pat_text(pa),
                                    if ia { "represented" } else { "absent" },
                                    if ra { "represented" } else { "absent" }
                                ),
                                key: "C01-representation".into(),
                                program: text.clone(),
                                at: k,
                            });
                            break;
                        }
                        if !ra {
                            continue;
                        }
                        for (b, pb) in probes.iter().enumerate().skip(a + 1) {
                            if ob.classes[b] < 0 {
                                continue;
                            }
                            let eq_impl = ob.classes[a] == ob.classes[b];
                            let eq_cc = closure.cls[closure.ix[pa]] == closure.cls[closure.ix[pb]];
                            if eq_impl != eq_cc {
                                viols.push(Viol {
                                    what: format!(
                                        "after command {k}: {} and {} are {} by the engine but {} by congruence closure of the asserted unions ({})",
                                        p.pat_text(pa),
                                        p.pat_text(pb),
                                        if eq_impl { "equal" } else { "different" },
                                        if eq_cc { "equal" } else { "different" },
                                        if eq_impl { "invented equality" } else { "missed equality" }
                                    ),
                                    key: if eq_impl { "C01-invented".into() } else { "C01-missed".into() },
                                    program: text.clone(),
                                    at: k,
                                });
                                break;
                            }
                        }
                        if viols.last().map(|v| v.at == k && v.program == text).unwrap_or(false) {
                            break;
                        }
                    }
                }
                // C05 twin: rule-free sessions: stored value = fold of the merge over all writes
                // to keys that are now equal
                if rule_free && !any_delete {
                    let ix = d.index();
                    for (f, decl) in p.decls.iter().enumerate() {
                        let m = match &decl.kind {
                            Kind::Func(m) if *m != Merge::NoMerge => m.clone(),
                            _ => continue,
                        };
                        for row in &d.tables[f] {
                            let mut acc: Option<i64> = None;
                            for (g, key, z) in &writes {
                                if *g == f && Dump::eval(&ix, key).as_ref() == Some(&row.args[0]) {
                                    acc = Some(match (acc, &m) {
                                        (None, _) => *z,
                                        (Some(a), Merge::Min) => a.min(*z),
                                        (Some(a), Merge::Or) => a | *z,
                                        (Some(a), Merge::And) => a & *z,
                                        (Some(a), _) => a.max(*z),
                                    });
                                }
                            }
                            if let (Some(want), V::Int(got)) = (acc, &row.ret) {
                                if want != *got {
                                    viols.push(Viol {
                                        what: format!(
                                            "after command {k}: {}({:?}) = {got} but the merge of all values written to that key is {want}",
                                            decl.name, row.args
                                        ),
                                        key: "C05-merge-fold".into(),
                                        program: text.clone(),
                                        at: k,
                                    });
                                }
                            }
                        }
                    }
                }
                // C13 twin: a subsumed tuple stays subsumed until deleted
                {
                    // keys move under rebuild: re-canonicalise the tracked keys
                    for (_, key, _) in subsumed.iter_mut() {
                        if let V::Id(i) = key {
                            *i = canon_u32(&eg, *i);
                        }
                    }
                    for (f, key, a) in &subsumed {
                        {
                            match d.tables[*f].iter().find(|r| r.args[0] == *key) {
                                Some(r) if r.sub => {}
                                Some(_) => viols.push(Viol {
                                    what: format!(
                                        "after command {k}: row ({} {}) was subsumed earlier and not deleted since, but is no longer marked subsumed",
                                        p.decls[*f].name,
                                        a
                                    ),
                                    key: "C13-unsubsumed".into(),
                                    program: text.clone(),
                                    at: k,
                                }),
                                None => viols.push(Viol {
                                    what: format!(
                                        "after command {k}: subsumed row ({} {}) disappeared without a delete",
                                        p.decls[*f].name,
                                        a
                                    ),
                                    key: "C13-vanished".into(),
                                    program: text.clone(),
                                    at: k,
                                }),
                            }
                        }
                    }
                }
            }
            if model_ok {
                if let Some(ct) = Program::cmd_coq(c) {
                    model_cmds.push(ct);
                    expected.push(ob);
                }
            }
            if viols.last().map(|v| v.program == text).unwrap_or(false) {
                break;
            }
        }
        if let Some(en) = eg_naive.as_mut() {
            if !viols.last().map(|v| v.program == text).unwrap_or(false) {
                if let Ok(d) = dump(&eg, p) {
                    let ix = d.index();
                    let mut n = 0;
                    for pr in probes.iter() {
                        if n >= 3 {
                            break;
                        }
                        if Dump::eval(&ix, pr).is_none() {
                            continue;
                        }
                        n += 1;
                        let cmd = format!("(extract {})", p.pat_text(pr));
                        let cost = |r: &Result<Vec<egglog::CommandOutput>, String>| -> Option<String> {
                            match r {
                                Ok(outs) => outs.iter().find_map(|o| match o {
                                    egglog::CommandOutput::ExtractBest(_, c, _) => Some(format!("{c}")),
                                    _ => None,
                                }),
                                Err(e) => Some(format!("error:{}", classify_error(e))),
                            }
                        };
                        let (ra, _) = step(&mut eg, &cmd);
                        let (rb, _) = step(en, &cmd);
                        if cost(&ra) != cost(&rb) {
                            viols.push(Viol {
                                what: format!("extraction cost of {} differs: reference {:?}, {alt_name} {:?}", p.pat_text(pr), cost(&ra), cost(&rb)),
                                key: alt_key.into(),
                                program: text.clone(),
                                at: p.cmds.len(),
                            });
                        }
                    }
                }
            }
        }
        let nt = match bias {
            Bias::C04 => did_rebuild_merge || failed_cmds > 0,
            Bias::C05 => writes.len() >= 2,
            Bias::C13 => !subsumed.is_empty(),
            _ => did_union && did_rebuild_merge,
        };
        if fresh && nt {
            nontrivial += 1;
        }
        *size_hist.entry(format!("cmds_{:02}", p.cmds.len())).or_insert(0) += 1;
        if samples.len() < 3 && nt {
            samples.push(serde_json::json!({"tag": tag, "program": text, "observations_after_each_command": expected.len()}));
        }
        // ---- case for the Gallina model ----
        if !model_cmds.is_empty() {
            model_cases += 1;
            w.push(format!(
                "(mkCase {} {} {} {} {})",
                p.sg_coq(),
                format!("[{}]", model_cmds.join("; ")),
                coq_list(&probes, Program::term_coq),
                coq_list(&iprobes, Program::term_coq),
                coq_list(&expected, |o| format!("({})", o.coq()))
            ));
        } else {
            // keep indices aligned with case numbers
            w.push(format!("(mkCase {} [] [] [] [])", p.sg_coq()));
        }
        let _ = ci;
    }
    w.flush();
    let vj: Vec<serde_json::Value> = viols
        .iter()
        .take(25)
        .map(|v| {
            serde_json::json!({"what": v.what, "key": v.key, "input": {"program": v.program, "failing_command_index": v.at},
                               "seed": o.seed, "prop": prop})
        })
        .collect();
    let rep = serde_json::json!({
        "sub": format!("egg/{prop}/threads={threads}"),
        "cases": programs.len(),
        "shards": w.shards,
        "distinct_nontrivial": nontrivial,
        "rule": "seeded random egglog sessions (datatype with nullary/unary/binary constructors, lattice functions, a relation; inserts, unions, sets, rules, runs, subsume/delete, fault injection depending on the property bias), observed after every command; non-trivial iff (C01/C03) a union was executed and a congruence-induced merge shrank a table, (C04) a rebuild merged rows or a command failed at run time, (C05) >= 2 writes to functions, (C13) a row was subsumed; distinct by program text",
        "samples": samples,
        "violations": vj,
        "cmd_hist": cmd_hist,
        "err_hist": err_hist,
        "size_hist": size_hist,
        "err_samples": err_samples,
        "extra_coverage": {"invariant_twin_evaluations": twin_evals, "model_cases": model_cases, "raw_lockstep_programs": raw_cases}
    });
    std::fs::write(o.out.join("impl_report.json"), serde_json::to_string(&rep).unwrap()).unwrap();
}
