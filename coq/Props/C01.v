(** C01 — Equality is exactly the congruence closure of what was asserted.
    This file only pins statements and prints their assumptions.

    Model: Egg/Model.v (term-level commands over constructor tables; the union-find is the one
    translated from union-find/src/lib.rs, the merge value the translated MergeFn::UnionId arm).
    Scope: signatures whose tables are all constructors. Termination/no-panic and soundness hold
    for EVERY command list; completeness for the well-formed ones ([cmds_okb], executable:
    function ids in range, unions between constructor terms — i.e. well-typed programs). *)
From Coq Require Import List Arith PeanoNat ZArith.
Import ListNotations.
Require Import Verif.Base.Res Verif.gen.UFSeq Verif.gen.MergeArms Verif.UF.Seq
  Verif.Egg.Model Verif.Egg.CmdOk Verif.Egg.CCDefs Verif.Egg.CC.

(** [CC U] is the least relation containing the asserted pairs [U] that is reflexive, symmetric,
    transitive and a congruence for every function symbol (this pins the meaning of [CC]). *)
Theorem c01_CC_is_least_congruence : forall U,
  (forall a b, In (a, b) U -> CC U a b) /\
  (forall t, CC U t t) /\
  (forall a b, CC U a b -> CC U b a) /\
  (forall a b c, CC U a b -> CC U b c -> CC U a c) /\
  (forall f l1 l2, Forall2 (CC U) l1 l2 -> CC U (T f l1) (T f l2)) /\
  (forall P : term -> term -> Prop,
     (forall a b, In (a, b) U -> P a b) -> (forall t, P t t) ->
     (forall a b, P a b -> P b a) -> (forall a b c, P a b -> P b c -> P a c) ->
     (forall f l1 l2, Forall2 P l1 l2 -> P (T f l1) (T f l2)) ->
     forall a b, CC U a b -> P a b).
Proof.
  intros U. repeat split.
  - exact (cc_ax U). - exact (cc_refl U). - exact (cc_sym U). - exact (cc_trans U).
  - exact (cc_cong U).
  - intros P H1 H2 H3 H4 H5. apply CC_ind'; eauto.
Qed.
Print Assumptions c01_CC_is_least_congruence.

(** For EVERY command list run from the empty database: the run returns [Ok] — no panic, and the
    stated fuel [rebuild_fuel] suffices, i.e. the rebuild loop terminates however long the chain
    of congruences is. *)
Theorem c01_run_ok : forall n sg cs,
  Forall (fun m => m = MUnionId) sg ->
  exists s, run sg (init n) cs = Ok s.
Proof. exact CC.c01_run_ok. Qed.
Print Assumptions c01_run_ok.

(** No equality is invented: after ANY command history, two ground terms that evaluate to the
    same value are in the congruence closure of the unions performed so far. *)
Theorem c01_sound : forall n sg cs s t1 t2 v,
  Forall (fun m => m = MUnionId) sg ->
  run sg (init n) cs = Ok s ->
  eval s t1 = Some v -> eval s t2 = Some v -> CC (unions_of cs) t1 t2.
Proof. exact CC.c01_sound. Qed.
Print Assumptions c01_sound.

(** None that follows is missed once the command has returned: two represented ground terms that
    are in the congruence closure of the unions performed evaluate to the same value. *)
Theorem c01_complete : forall n sg cs s t1 t2 v1 v2,
  Forall (fun m => m = MUnionId) sg -> cmds_okb n cs = true ->
  run sg (init n) cs = Ok s ->
  CC (unions_of cs) t1 t2 -> eval s t1 = Some v1 -> eval s t2 = Some v2 -> v1 = v2.
Proof. exact CC.c01_complete. Qed.
Print Assumptions c01_complete.

(** The property as an equivalence: two represented ground terms are reported equal (evaluate to
    the same e-class) if and only if their equality follows from the unions performed so far by
    reflexivity, symmetry, transitivity and congruence. *)
Theorem c01_iff : forall n sg cs s t1 t2 v1 v2,
  Forall (fun m => m = MUnionId) sg -> cmds_okb n cs = true ->
  run sg (init n) cs = Ok s -> eval s t1 = Some v1 -> eval s t2 = Some v2 ->
  (v1 = v2 <-> CC (unions_of cs) t1 t2).
Proof. exact CC.c01_iff. Qed.
Print Assumptions c01_iff.

(** Stronger form: congruent terms have the same evaluation, defined or not. *)
Theorem c01_complete_opt : forall n sg cs s t1 t2,
  Forall (fun m => m = MUnionId) sg -> cmds_okb n cs = true ->
  run sg (init n) cs = Ok s ->
  CC (unions_of cs) t1 t2 -> eval s t1 = eval s t2.
Proof. exact CC.c01_complete_opt. Qed.
Print Assumptions c01_complete_opt.

(** Every asserted pair is represented and both sides evaluate to one class. *)
Theorem c01_unions_visible : forall n sg cs s a b,
  Forall (fun m => m = MUnionId) sg -> cmds_okb n cs = true ->
  run sg (init n) cs = Ok s -> In (a, b) (unions_of cs) ->
  exists v, eval s a = Some v /\ eval s b = Some v.
Proof. exact CC.c01_unions_visible. Qed.
Print Assumptions c01_unions_visible.

(** "THIS MUST MATCH THE UNION-FIND IMPLEMENTATION" (egglog-bridge MergeFn::UnionId) as a theorem
    over the two translated items: the value kept in the table on a collision is min(cur,new), and
    the translated [union] of two distinct roots reports exactly that id as the parent and makes it
    the root of both. *)
Theorem c01_unionid_agrees :
  (forall a b, merge_unionid a b = Nat.min a b) /\
  (forall p a b fuel, Inv p -> Nat.max (length p) (S (Nat.max a b)) <= fuel ->
     par p a = a -> par p b = b -> a <> b ->
     exists p', union fuel p a b = Ok (p', (merge_unionid a b, Nat.max a b)) /\
       root_of p' a (merge_unionid a b) /\ root_of p' b (merge_unionid a b)).
Proof. exact CC.c01_unionid_agrees. Qed.
Print Assumptions c01_unionid_agrees.

(** non-vacuity: a congruence chain f^3(a) ~ f^3(b) that needs three rebuild passes; an unrelated
    constant stays apart and an absent term stays absent *)
Example c01_example_chain :
  cmds_okb 4 Ex.cs1 = true /\
  Ex.evals_after Ex.cs1 [Ex.f (Ex.f (Ex.f Ex.a)); Ex.f (Ex.f (Ex.f Ex.b)); Ex.a; Ex.b; Ex.c; Ex.f Ex.c]
  = Ok [Some (VId 3); Some (VId 3); Some (VId 0); Some (VId 0); Some (VId 8); None] /\
  Ex.evals_after (firstn 3 Ex.cs1) [Ex.f (Ex.f (Ex.f Ex.a)); Ex.f (Ex.f (Ex.f Ex.b))]
  = Ok [Some (VId 3); Some (VId 7)].
Proof. vm_compute. repeat split. Qed.

(** the rebuild loop really iterates: 3 passes are not enough on the chain, 4 are, and
    [rebuild_fuel] = 11 is what the model supplies *)
Example c01_example_passes :
  bind (run Ex.sg (init 4) (firstn 3 Ex.cs1)) (fun s =>
  bind (uf_union (uf s) 0 4) (fun p' =>
  let s3 := mkSt p' (tabs s) (wit s) in
  Ok (match rebuild 3 Ex.sg s3 with OutOfFuel => true | _ => false end,
      match rebuild 4 Ex.sg s3 with Ok _ => true | _ => false end,
      rebuild_fuel s3)))
  = Ok (true, true, 11).
Proof. exact CC.ex_passes. Qed.

(** the well-formedness hypothesis is necessary for completeness (function id out of range) *)
Example c01_fn_bound_needed :
  let cs := [CUnion (T 5 []) (T 0 []); CUnion (T 5 []) (T 1 [])] in
  exists s, run (repeat MUnionId 2) (init 2) cs = Ok s /\
    CC (unions_of cs) (T 0 []) (T 1 []) /\
    eval s (T 0 []) = Some (VId 0) /\ eval s (T 1 []) = Some (VId 2).
Proof. exact CC.c01_fn_bound_needed. Qed.

(** ... and so is the restriction of unions to constructor terms (an ill-sorted union of two
    integer literals is ignored by [exec] but recorded by [unions_of]) *)
Example c01_eqsort_needed :
  let cs := [CUnion (TI 1) (TI 2)] in
  exists s, run [] (init 0) cs = Ok s /\
    CC (unions_of cs) (TI 1) (TI 2) /\ eval s (TI 1) = Some (VInt 1) /\ eval s (TI 2) = Some (VInt 2).
Proof. exact CC.c01_eqsort_needed. Qed.

(* ================================================================== *)
(** * The rule interpreter ([Egg/Rules.v]) is a term-level history

    [prog_ctor_okb n sg ks] (executable): every table of [sg] is a constructor ([MUnionId]); every
    top-level action and every rule head is [AExpr] or [AUnion] over function symbols [< n]
    (rule bodies are unrestricted). [ptrace] = the states after each command up to the first
    error (what [prun] observes); [pfinal] = the state in which the program ends, returned
    together with the error if there is one; [visited] = all of these. *)
Require Import Verif.Egg.Rules Verif.Egg.RulesProofs.

(** [prun] observes exactly the states of [ptrace] *)
Theorem c01_prun_observes_ptrace : forall sg probes iprobes ks ps,
  prun sg ps ks probes iprobes = map (fun ps' => observe (fst ps') probes iprobes) (ptrace sg ps ks).
Proof. exact RulesProofs.prun_ptrace. Qed.
Print Assumptions c01_prun_observes_ptrace.

(** Every state a constructor-fragment program passes through — after each command, and the
    state at the point where an ungrounded action / panic stops it — is the result of a
    well-formed term-level history run from the empty database. *)
Theorem c01_rules_history : forall n sg ks, prog_ctor_okb n sg ks = true ->
  Forall (fun ps => exists cs, cmds_okb n cs = true /\ run sg (init n) cs = Ok (fst ps))
         (ptrace sg (init n, []) ks) /\
  (exists cs, cmds_okb n cs = true /\ run sg (init n) cs = Ok (fst (fst (pfinal sg (init n, []) ks)))).
Proof. exact RulesProofs.rules_history. Qed.
Print Assumptions c01_rules_history.

(** ... and the histories are nested: each program command (an action = one [exec]; a [(run n)] =
    iterations, each an [xrun] of issued commands) extends the previous state by a well-formed
    list of term-level commands. *)
Theorem c01_rules_stepwise : forall n sg ks, prog_ctor_okb n sg ks = true ->
  chain (fun ps ps' => exists cs, cmds_okb n cs = true /\ run sg (fst ps) cs = Ok (fst ps'))
        (init n, []) (ptrace sg (init n, []) ks).
Proof. exact RulesProofs.rules_stepwise. Qed.
Print Assumptions c01_rules_stepwise.

(** such a program can only stop with a user-visible error: 1 = panic action, 3 = ungrounded
    action; never a merge conflict, never the model's own fuel/panic code *)
Theorem c01_rules_errors : forall n sg ks, prog_ctor_okb n sg ks = true ->
  let e := snd (pfinal sg (init n, []) ks) in e = None \/ e = Some 1 \/ e = Some 3.
Proof. exact RulesProofs.rules_errors. Qed.
Print Assumptions c01_rules_errors.

(** C01 after every command of every constructor-fragment program: in every visited state two
    represented ground terms have the same value iff they are in the congruence closure of the
    unions of the history that produced the state. *)
Theorem c01_rules_iff : forall n sg ks s, prog_ctor_okb n sg ks = true -> visited sg n ks s ->
  exists cs, cmds_okb n cs = true /\ run sg (init n) cs = Ok s /\
    forall t1 t2 v1 v2, eval s t1 = Some v1 -> eval s t2 = Some v2 ->
      (v1 = v2 <-> CC (unions_of cs) t1 t2).
Proof. exact RulesProofs.rules_iff_visited. Qed.
Print Assumptions c01_rules_iff.

Theorem c01_rules_sound : forall n sg ks s, prog_ctor_okb n sg ks = true -> visited sg n ks s ->
  exists cs, cmds_okb n cs = true /\ run sg (init n) cs = Ok s /\
    forall t1 t2 v, eval s t1 = Some v -> eval s t2 = Some v -> CC (unions_of cs) t1 t2.
Proof. exact RulesProofs.rules_sound_visited. Qed.
Print Assumptions c01_rules_sound.

Theorem c01_rules_complete : forall n sg ks s, prog_ctor_okb n sg ks = true -> visited sg n ks s ->
  exists cs, cmds_okb n cs = true /\ run sg (init n) cs = Ok s /\
    forall t1 t2 v1 v2, CC (unions_of cs) t1 t2 -> eval s t1 = Some v1 -> eval s t2 = Some v2 -> v1 = v2.
Proof. exact RulesProofs.rules_complete_visited. Qed.
Print Assumptions c01_rules_complete.

(** non-vacuity: a program with a rule that fires, a union, and an ungrounded action that stops
    it (5 states observed, error 3, final database as shown) *)
Example c01_rules_example :
  prog_ctor_okb 3 REx.sg1 REx.ks1 = true /\
  length (ptrace REx.sg1 (init 3, []) REx.ks1) = 5 /\
  snd (pfinal REx.sg1 (init 3, []) REx.ks1) = Some 3 /\
  REx.dump (fst (pfinal REx.sg1 (init 3, []) REx.ks1))
  = ([0; 0; 0; 2], [[([], VId 0, false)]; [([], VId 0, false)]; [([VId 0], VId 0, false)]]).
Proof. exact RulesProofs.rex_ctor. Qed.
