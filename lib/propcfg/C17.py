"""C17 configuration for bin/check."""

CFG = {
        "tier_a": ["UFSeq",
                   "UFConcFacts.uf_find_impl_fn", "UFConcFacts.uf_find_fn", "UFConcFacts.uf_merge_fn",
                   "UFConcFacts.uf_same_set_fn", "UFConcFacts.uf_orderings"],
        "model_targets": ["UF/Ops.vo", "UF/ConcModel.vo", "UF/AtomProg.vo"],
        "proof_targets": ["Props/C17.vo", "Props/C17c.vo"],
        "props_files": ["C17", "C17c"],
        "corr_is_violation": True,
        "harness": [{"bin": "h_uf", "prefix": "cases_uf"},
                    {"bin": "h_conc", "name": "h_conc_uf", "sub": "conc-uf", "extra": ["--only", "uf"],
                     "prefix": "cases_ufc", "timeout": 900}],
        "trusted": [
            "translator /verif/translator (Rust subset -> Gallina over Res; emitted gen/UFSeq.v is what the theorems are about)",
            "translator/src/x_ufconc.rs: compiles the bodies of find_impl / find / merge / same_set of "
            "union-find/src/concurrent/uf.rs (statement by statement: let/assignment, buf[i].load(), buf[i].cas(e,n), "
            "Self::find_impl(buf,x), while/loop/if/match-on-cas/continue/return, cmp::min/max; the cfg(egglog_verif) "
            "perturb hooks are skipped; anything else fails closed) into control-flow graphs gen/UFConcFacts.v "
            "(uf_prog) over the instruction type of coq/UF/AtomProg.v, whose interpreter (sequentially consistent, "
            "one atomic step = one load/CAS plus the local instructions up to the next one) is what the c17c_prog "
            "theorems are about",
        ],
        "theorem_backed": "concurrent union-find: the ATOMIC PROGRAMS of find_impl/find/merge/same_set are REGENERATED from uf.rs "
                          "(gen/UFConcFacts.v uf_prog); c17c_prog_start_is_model + c17c_prog_step_is_model: the hand-written "
                          "interleaving semantics (one step per load/CAS) is exactly the interpreter of the regenerated programs "
                          "(same parent array, same responses, corresponding program counters, never stuck); "
                          "c17c_prog_refines_model, c17c_prog_inv, c17c_prog_rep_min, c17c_prog_response_ok: for any number of "
                          "threads running the regenerated programs under any interleaving (sequentially consistent): "
                          "parent[x]<=x, partition = closure of the merges that returned, representative = least id, "
                          "linearization-point facts; c17c_prog_union_parent_stale_refuted: U1 reproduced on the regenerated "
                          "program; c17c_prog_orderings: load=Acquire, store=Release, cas=AcqRel/Acquire (regenerated from "
                          "atomic_int.rs, all three impls); c17c_prog_need: every operation demands capacity max(arguments)+1 "
                          "from Buffer::with_access. Hand model (c17c_inv, c17c_compress_preserves, c17c_link_effect, c17c_rep_min, "
                          "c17c_response_ok_partial, c17c_same_false_lin): as before; REFUTED with witness: union's returned "
                          "parent can be a stale non-root (c17c_union_parent_stale_refuted, c17c_linearizable_refuted). "
                          "Sequential UnionFind (translated from union-find/src/lib.rs): no panic, termination, same-root iff "
                          "connected, representative = least id, path halving preserves the partition, for all operation sequences",
        "link_only": "concurrent union-find on the real code: the memory model (the regenerated orderings are pinned as facts, "
                     "but the interpreter is sequentially consistent), Buffer growth under ReadOptimizedLock (with_access / "
                     "resize protocol; only the demanded capacity is regenerated), reset/deep_copy, real interleavings - stress "
                     "only (final-state correspondence with the translated sequential union-find + interval-based necessary "
                     "conditions of linearizability on timestamped histories)",
        "assumptions": [
            "ids are modelled as unbounded nat (u32/usize exhaustion not modelled)",
            "Vec indexing out of bounds is modelled as Panic and proved not to occur",
            "concurrent half: sequentially consistent memory; the parent array is unbounded (growth not modelled)",
        ],
    }
