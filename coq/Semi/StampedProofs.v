(** C03: the timestamp invariant [ts_inv] and the end-to-end equivalence of [iter_semi] and
    [iter_naive] over the stamped model ([Semi/Stamped.v]), for every program and every schedule.

    What the proof uses from the stamping discipline is ONE fact ([new_stamp_old]): with the
    regenerated flags, a row whose stamp is older than the clock of the command that produced the
    current database was in the previous database, identical, with that stamp. What it uses from
    the command semantics are the "idempotent re-application" hypotheses of the section
    ([H_idem], [H_stable]): a ground command that has been executed is a no-op, and no-ops stay
    no-ops when further commands of the fragment run. *)
From Coq Require Import List Arith ZArith Bool PeanoNat Lia.
Import ListNotations.
Require Import Verif.Base.Res Verif.Base.Cases Verif.gen.UFSeq Verif.gen.SourceFacts Verif.gen.SemiFacts.
Require Import Verif.Semi.Delta Verif.Egg.Model Verif.Egg.Rules Verif.Semi.Stamped.

(* ------------------------------------------------------------------ lists *)

Lemma incl_flat_map {A B} (g1 g2 : A -> list B) l1 l2 :
  incl l1 l2 -> (forall x, incl (g1 x) (g2 x)) -> incl (flat_map g1 l1) (flat_map g2 l2).
Proof.
  intros Hl Hg y Hy. apply in_flat_map in Hy. destruct Hy as [x [Hx Hy]].
  apply in_flat_map. exists x. split; [apply Hl, Hx|apply Hg, Hy].
Qed.

Lemma flat_map_ext_in' {A B} (f g : A -> list B) l :
  (forall x, In x l -> f x = g x) -> flat_map f l = flat_map g l.
Proof. induction l; simpl; intros H; auto. rewrite H by auto. f_equal. apply IHl. auto. Qed.

Lemma nth_map_seq {A} (F : nat -> A) d n f :
  nth f (map F (seq 0 n)) d = if f <? n then F f else d.
Proof.
  destruct (Nat.ltb_spec f n).
  - rewrite nth_indep with (d' := F 0) by (rewrite map_length, seq_length; auto).
    rewrite map_nth. rewrite seq_nth by auto. reflexivity.
  - apply nth_overflow. rewrite map_length, seq_length. auto.
Qed.

Lemma combine_map_self {A B} (g : A -> B) l : combine l (map g l) = map (fun a => (a, g a)) l.
Proof. induction l; simpl; congruence. Qed.

(* ------------------------------------------------------------------ equality tests *)

Lemma val_eqb_true a b : val_eqb a b = true <-> a = b.
Proof.
  destruct a, b; simpl; split; intros H; try discriminate; try congruence.
  - apply Nat.eqb_eq in H. congruence.
  - inversion H. apply Nat.eqb_refl.
  - apply Z.eqb_eq in H. congruence.
  - inversion H. apply Z.eqb_refl.
Qed.

Lemma vals_eqb_true : forall l1 l2, vals_eqb l1 l2 = true <-> l1 = l2.
Proof.
  induction l1 as [|a l1 IH]; destruct l2 as [|b l2]; simpl; split; intros H; try discriminate; auto.
  - apply andb_true_iff in H. destruct H as [H1 H2]. apply val_eqb_true in H1. apply IH in H2. congruence.
  - inversion H; subst. apply andb_true_iff. split; [apply val_eqb_true; auto|apply IH; auto].
Qed.

Lemma row_eqb_true a b : row_eqb a b = true -> a = b.
Proof.
  unfold row_eqb. intros H. apply andb_true_iff in H. destruct H as [H H3].
  apply andb_true_iff in H. destruct H as [H1 H2].
  apply vals_eqb_true in H1. apply val_eqb_true in H2. apply Bool.eqb_prop in H3.
  destruct a, b; simpl in *; congruence.
Qed.

Lemma env_eqb_true : forall e1 e2 : env, list_eqb bind_eqb e1 e2 = true <-> e1 = e2.
Proof.
  induction e1 as [|[x v] e1 IH]; destruct e2 as [|[y w] e2]; simpl; split; intros H; try discriminate; auto.
  - apply andb_true_iff in H. destruct H as [H1 H2]. unfold bind_eqb in H1. simpl in H1.
    apply andb_true_iff in H1. destruct H1 as [Hx Hv]. apply Nat.eqb_eq in Hx. apply val_eqb_true in Hv.
    apply IH in H2. congruence.
  - inversion H; subst. apply andb_true_iff. split; [|apply IH; auto].
    unfold bind_eqb. simpl. rewrite Nat.eqb_refl. simpl. apply val_eqb_true. auto.
Qed.

Lemma env_mem_true e l : env_mem e l = true <-> In e l.
Proof.
  unfold env_mem. rewrite existsb_exists. split.
  - intros [x [Hx H]]. apply env_eqb_true in H. subst. auto.
  - intros H. exists e. split; auto. apply env_eqb_true. auto.
Qed.

(* ------------------------------------------------------------------ matching is monotone in the tables *)

Lemma match_args_eq s : forall ps vs e, match_args s ps vs e =
  (fix match_args0 (ps : list pat) (vs : list val) (e : env) : list env :=
     match ps, vs with
     | [], [] => [e]
     | p :: ps', v :: vs' => flat_map (match_args0 ps' vs') (match_pat s p v e)
     | _, _ => []
     end) ps vs e.
Proof.
  induction ps as [|p tl IH]; intros [|v vs] e; try reflexivity.
  all: try (simpl; apply flat_map_ext_in'; intros e' _; apply IH).
Qed.

Lemma match_pat_PApp s f ps v e : match_pat s (PApp f ps) v e =
  flat_map (fun r => if rsub r then []
                     else if val_eqb (rret r) v then match_args s ps (rargs r) e else [])
           (get_tab (tabs s) f).
Proof.
  cbn [match_pat]. apply flat_map_ext_in'. intros r _. destruct (rsub r); auto.
  all: try (destruct (val_eqb (rret r) v); auto; symmetry; apply match_args_eq).
Qed.

Lemma pat_ind2 (P : pat -> Prop) :
  (forall x, P (PVar x)) -> (forall z, P (PInt z)) -> (forall a b, P (PAdd a b)) ->
  (forall f ps, Forall P ps -> P (PApp f ps)) -> forall p, P p.
Proof.
  intros HV HI HA HP. fix IH 1. intros [x|f ps|z|a b]; [apply HV| |apply HI|apply HA].
  apply HP. induction ps as [|q tl IHl]; constructor; [apply IH|exact IHl].
Qed.

Section Mono.
  Variables s1 s2 : state.
  Hypothesis Hsub : forall f, incl (get_tab (tabs s1) f) (get_tab (tabs s2) f).

  Lemma match_args_mono_F ps :
    Forall (fun p => forall v e, incl (match_pat s1 p v e) (match_pat s2 p v e)) ps ->
    forall vs e, incl (match_args s1 ps vs e) (match_args s2 ps vs e).
  Proof.
    induction 1 as [|p ps Hp _ IH]; intros [|v vs] e; cbn [match_args]; try apply incl_refl.
    apply incl_flat_map; [apply Hp|]. intros e'. apply IH.
  Qed.

  Lemma match_pat_mono : forall p v e, incl (match_pat s1 p v e) (match_pat s2 p v e).
  Proof.
    induction p as [x|z|a b|f ps IH] using pat_ind2; intros v e.
    - apply incl_refl.
    - apply incl_refl.
    - apply incl_refl.
    - rewrite !match_pat_PApp. apply incl_flat_map; [apply Hsub|]. intros r.
      destruct (rsub r); [apply incl_refl|]. destruct (val_eqb (rret r) v); [|apply incl_refl].
      apply match_args_mono_F. exact IH.
  Qed.

  Lemma match_args_mono ps vs e : incl (match_args s1 ps vs e) (match_args s2 ps vs e).
  Proof. apply match_args_mono_F. apply Forall_forall. intros p _. apply match_pat_mono. Qed.

  Lemma match_atom_mono x p e : incl (match_atom s1 x p e) (match_atom s2 x p e).
  Proof.
    destruct p as [y|f ps|z|a b]; try apply incl_refl.
    unfold match_atom. apply incl_flat_map; [apply Hsub|]. intros r.
    destruct (rsub r); [apply incl_refl|].
    apply incl_flat_map; [apply match_args_mono|]. intros e'. apply incl_refl.
  Qed.

  Lemma match_fact_mono f e : incl (match_fact s1 f e) (match_fact s2 f e).
  Proof. destruct f; cbn [match_fact]; try apply incl_refl; apply match_atom_mono. Qed.

  Lemma match_body_mono : forall fs es1 es2, incl es1 es2 ->
    incl (match_body s1 fs es1) (match_body s2 fs es2).
  Proof.
    induction fs as [|f fs IH]; intros es1 es2 H; cbn [match_body]; auto.
    apply IH. apply incl_flat_map; auto. intros e. apply match_fact_mono.
  Qed.
End Mono.

(* ------------------------------------------------------------------ stamps *)

Lemma is_old_lt mid x : is_old mid x = true <-> x < mid.
Proof. unfold is_old, semi_earlier, sat. apply Nat.ltb_lt. Qed.

Lemma in_filter_st pred t ts r :
  In r (filter_st pred t ts) <-> exists x, In (r, x) (combine t ts) /\ pred x = true.
Proof.
  unfold filter_st. rewrite in_map_iff. split.
  - intros [[r' x] [E H]]. simpl in E. subst. apply filter_In in H. simpl in H. exists x. exact H.
  - intros [x [H1 H2]]. exists (r, x). split; auto. apply filter_In. auto.
Qed.

Lemma get_tab_old mid s st f :
  get_tab (tabs (old_state mid s st)) f = filter_st (is_old mid) (get_tab (tabs s) f) (get_st st f).
Proof.
  unfold get_tab at 1. unfold old_state. cbn [tabs]. rewrite nth_map_seq.
  destruct (f <? length (tabs s)) eqn:E; auto. apply Nat.ltb_ge in E.
  unfold get_tab. rewrite (nth_overflow (tabs s)) by auto. reflexivity.
Qed.

Lemma old_sub_full mid s st f : incl (get_tab (tabs (old_state mid s st)) f) (get_tab (tabs s) f).
Proof.
  rewrite get_tab_old. intros r H. apply in_filter_st in H. destruct H as [x [H _]].
  eapply in_combine_l. exact H.
Qed.

Lemma get_st_restamp fl now p old ost new f :
  get_st (restamp fl now p old ost new) f
  = map (new_stamp fl now p (get_tab old f) (get_st ost f)) (get_tab new f).
Proof.
  unfold get_st at 1. unfold restamp. rewrite nth_map_seq.
  destruct (f <? length new) eqn:E; auto. apply Nat.ltb_ge in E.
  unfold get_tab at 2. rewrite (nth_overflow new) by auto. reflexivity.
Qed.

Lemma stamp_of_some t ts r x : stamp_of t ts r = Some x -> In (r, x) (combine t ts).
Proof.
  unfold stamp_of. destruct (List.find _ _) as [[r0 x0]|] eqn:E; simpl; [|discriminate].
  intros H. inversion H; subst. apply find_some in E. destruct E as [Hin Heq]. simpl in Heq.
  apply row_eqb_true in Heq. subst. exact Hin.
Qed.

(** THE stamping fact: with both flags on, a stamp older than the clock was inherited from the
    identical row of the previous table *)
Lemma new_stamp_old fl now p t ts r :
  fl_rebuild fl = true -> fl_merge fl = true ->
  new_stamp fl now p t ts r < now -> In (r, new_stamp fl now p t ts r) (combine t ts).
Proof.
  intros Hr Hm. unfold new_stamp. rewrite Hr, Hm.
  destruct (stamp_of t ts r) eqn:E.
  - intros _. apply stamp_of_some. exact E.
  - destruct (stale_src p t ts r); [lia|]. destruct (key_src t ts r); lia.
Qed.

Lemma src_flags_on : fl_rebuild src_flags = true /\ fl_merge src_flags = true.
Proof. split; reflexivity. Qed.

Section Restamp.
  Variable fl : flags.
  Hypothesis Hr : fl_rebuild fl = true.
  Hypothesis Hm : fl_merge fl = true.
  Variables (now : nat) (s s' : state) (st : stamps).
  Let st' := restamp fl now (uf s') (tabs s) st (tabs s').

  (** rows that are old w.r.t. a frontier not after the clock were old before the command *)
  Lemma old_state_shrinks mid f : mid <= now ->
    incl (get_tab (tabs (old_state mid s' st')) f) (get_tab (tabs (old_state mid s st)) f).
  Proof.
    intros Hle r H. rewrite get_tab_old in *. apply in_filter_st in H. destruct H as [x [Hin Hold]].
    apply in_filter_st. exists x. split; auto.
    unfold st' in Hin. rewrite get_st_restamp, combine_map_self in Hin.
    apply in_map_iff in Hin. destruct Hin as [r0 [E _]]. injection E as E1 E2. subst r0. subst x.
    apply is_old_lt in Hold. apply new_stamp_old; auto. lia.
  Qed.

  Lemma old_state_in_prev f : incl (get_tab (tabs (old_state now s' st')) f) (get_tab (tabs s) f).
  Proof.
    intros r H. apply (old_sub_full now s st f). apply old_state_shrinks; auto.
  Qed.
End Restamp.

(* ------------------------------------------------------------------ the equivalence *)

Section Equiv.
  Variable sg : list mergefn.
  Variable fl : flags.
  Hypothesis Hr : fl_rebuild fl = true.
  Hypothesis Hm : fl_merge fl = true.

  (** an invariant of the reachable databases, the fragment of ground commands, and which
      environments keep their grounding *)
  Variable W : state -> Prop.
  Variable P : xcmd -> Prop.
  Variable EnvOk : state -> env -> Prop.

  Definition noop (s : state) (c : xcmd) : Prop := xexec sg s c = (s, None).

  Hypothesis H_W : forall s c s', W s -> P c -> xexec sg s c = (s', None) -> W s'.
  (** idempotent re-application *)
  Hypothesis H_idem : forall s c s', W s -> P c -> xexec sg s c = (s', None) -> noop s' c.
  Hypothesis H_stable : forall s c c' s', W s -> P c -> P c' -> noop s c ->
    xexec sg s c' = (s', None) -> noop s' c.
  (** grounding through the witness terms is stable *)
  Hypothesis H_env0 : forall s fs e, W s -> In e (match_body s fs [[]]) -> EnvOk s e.
  Hypothesis H_env : forall s c s' e, W s -> P c -> xexec sg s c = (s', None) -> EnvOk s e ->
    EnvOk s' e /\ forall a, ground_action s' e a = ground_action s e a.

  (** the actions of the program stay inside the fragment *)
  Definition act_in (a : action) : Prop := forall s e c, ground_action s e a = Some c -> P c.
  Hypothesis P_panic : P XPanic.
  Definition rule_in (r : rule) : Prop := Forall act_in (rhead r).

  Lemma env_cmds_P s r e : rule_in r -> Forall P (env_cmds s r e).
  Proof.
    intros Hr0. unfold env_cmds. apply Forall_forall. intros c Hc. apply in_flat_map in Hc.
    destruct Hc as [a [Ha Hc]]. unfold rule_in in Hr0. rewrite Forall_forall in Hr0.
    destruct (ground_action s e a) eqn:E; destruct Hc as [Hc|[]]; subst; auto.
    eapply Hr0; eauto.
  Qed.

  (* ---- runs of ground commands *)

  Lemma xrun_cons s c tl : xrun sg s (c :: tl) =
    match xexec sg s c with (s', None) => xrun sg s' tl | r => r end.
  Proof. reflexivity. Qed.

  Lemma xrun_facts : forall cs s s', W s -> Forall P cs -> xrun sg s cs = (s', None) ->
    W s' /\ Forall (noop s') cs
    /\ (forall c, P c -> noop s c -> noop s' c)
    /\ (forall e, EnvOk s e -> EnvOk s' e /\ forall a, ground_action s' e a = ground_action s e a).
  Proof.
    induction cs as [|c cs IH]; intros s s' HW HP Hrun.
    - simpl in Hrun. inversion Hrun; subst. repeat split; auto.
    - rewrite xrun_cons in Hrun. inversion HP as [|? ? Pc Pcs]; subst.
      destruct (xexec sg s c) as [s1 [err|]] eqn:E; [inversion Hrun|].
      assert (W1 : W s1) by exact (H_W s c s1 HW Pc E).
      destruct (IH s1 s' W1 Pcs Hrun) as [W' [Hall [Hst Hen]]].
      split; [exact W'|]. split; [|split].
      + constructor; [|exact Hall]. apply Hst; [exact Pc|]. exact (H_idem s c s1 HW Pc E).
      + intros c0 Pc0 Hn. apply Hst; [exact Pc0|]. exact (H_stable s c0 c s1 HW Pc0 Pc Hn E).
      + intros e He. destruct (H_env s c s1 e HW Pc E He) as [He1 Hg1].
        destruct (Hen e He1) as [He' Hg']. split; auto. intros a. rewrite Hg'. apply Hg1.
  Qed.

  (** dropping no-ops from a run changes nothing *)
  Lemma xrun_skip : forall tcs s, W s -> Forall (fun bc => P (snd bc)) tcs ->
    (forall bc, In bc tcs -> fst bc = false -> noop s (snd bc)) ->
    xrun sg s (map snd (filter fst tcs)) = xrun sg s (map snd tcs).
  Proof.
    induction tcs as [|[b c] tcs IH]; intros s HW HP Hno; [reflexivity|].
    inversion HP as [|? ? Pc Pcs]; subst. simpl in Pc.
    destruct b; cbn [filter fst map snd].
    - rewrite !xrun_cons. destruct (xexec sg s c) as [s1 [err|]] eqn:E; auto.
      assert (W1 : W s1) by exact (H_W s c s1 HW Pc E).
      apply IH; [exact W1|exact Pcs|].
      intros bc Hin Hf. apply (H_stable s (snd bc) c s1 HW); [|exact Pc| |exact E].
      + rewrite Forall_forall in Pcs. apply (Pcs bc Hin).
      + apply Hno; auto. right. exact Hin.
    - rewrite xrun_cons. assert (Hn : noop s c) by (apply (Hno (false, c)); [left|]; reflexivity).
      unfold noop in Hn. rewrite Hn. apply IH; auto. intros bc Hin Hf. apply Hno; auto. right. exact Hin.
  Qed.

  (* ---- the invariant *)

  (** [c03_ts_inv]: every match of a rule whose rows are all OLD for that rule (stamps before the
      rule's last run) has ground commands that are no-ops now: it was a match when the rule last
      ran, its commands were executed, and re-applying them changes nothing *)
  Definition ts_inv (ps : spstate) : Prop :=
    let '(X, rules) := ps in
    W (ss X)
    /\ Forall rule_in rules
    /\ (forall k, slast X k <= sclock X)
    /\ (forall k, length rules <= k -> slast X k = 0)
    /\ (forall k r e, nth_error rules k = Some r -> slast X k <> 0 ->
          In e (match_body (old_state (slast X k) (ss X) (sst X)) (rbody r) [[]]) ->
          Forall (noop (ss X)) (env_cmds (ss X) r e)).

  Lemma frontier_own last sel k : frontier last sel k = last k.
  Proof. reflexivity. Qed.

  Lemma advance_spec n last sel now k :
    advance n last sel now k = if existsb (Nat.eqb k) sel && (k <? n) then now else last k.
  Proof. reflexivity. Qed.

  Lemma tagged_P s st mid r : rule_in r -> Forall (fun bc => P (snd bc)) (tagged_cmds s st mid r).
  Proof.
    intros Hin. unfold tagged_cmds. apply Forall_forall. intros bc H. apply in_flat_map in H.
    destruct H as [e [_ H]]. apply in_map_iff in H. destruct H as [c [E Hc]]. subst. simpl.
    pose proof (env_cmds_P s r e Hin) as HF. rewrite Forall_forall in HF. auto.
  Qed.

  Lemma sel_tagged_P rules X sel : Forall rule_in rules ->
    Forall (fun bc => P (snd bc)) (sel_tagged rules X sel).
  Proof.
    intros HR. unfold sel_tagged. apply Forall_forall. intros bc H. apply in_flat_map in H.
    destruct H as [k [_ H]]. destruct (nth_error rules k) as [r|] eqn:E; [|destruct H].
    assert (Hin : rule_in r). { rewrite Forall_forall in HR. apply HR. eapply nth_error_In; eauto. }
    pose proof (tagged_P (ss X) (sst X) (frontier (slast X) sel k) r Hin) as HF.
    rewrite Forall_forall in HF. auto.
  Qed.

  (** what semi-naive evaluation skips is a no-op *)
  Lemma skipped_noop rules X sel : ts_inv (X, rules) ->
    forall bc, In bc (sel_tagged rules X sel) -> fst bc = false -> noop (ss X) (snd bc).
  Proof.
    intros [HW [HR [Hle [Hz Hinv]]]] bc H Hf. unfold sel_tagged in H. apply in_flat_map in H.
    destruct H as [k [_ H]]. destruct (nth_error rules k) as [r|] eqn:E; [|destruct H].
    unfold tagged_cmds in H. rewrite frontier_own in H. apply in_flat_map in H.
    destruct H as [e [He H]]. apply in_map_iff in H. destruct H as [c [Ebc Hc]]. subst bc.
    simpl in Hf. simpl. apply negb_false_iff in Hf. apply env_mem_true in Hf.
    destruct (Nat.eqb (slast X k) 0) eqn:E0; [destruct Hf|]. apply Nat.eqb_neq in E0.
    specialize (Hinv k r e E E0 Hf). rewrite Forall_forall in Hinv. auto.
  Qed.

  Theorem iter_semi_eq_naive rules X sel : ts_inv (X, rules) ->
    iter_semi fl sg rules X sel = iter_naive fl sg rules X sel.
  Proof.
    intros Hinv. unfold iter_semi, iter_naive, iter_with. cbv zeta.
    destruct Hinv as [HW [HR Hrest]].
    rewrite (xrun_skip (sel_tagged rules X sel) (ss X) HW (sel_tagged_P rules X sel HR)).
    - reflexivity.
    - apply skipped_noop. repeat split; auto; apply Hrest.
  Qed.

  (** the matches of a rule, spelled through [tagged_cmds] *)
  Lemma tagged_all s st mid r e c : In e (match_body s (rbody r) [[]]) -> In c (env_cmds s r e) ->
    exists b, In (b, c) (tagged_cmds s st mid r).
  Proof.
    intros He Hc. eexists. unfold tagged_cmds. apply in_flat_map. exists e. split; auto.
    apply in_map_iff. exists c. split; [reflexivity|exact Hc].
  Qed.

  (** the invariant is re-established by any run of fragment commands that completes, with the
      stamps recomputed at the clock and the rules of [sel] advanced to the clock -- provided
      every match of a rule of [sel] had its commands in the run or was already a no-op *)
  Lemma ts_inv_step rules X cs s' sel bump :
    ts_inv (X, rules) -> Forall P cs -> xrun sg (ss X) cs = (s', None) ->
    (forall k r e c, In k sel -> nth_error rules k = Some r ->
        In e (match_body (ss X) (rbody r) [[]]) -> In c (env_cmds (ss X) r e) ->
        In c cs \/ noop (ss X) c) ->
    ts_inv (fst (finish fl (length rules) X (s', None) sel bump), rules).
  Proof.
    intros [HW [HR [Hle [Hz Hinv]]]] HP Hrun Hcov.
    destruct (xrun_facts cs (ss X) s' HW HP Hrun) as [W' [Hall [Hst Hen]]].
    unfold finish. cbn [fst]. unfold ts_inv. cbn [ss sst sclock slast].
    split; [exact W'|]. split; [exact HR|]. split; [|split].
    - intros k. rewrite advance_spec. destruct (_ && _); [destruct bump; lia|].
      specialize (Hle k). destruct bump; lia.
    - intros k Hk. rewrite advance_spec. replace (k <? length rules) with false
        by (symmetry; apply Nat.ltb_ge; exact Hk). rewrite andb_false_r. apply Hz. exact Hk.
    - intros k r e Hk Hne He. rewrite advance_spec in Hne, He.
      assert (Rin : rule_in r). { rewrite Forall_forall in HR. apply HR. eapply nth_error_In; eauto. }
      assert (Hgoal : forall e0, In e0 (match_body (ss X) (rbody r) [[]]) ->
                (forall c, In c (env_cmds (ss X) r e0) -> noop s' c) ->
                Forall (noop s') (env_cmds s' r e0)).
      { intros e0 He0 Hc. assert (Hok : EnvOk (ss X) e0) by (eapply H_env0; eauto).
        destruct (Hen e0 Hok) as [_ Hg]. apply Forall_forall. intros c Hin. apply Hc.
        unfold env_cmds in *. apply in_flat_map in Hin. destruct Hin as [a [Ha Hin]].
        apply in_flat_map. exists a. split; auto. rewrite <- Hg. exact Hin. }
      destruct (existsb (Nat.eqb k) sel && (k <? length rules)) eqn:Esel.
      + (* the rule ran now: its frontier is the clock *)
        apply andb_true_iff in Esel. destruct Esel as [Esel _]. apply existsb_exists in Esel.
        destruct Esel as [k' [Hin Ek]]. apply Nat.eqb_eq in Ek. subst k'.
        assert (He1 : In e (match_body (ss X) (rbody r) [[]])).
        { revert He. apply match_body_mono; [|apply incl_refl]. intros f.
          apply old_state_in_prev; auto. }
        apply Hgoal; auto. intros c Hc.
        destruct (Hcov k r e c Hin Hk He1 Hc) as [Hcs|Hn].
        * rewrite Forall_forall in Hall. auto.
        * apply Hst; auto. pose proof (env_cmds_P (ss X) r e Rin) as HF.
          rewrite Forall_forall in HF. auto.
      + (* the rule did not run: its frontier is unchanged and not after the clock *)
        assert (He1 : In e (match_body (old_state (slast X k) (ss X) (sst X)) (rbody r) [[]])).
        { revert He. apply match_body_mono; [|apply incl_refl]. intros f.
          apply old_state_shrinks; auto. }
        specialize (Hinv k r e Hk Hne He1).
        assert (He2 : In e (match_body (ss X) (rbody r) [[]])).
        { revert He1. apply match_body_mono; [|apply incl_refl]. intros f. apply old_sub_full. }
        apply Hgoal; auto. intros c Hc. apply Hst.
        * pose proof (env_cmds_P (ss X) r e Rin) as HF. rewrite Forall_forall in HF. auto.
        * rewrite Forall_forall in Hinv. auto.
  Qed.

  Lemma sel_tagged_cover rules X sel k r e c : In k sel -> nth_error rules k = Some r ->
    In e (match_body (ss X) (rbody r) [[]]) -> In c (env_cmds (ss X) r e) ->
    In c (map snd (sel_tagged rules X sel)).
  Proof.
    intros Hk Hr0 He Hc.
    destruct (tagged_all (ss X) (sst X) (frontier (slast X) sel k) r e c He Hc) as [b Hb].
    apply in_map_iff. exists (b, c). split; auto. unfold sel_tagged. apply in_flat_map.
    exists k. split; auto. rewrite Hr0. exact Hb.
  Qed.

  Lemma Forall_map_snd (tcs : list (bool * xcmd)) :
    Forall (fun bc => P (snd bc)) tcs -> Forall P (map snd tcs).
  Proof. induction 1; simpl; constructor; auto. Qed.

  Definition scmd_in (k : scmd) : Prop :=
    match k with
    | SAct a => act_in a
    | SRule r => rule_in r
    | SIter _ => True
    end.

  (** one command: semi-naive and naive agree, and the invariant is kept *)
  Theorem sexec_equiv ps k : ts_inv ps -> scmd_in k ->
    sexec true fl sg ps k = sexec false fl sg ps k
    /\ (forall ps', sexec false fl sg ps k = (ps', None) -> ts_inv ps').
  Proof.
    destruct ps as [X rules]. intros Hinv Hk. destruct k as [a|r|sel]; cbn [sexec].
    - split; [reflexivity|]. intros ps' H.
      destruct (ground_action (ss X) [] a) as [c|] eqn:Eg; [|inversion H].
      destruct (xexec sg (ss X) c) as [s1 e1] eqn:Ex.
      unfold finish in H. inversion H; subst.
      assert (Pc : P c) by (eapply Hk; eauto).
      pose proof (ts_inv_step rules X [c] s1 [] inc_ts_flush Hinv) as Hs.
      unfold finish in Hs. cbn [fst] in Hs. apply Hs.
      + constructor; auto.
      + simpl. rewrite Ex. reflexivity.
      + intros ? ? ? ? [].
    - split; [reflexivity|]. intros ps' H. inversion H; subst.
      destruct Hinv as [HW [HR [Hle [Hz Hi]]]]. unfold ts_inv. split; [exact HW|].
      split; [apply Forall_app; split; auto|]. split; [exact Hle|]. split.
      + intros k0 Hk0. apply Hz. rewrite app_length in Hk0. simpl in Hk0. lia.
      + intros k0 r0 e Hn Hne He. destruct (Nat.lt_ge_cases k0 (length rules)) as [Hlt|Hge].
        * rewrite nth_error_app1 in Hn by auto. eapply Hi; eauto.
        * exfalso. apply Hne. apply Hz. exact Hge.
    - pose proof (iter_semi_eq_naive rules X sel Hinv) as Heq.
      unfold iter_semi, iter_naive in Heq. rewrite Heq. split; [reflexivity|].
      intros ps' H. unfold iter_with in H. cbv zeta in H.
      destruct (xrun sg (ss X) (map snd (sel_tagged rules X sel))) as [s1 e1] eqn:Ex.
      cbn [fst] in H. unfold finish in H. inversion H; subst.
      pose proof (ts_inv_step rules X (map snd (sel_tagged rules X sel)) s1 sel
                    (bump_iter (ss X) s1) Hinv) as Hs.
      unfold finish in Hs. cbn [fst] in Hs. apply Hs; auto.
      + apply Forall_map_snd. apply sel_tagged_P. apply Hinv.
      + intros k r e c Hk0 Hr0 He Hc. left. eapply sel_tagged_cover; eauto.
  Qed.

  (** [c03_equiv]: every program of the fragment, every schedule: the databases after every
      command (top-level write, rule declaration, iteration of any ruleset) coincide *)
  Theorem srun_equiv : forall ks ps, ts_inv ps -> Forall scmd_in ks ->
    srun true fl sg ps ks = srun false fl sg ps ks.
  Proof.
    induction ks as [|k ks IH]; intros ps Hinv HK; [reflexivity|].
    inversion HK as [|? ? Hk HKs]; subst. cbn [srun].
    destruct (sexec_equiv ps k Hinv Hk) as [Heq Hnext]. rewrite Heq.
    destruct (sexec false fl sg ps k) as [ps' [err|]] eqn:E; [reflexivity|].
    f_equal. apply IH; auto.
  Qed.

  (** the invariant holds at every iteration boundary of the semi-naive run *)
  Theorem ts_inv_reachable : forall ks ps ps', ts_inv ps -> Forall scmd_in ks ->
    fold_left (fun acc k => match acc with
                            | Some p => match sexec true fl sg p k with
                                        | (p', None) => Some p'
                                        | _ => None
                                        end
                            | None => None
                            end) ks (Some ps) = Some ps' ->
    ts_inv ps'.
  Proof.
    induction ks as [|k ks IH]; intros ps ps' Hinv HK H.
    - simpl in H. inversion H; subst. exact Hinv.
    - inversion HK as [|? ? Hk HKs]; subst. cbn [fold_left] in H.
      destruct (sexec_equiv ps k Hinv Hk) as [Heq Hnext]. rewrite Heq in H.
      destruct (sexec false fl sg ps k) as [p1 [err|]] eqn:E.
      + exfalso. clear -H. induction ks; simpl in H; [discriminate|auto].
      + apply (IH p1 ps' (Hnext p1 eq_refl) HKs H).
  Qed.

  Lemma ts_inv_init n : W (init n) -> ts_inv (sinit n).
  Proof.
    intros HW. unfold sinit, ts_inv. cbn. repeat split; auto.
    - intros k r e H. destruct k; discriminate.
  Qed.
End Equiv.
