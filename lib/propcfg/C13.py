"""C13 configuration for bin/check."""

CFG = {'assumptions': [],
 'corr_is_violation': True,
 'harness': [{'bin': 'h_egg', 'extra': ['--prop', 'C13'], 'name': 'h_egg', 'prefix': 'cases_egg'},
             {'bin': 'h_egg',
              'env': {'EGGLOG_PARALLEL_DB_LEVEL_OP_CUTOFF': '0',
                      'EGGLOG_PARALLEL_REBUILD_CUTOFF': '0',
                      'EGGLOG_PARALLEL_TABLE_OP_CUTOFF': '0'},
              'extra': ['--prop', 'C13', '--threads', '4', '--cases', '60'],
              'name': 'h_egg_par',
              'prefix': 'cases_egg'}],
 'link_only': "extraction skipping subsumed rows (C07's filter), push/pop, :subsume rewrites are covered by "
              'the correspondence sessions only',
 'model_targets': ['Egg/Rules.vo'],
 'proof_targets': ['Props/C13.vo'],
 'theorem_backed': 'regenerated source facts: the frontend constrains every rule-body table atom to non-subsumed rows (= the model matcher filter) and the extractor scans are guarded by !row.subsumed; subsume flag is OR under merge (translated combine_subsumed), sticky through any insert '
                   'sequence and through rebuild in either order; rule matching never sees subsumed rows at '
                   'any nesting depth; eval (check) and rebuild (congruence) ignore the flag; subsume/delete '
                   'frames',
 'tier_a': ['UFSeq', 'MergeArms', 'BridgeFns', 'Facts.subsume_guards'],
 'trusted': ['translator /verif/translator: gen/UFSeq.v (union-find), gen/MergeArms.v (UnionId=min, Old, '
             'New), gen/BridgeFns.v (combine_subsumed) are regenerated from the source on every run and used '
             'by Egg/Model.v',
             'hand-written model coq/Egg/Model.v + Egg/Rules.v (naive matching, term-level commands) tied to '
             'the engine by the correspondence check h_egg (observations after every command: class vector '
             'of probe terms up to depth 3, table sizes, subsumed counts, int-valued probes)']}
