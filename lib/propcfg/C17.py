"""C17 configuration for bin/check."""

CFG = {
        "tier_a": ["UFSeq"],
        "model_targets": ["UF/Ops.vo", "UF/ConcModel.vo"],
        "proof_targets": ["Props/C17.vo", "Props/C17c.vo"],
        "props_files": ["C17", "C17c"],
        "corr_is_violation": True,
        "harness": [{"bin": "h_uf", "prefix": "cases_uf"},
                    {"bin": "h_conc", "name": "h_conc_uf", "sub": "conc-uf", "extra": ["--only", "uf"],
                     "prefix": "cases_ufc", "timeout": 900}],
        "trusted": [
            "translator /verif/translator (Rust subset -> Gallina over Res; emitted gen/UFSeq.v is what the theorems are about)",
        ],
        "theorem_backed": "concurrent union-find PROTOCOL (hand-written interleaving semantics, one step per load/CAS of find_impl/merge/same_set, sequentially consistent, any number of threads): parent[x]<=x, partition = closure of the merges that took effect, compression never changes it, representative = least id, linearization-point facts for find/same_set/union's effect; REFUTED with witness: union's returned parent can be a stale non-root (c17c_union_parent_stale_refuted, c17c_linearizable_refuted). Sequential UnionFind (translated from union-find/src/lib.rs): no panic, termination, same-root iff connected, representative = least id, path halving preserves the partition, for all operation sequences",
        "link_only": "concurrent union-find on the real code: memory ordering (Acquire/Release vs SC), Buffer growth under ReadOptimizedLock, real interleavings - stress only (final-state correspondence with the translated sequential union-find + interval-based necessary conditions of linearizability on timestamped histories)",
        "assumptions": [
            "ids are modelled as unbounded nat (u32/usize exhaustion not modelled)",
            "Vec indexing out of bounds is modelled as Panic and proved not to occur",
        ],
    }
